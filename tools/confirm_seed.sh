#!/bin/sh
# tools/confirm_seed.sh <worktree-id> [pytest targets...]: re-run a seeded change's demonstration both ways in its own worktree
# (with the change: must fail; without: must pass), then the given tests with the change applied.
wt=/tmp/wt/$1; shift
cd $wt || exit 2
git diff --quiet -- nessai && git apply SEED/patch.diff
echo "--- demo WITH change"; PYTHONPATH=$wt timeout 900 /venv/bin/python SEED/demo.py > /tmp/demo_with.log 2>&1; echo "exit=$?"; tail -3 /tmp/demo_with.log | cut -c1-200
git apply -R SEED/patch.diff || exit 3
echo "--- demo WITHOUT change"; PYTHONPATH=$wt timeout 900 /venv/bin/python SEED/demo.py > /tmp/demo_without.log 2>&1; echo "exit=$?"; tail -3 /tmp/demo_without.log | cut -c1-200
git apply SEED/patch.diff
if [ $# -gt 0 ]; then echo "--- tests WITH change: $@"; PYTHONPATH=$wt /venv/bin/python -m pytest -q -p no:cacheprovider --timeout=900 -n 8 "$@" 2>&1 | tail -3; fi
