#!/venv/bin/python
"""tools/patch_check.py <patch.diff> [props...]: run the checks, in memory, on /repo + patch (applied in a scratch clone
under $TMPDIR; nothing is written to /repo or /verif/evidence).  Prints, per property, the obligations that fail and are
not known findings.  Exit 0 if every check is silent."""
import os
import shutil
import subprocess
import sys
import tempfile
from concurrent.futures import ProcessPoolExecutor

HERE = os.path.dirname(os.path.dirname(os.path.abspath(__file__)))
sys.path.insert(0, HERE)
from sa import AnalysisError, core  # noqa: E402
from sa.props import ALL  # noqa: E402


def run_one(args):
    prop, ov = args
    sys.setrecursionlimit(10000)
    known = {f["key"] for f in core.load_known().get("findings", []) if f["property"] == prop}
    try:
        prog = core.make_program(prop, "/repo", overrides=ov)
        ctx = core.analyse(prop, "/repo", "quick", prog=prog)
    except AnalysisError as e:
        return prop, 2, [f"ANALYSIS-ERROR: {str(e)[:300]}"]
    except Exception as e:
        return prop, 2, [f"INTERNAL-ERROR: {e!r}"[:300]]
    bad = [o for o in ctx.obs if not o.ok and o.key not in known]
    out = [f"{o.clause} {o.rule} {o.where.split(':')[-1]}: {o.construct[:150]} -- {o.detail[:200]}" for o in bad]
    if getattr(ctx, "incomplete", None):
        out.append(f"(analysis stopped early: {ctx.incomplete[:200]})")
    return prop, (1 if bad else 0), out


def overrides_for(patch):
    tmp = tempfile.mkdtemp(prefix="patchcheck_")
    clone = os.path.join(tmp, "repo")
    subprocess.check_call(["git", "clone", "-q", "/repo", clone])
    r = subprocess.run(["git", "-C", clone, "apply", "--recount", patch], capture_output=True, text=True)
    if r.returncode != 0:
        r = subprocess.run(["git", "-C", clone, "apply", "--3way", patch], capture_output=True, text=True)
    if r.returncode != 0:
        shutil.rmtree(tmp, ignore_errors=True)
        raise SystemExit(f"patch does not apply: {r.stderr[:300]}")
    changed = subprocess.check_output(["git", "-C", clone, "diff", "--name-only", "HEAD"], text=True).split()
    ov = {rel: open(os.path.join(clone, rel)).read() for rel in changed if rel.endswith(".py") and os.path.exists(os.path.join(clone, rel))}
    shutil.rmtree(tmp, ignore_errors=True)
    return ov


def main():
    patch = os.path.abspath(sys.argv[1])
    props = [a for a in sys.argv[2:] if a.startswith("C")] or ALL
    ov = overrides_for(patch)
    rc = 0
    with ProcessPoolExecutor(max_workers=min(16, len(props))) as ex:
        for prop, code, lines in ex.map(run_one, [(p, ov) for p in props]):
            if code:
                rc = max(rc, code)
                print(f"{prop} rc={code}")
                for ln in lines[:8]:
                    print("    " + ln)
    print("changed:", ", ".join(sorted(ov)), "| result:", "silent" if rc == 0 else f"rc={rc}")
    return rc


if __name__ == "__main__":
    sys.exit(main())
