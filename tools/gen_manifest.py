#!/venv/bin/python
"""Regenerate MANIFEST.json from the property modules that exist (claimed) and
the NOT_APPLICABLE table below (everything else)."""
import importlib
import json
import os
import sys

HERE = os.path.dirname(os.path.dirname(os.path.abspath(__file__)))
sys.path.insert(0, HERE)
from sa.props import ALL  # noqa: E402

NA_REASONS = {
    "C06": "statistical calibration over seeds (mean error vs zero, spread vs reported uncertainty, KS p-values): a distributional claim about runs; no clause of it is visible in the shape of the code, and any static proxy would be a rule already claimed under C01-C05/C08/C09 or a sampler run wearing a static label (DESIGN.md section 2, C06)",
}
ids = [json.loads(l)["id"] for l in open(os.path.join(HERE, "properties.jsonl"))]
checks = []
for p in ALL:
    mod = importlib.import_module(f"sa.props.{p}")
    claim = getattr(mod, "CLAIM", None)
    if claim is None:
        continue
    checks.append({
        "property_id": p,
        "quick_cmd": f"./check {p} --tier quick",
        "thorough_cmd": f"./check {p} --tier thorough",
        "evidence_file": f"/verif/evidence/{p}.json",
        "replay_cmd_template": f"./check {p} --replay {{path}}",
        "engine": "sa",
        "level_claimed": {"category": "other", "text": claim["text"], "design_ref": claim.get("design_ref", f"DESIGN.md section 2, {p}")},
        "level_note": claim["note"],
        "technique": "static analysis: " + mod.TECHNIQUE,
    })
claimed = {c["property_id"] for c in checks}
na = [{"property_id": i, "reason": NA_REASONS.get(i, "designed (DESIGN.md section 2) but the static check is not built yet; nothing is claimed")} for i in ids if i not in claimed]
m = {
    "version": 1,
    "setup_cmd": "/venv/bin/python -B -c \"import ast, networkx, sys; sys.path.insert(0, '/verif'); import sa.pm, sa.cfg, sa.core\"",
    "hooks": {
        "guard": "MJ_WILL_NESSAI_VERIF",
        "enable": "none: static analysis reads /repo sources and needs no instrumentation; the guard name is declared but guards nothing",
        "baseline_off_cmd": "cd /repo && /venv/bin/python -m pytest -ra -q -p no:cacheprovider --timeout=900 --continue-on-collection-errors",
        "source_commits": [],
        "add_only": True,
    },
    "engines": [{"name": "sa", "path": "/verif/sa", "serves_properties": sorted(claimed), "kind_free_text": "repository-specific static analysis in pure Python: ast program model with in-package MRO and callee resolution, statement-level CFG (dominators, must-pass, loops), def-use, syntactic linear/canonical forms, rule instances enumerated from /repo on every run; mutation self-test in the thorough tier"}],
    "checks": checks,
    "notes": "Every check decides structural necessary conditions (named clauses) of its property from /repo's current source; none runs repository code. Exit 0 ok / 1 VIOLATION / 2 ANALYSIS-ERROR (anchor vanished or construct outside the rule's fragment; never a violation). Known genuine defects are listed in known_findings.json and printed as KNOWN-FINDING lines.",
    "not_applicable": na,
}
json.dump(m, open(os.path.join(HERE, "MANIFEST.json"), "w"), indent=1)
print(f"claimed {sorted(claimed)}; not applicable {[x['property_id'] for x in na]}")
