#!/venv/bin/python
"""Behaviour-preserving variants of /repo/nessai used to test that the checkers
stay silent on code where the properties still hold:

  rename   every function-local variable (not parameters, not globals) gets a
           new name; the whole package is re-emitted through ast.unparse
           (so formatting, parenthesisation and comments change as well)
  numpy    `import numpy as np` -> `import numpy`, `np.` -> `numpy.` (spelling)

Usage: tools/refactor_variants.py <rename|numpy|format> [--repo /repo] [props...]
Runs the checks in memory (Program(overrides=...)); prints one line per property.
"""
import ast
import os
import sys

HERE = os.path.dirname(os.path.dirname(os.path.abspath(__file__)))
sys.path.insert(0, HERE)
from sa import core  # noqa: E402
from sa.pm import Program  # noqa: E402
from sa.props import ALL  # noqa: E402
from sa import AnalysisError  # noqa: E402


class Renamer(ast.NodeTransformer):
    def visit_FunctionDef(self, node):
        # rename only at the outermost function level; nested defs are handled by the same mapping
        params = set()
        for sub in ast.walk(node):
            if isinstance(sub, ast.arguments):
                for a in sub.posonlyargs + sub.args + sub.kwonlyargs:
                    params.add(a.arg)
                if sub.vararg:
                    params.add(sub.vararg.arg)
                if sub.kwarg:
                    params.add(sub.kwarg.arg)
        declared = set()
        for sub in ast.walk(node):
            if isinstance(sub, (ast.Global, ast.Nonlocal)):
                declared |= set(sub.names)
        stored = set()
        for sub in ast.walk(node):
            if isinstance(sub, ast.Name) and isinstance(sub.ctx, ast.Store):
                stored.add(sub.id)
            if isinstance(sub, (ast.FunctionDef, ast.ClassDef)) and sub is not node:
                stored.discard(sub.name)
                declared.add(sub.name)
            if isinstance(sub, ast.ExceptHandler) and sub.name:
                declared.add(sub.name)
            if isinstance(sub, ast.alias):
                declared.add((sub.asname or sub.name).split(".")[0])
        local = stored - params - declared - {"_"}
        mapping = {n: f"{n}_rn" for n in local}
        for sub in ast.walk(node):
            if isinstance(sub, ast.Name) and sub.id in mapping:
                sub.id = mapping[sub.id]
        return node  # do not recurse: nested functions were renamed with the same mapping


def variant_source(kind, source):
    tree = ast.parse(source)
    if kind == "rename":
        new_body = []
        for st in tree.body:
            if isinstance(st, ast.FunctionDef):
                st = Renamer().visit(st)
            elif isinstance(st, ast.ClassDef):
                for i, sub in enumerate(st.body):
                    if isinstance(sub, ast.FunctionDef):
                        st.body[i] = Renamer().visit(sub)
            new_body.append(st)
        tree.body = new_body
        return ast.unparse(tree)
    if kind == "format":
        return ast.unparse(tree)
    if kind == "logging":
        # a debug line at the start of every function body and of every if / else / loop body
        has_logger = any(isinstance(n, ast.Assign) and any(isinstance(t, ast.Name) and t.id == "logger" for t in n.targets) for n in tree.body)
        if not has_logger:
            return source

        def dbg():
            return ast.parse('logger.debug("trace")').body[0]

        for n in ast.walk(tree):
            if isinstance(n, ast.FunctionDef):
                i = 1 if (n.body and isinstance(n.body[0], ast.Expr) and isinstance(n.body[0].value, ast.Constant)) else 0
                n.body.insert(i, dbg())
            elif isinstance(n, (ast.If, ast.For, ast.While)):
                n.body.insert(0, dbg())
                if n.orelse and not (len(n.orelse) == 1 and isinstance(n.orelse[0], ast.If)):
                    n.orelse.insert(0, dbg())
        return ast.unparse(ast.fix_missing_locations(tree))
    if kind == "cmpflip":
        # a < b  ->  b > a   (single-operator comparisons; same truth value)
        flip = {ast.Lt: ast.Gt, ast.Gt: ast.Lt, ast.LtE: ast.GtE, ast.GtE: ast.LtE}
        for n in ast.walk(tree):
            if isinstance(n, ast.Compare) and len(n.ops) == 1 and type(n.ops[0]) in flip:
                n.left, n.comparators, n.ops = n.comparators[0], [n.left], [flip[type(n.ops[0])]()]
        return ast.unparse(ast.fix_missing_locations(tree))
    if kind == "ifswap":
        # if c: A else: B  ->  if not c: B else: A   (two-armed ifs without elif)
        for n in ast.walk(tree):
            if isinstance(n, ast.If) and n.orelse and not (len(n.orelse) == 1 and isinstance(n.orelse[0], ast.If)):
                n.test = ast.UnaryOp(op=ast.Not(), operand=n.test)
                n.body, n.orelse = n.orelse, n.body
        return ast.unparse(ast.fix_missing_locations(tree))
    if kind == "elsedrop":
        # if c: ...; return/raise/continue/break  else: B   ->   if c: ...;   B   (B dedented)
        def fix(stmts):
            out = []
            for st in stmts:
                for f in ("body", "orelse", "finalbody"):
                    v = getattr(st, f, None)
                    if isinstance(v, list) and v and isinstance(v[0], ast.stmt):
                        setattr(st, f, fix(v))
                for h in getattr(st, "handlers", []) or []:
                    h.body = fix(h.body)
                if isinstance(st, ast.If) and st.orelse and isinstance(st.body[-1], (ast.Return, ast.Raise, ast.Continue, ast.Break)):
                    tail, st.orelse = st.orelse, []
                    out.append(st)
                    out.extend(tail)
                else:
                    out.append(st)
            return out

        tree.body = fix(tree.body)
        return ast.unparse(ast.fix_missing_locations(tree))
    if kind == "stmtswap":
        # swap adjacent, independent, call-free single-name assignments
        def names(n, ctx):
            return {x.id for x in ast.walk(n) if isinstance(x, ast.Name) and isinstance(x.ctx, ctx)}

        def simple(st):
            return isinstance(st, ast.Assign) and len(st.targets) == 1 and isinstance(st.targets[0], ast.Name) and not any(isinstance(x, (ast.Call, ast.Subscript, ast.Attribute, ast.NamedExpr)) for x in ast.walk(st.value))

        for n in ast.walk(tree):
            for f in ("body", "orelse"):
                v = getattr(n, f, None)
                if not (isinstance(v, list) and v and isinstance(v[0], ast.stmt)):
                    continue
                i = 0
                while i + 1 < len(v):
                    a, b = v[i], v[i + 1]
                    if simple(a) and simple(b) and a.targets[0].id != b.targets[0].id and a.targets[0].id not in names(b.value, ast.Load) and b.targets[0].id not in names(a.value, ast.Load):
                        v[i], v[i + 1] = b, a
                        i += 2
                    else:
                        i += 1
        return ast.unparse(ast.fix_missing_locations(tree))
    if kind == "inline":
        # v = expr ; <simple statement using v exactly once>  ->  the statement with expr in place of v
        # (v assigned once and read once in the whole function)
        for fn in [n for n in ast.walk(tree) if isinstance(n, ast.FunctionDef)]:
            loads, stores = {}, {}
            for x in ast.walk(fn):
                if isinstance(x, ast.Name):
                    d = loads if isinstance(x.ctx, ast.Load) else stores
                    d[x.id] = d.get(x.id, 0) + 1
            for n in ast.walk(fn):
                for f in ("body", "orelse"):
                    v = getattr(n, f, None)
                    if not (isinstance(v, list) and v and isinstance(v[0], ast.stmt)):
                        continue
                    i = 0
                    while i + 1 < len(v):
                        a, b = v[i], v[i + 1]
                        if isinstance(a, ast.Assign) and len(a.targets) == 1 and isinstance(a.targets[0], ast.Name) and isinstance(b, (ast.Assign, ast.Expr, ast.Return, ast.AugAssign)):
                            nm = a.targets[0].id
                            uses = [x for x in ast.walk(b) if isinstance(x, ast.Name) and x.id == nm and isinstance(x.ctx, ast.Load)]
                            if stores.get(nm) == 1 and loads.get(nm) == 1 and len(uses) == 1 and not any(isinstance(x, (ast.Lambda, ast.ListComp, ast.GeneratorExp, ast.DictComp, ast.SetComp)) for x in ast.walk(b)):
                                class R(ast.NodeTransformer):
                                    def visit_Name(self, node):
                                        return a.value if (node.id == nm and isinstance(node.ctx, ast.Load)) else node
                                v[i + 1] = R().visit(b)
                                del v[i]
                                continue
                        i += 1
        return ast.unparse(ast.fix_missing_locations(tree))
    if kind == "extract":
        # the first-evaluated nested call of a simple statement is pulled into a fresh local placed just before it
        counter = [0]

        def first_call(st):
            """(parent, field, index, node) of the first call evaluated in st that is nested inside another expression."""
            res = []

            def rec(n, parent, field, idx, depth, ok):
                if res:
                    return
                if isinstance(n, (ast.Lambda, ast.ListComp, ast.SetComp, ast.DictComp, ast.GeneratorExp, ast.BoolOp, ast.IfExp, ast.JoinedStr, ast.Starred, ast.Await, ast.NamedExpr)):
                    res.append(None)  # conditional / deferred evaluation first: leave the statement alone
                    return
                for f, v in ast.iter_fields(n):
                    if isinstance(v, list):
                        for i, x in enumerate(v):
                            if isinstance(x, ast.AST):
                                rec(x, n, f, i, depth + 1, ok)
                                if res:
                                    return
                    elif isinstance(v, ast.AST):
                        rec(v, n, f, None, depth + 1, ok)
                        if res:
                            return
                if isinstance(n, ast.Call):
                    res.append((parent, field, idx, n) if depth >= 2 and isinstance(parent, (ast.Call, ast.BinOp, ast.Subscript, ast.Attribute, ast.Compare, ast.UnaryOp, ast.keyword, ast.Tuple)) else None)

            root = st.value if isinstance(st, (ast.Assign, ast.Expr, ast.Return, ast.AugAssign)) else None
            if root is None:
                return None
            rec(root, st, "value", None, 1, True)
            return res[0] if res else None

        def fix(stmts):
            out = []
            for st in stmts:
                for f in ("body", "orelse", "finalbody"):
                    v = getattr(st, f, None)
                    if isinstance(v, list) and v and isinstance(v[0], ast.stmt):
                        setattr(st, f, fix(v))
                for h in getattr(st, "handlers", []) or []:
                    h.body = fix(h.body)
                if isinstance(st, (ast.Assign, ast.Expr, ast.Return, ast.AugAssign)) and not (isinstance(st, ast.Assign) and any(not isinstance(t, (ast.Name, ast.Attribute)) for t in st.targets)):
                    fc = first_call(st)
                    if fc:
                        parent, field, idx, node = fc
                        counter[0] += 1
                        nm = f"_xt{counter[0]}"
                        new = ast.Name(id=nm, ctx=ast.Load())
                        if idx is None:
                            setattr(parent, field, new)
                        else:
                            getattr(parent, field)[idx] = new
                        out.append(ast.Assign(targets=[ast.Name(id=nm, ctx=ast.Store())], value=node))
                out.append(st)
            return out

        for fn in [n for n in ast.walk(tree) if isinstance(n, ast.FunctionDef)]:
            fn.body = fix(fn.body)
        return ast.unparse(ast.fix_missing_locations(tree))
    if kind == "alias":
        # the most used, never re-assigned `self.<attr>` of a method gets a local alias bound at the top of the method
        for cls_ in [n for n in ast.walk(tree) if isinstance(n, ast.ClassDef)]:
            for fn in [n for n in cls_.body if isinstance(n, ast.FunctionDef)]:
                if not fn.args.args or fn.args.args[0].arg != "self" or fn.name in ("__init__", "__getstate__", "__setstate__"):
                    continue
                if any(isinstance(d, ast.Name) and d.id in ("property", "staticmethod", "classmethod") for d in fn.decorator_list):
                    continue
                uses, stored = {}, set()
                for x in ast.walk(fn):
                    if isinstance(x, ast.Attribute) and isinstance(x.value, ast.Name) and x.value.id == "self":
                        if isinstance(x.ctx, ast.Load):
                            uses[x.attr] = uses.get(x.attr, 0) + 1
                        else:
                            stored.add(x.attr)
                # only attributes that hold objects which the method merely calls into / reads through (x.attr.something)
                through = {}
                for x in ast.walk(fn):
                    if isinstance(x, ast.Attribute) and isinstance(x.value, ast.Attribute) and isinstance(x.value.value, ast.Name) and x.value.value.id == "self":
                        through[x.value.attr] = through.get(x.value.attr, 0) + 1
                cands = [a for a, c in through.items() if c >= 2 and a not in stored and through[a] == uses.get(a, 0)]
                if not cands or any(isinstance(x, (ast.Lambda, ast.FunctionDef)) and x is not fn for x in ast.walk(fn)):
                    continue
                a = sorted(cands, key=lambda k: (-through[k], k))[0]
                nm = f"_al_{a}"

                class R(ast.NodeTransformer):
                    def visit_Attribute(self, n_):
                        self.generic_visit(n_)
                        if isinstance(n_.value, ast.Name) and n_.value.id == "self" and n_.attr == a and isinstance(n_.ctx, ast.Load):
                            return ast.Name(id=nm, ctx=ast.Load())
                        return n_

                fn.body = [R().visit(st) for st in fn.body]
                i = 1 if (fn.body and isinstance(fn.body[0], ast.Expr) and isinstance(fn.body[0].value, ast.Constant)) else 0
                fn.body.insert(i, ast.Assign(targets=[ast.Name(id=nm, ctx=ast.Store())], value=ast.Attribute(value=ast.Name(id="self", ctx=ast.Load()), attr=a, ctx=ast.Load())))
        return ast.unparse(ast.fix_missing_locations(tree))
    if kind == "augassign":
        # x += y  ->  x = x + y   (names, attributes and subscripts with call-free targets)
        class A(ast.NodeTransformer):
            def visit_AugAssign(self, n):
                if any(isinstance(x, (ast.Call, ast.NamedExpr)) for x in ast.walk(n.target)):
                    return n
                load = ast.parse(ast.unparse(n.target), mode="eval").body
                return ast.Assign(targets=[n.target], value=ast.BinOp(left=load, op=n.op, right=n.value))

        return ast.unparse(ast.fix_missing_locations(A().visit(tree)))
    if kind == "ternary":
        # if c: x = a  else: x = b   ->   x = a if c else b
        class T(ast.NodeTransformer):
            def visit_If(self, n):
                self.generic_visit(n)
                if len(n.body) == 1 and len(n.orelse) == 1 and all(isinstance(s, ast.Assign) and len(s.targets) == 1 and isinstance(s.targets[0], (ast.Name, ast.Attribute)) for s in (n.body[0], n.orelse[0])) and ast.dump(n.body[0].targets[0]) == ast.dump(n.orelse[0].targets[0]):
                    return ast.Assign(targets=[n.body[0].targets[0]], value=ast.IfExp(test=n.test, body=n.body[0].value, orelse=n.orelse[0].value))
                return n

        return ast.unparse(ast.fix_missing_locations(T().visit(tree)))
    if kind == "retvar":
        # return <non-trivial expr>  ->  _ret = <expr>; return _ret
        def fix(stmts):
            out = []
            for st in stmts:
                for f in ("body", "orelse", "finalbody"):
                    v = getattr(st, f, None)
                    if isinstance(v, list) and v and isinstance(v[0], ast.stmt) and not isinstance(st, (ast.FunctionDef, ast.ClassDef)):
                        setattr(st, f, fix(v))
                for h in getattr(st, "handlers", []) or []:
                    h.body = fix(h.body)
                if isinstance(st, ast.Return) and st.value is not None and not isinstance(st.value, (ast.Name, ast.Constant)):
                    out.append(ast.Assign(targets=[ast.Name(id="_ret", ctx=ast.Store())], value=st.value))
                    out.append(ast.Return(value=ast.Name(id="_ret", ctx=ast.Load())))
                else:
                    out.append(st)
            return out

        for fn in [n for n in ast.walk(tree) if isinstance(n, ast.FunctionDef)]:
            if any(isinstance(x, (ast.Yield, ast.YieldFrom)) for x in ast.walk(fn)):
                continue
            fn.body = fix(fn.body)
        return ast.unparse(ast.fix_missing_locations(tree))
    if kind == "guardnest":
        # if a and b: X  (no else)  ->  if a: if b: X
        class G(ast.NodeTransformer):
            def visit_If(self, n):
                self.generic_visit(n)
                if not n.orelse and isinstance(n.test, ast.BoolOp) and isinstance(n.test.op, ast.And):
                    vals = n.test.values
                    inner = ast.If(test=vals[-1] if len(vals) == 2 else ast.BoolOp(op=ast.And(), values=vals[1:]), body=n.body, orelse=[])
                    return ast.If(test=vals[0], body=[inner], orelse=[])
                return n

        return ast.unparse(ast.fix_missing_locations(G().visit(tree)))
    if kind == "guardmerge":
        # if a: if b: X  (no elses, nothing else in the outer body)  ->  if a and b: X
        class G2(ast.NodeTransformer):
            def visit_If(self, n):
                self.generic_visit(n)
                if not n.orelse and len(n.body) == 1 and isinstance(n.body[0], ast.If) and not n.body[0].orelse:
                    return ast.If(test=ast.BoolOp(op=ast.And(), values=[n.test, n.body[0].test]), body=n.body[0].body, orelse=[])
                return n

        return ast.unparse(ast.fix_missing_locations(G2().visit(tree)))
    if kind == "earlyreturn":
        # a function whose last statement is `if c: BODY` (no else)  ->  `if not c: return` + BODY dedented
        for fn in [n for n in ast.walk(tree) if isinstance(n, ast.FunctionDef)]:
            if any(isinstance(x, (ast.Yield, ast.YieldFrom)) for x in ast.walk(fn)):
                continue
            last = fn.body[-1]
            if isinstance(last, ast.If) and not last.orelse and len(fn.body) > 1:
                fn.body[-1:] = [ast.If(test=ast.UnaryOp(op=ast.Not(), operand=last.test), body=[ast.Return(value=None)], orelse=[])] + last.body
        return ast.unparse(ast.fix_missing_locations(tree))
    if kind == "whiletrue":
        # while c: B  ->  while True: if not c: break; B      (loops without else)
        class W(ast.NodeTransformer):
            def visit_While(self, n):
                self.generic_visit(n)
                if n.orelse or (isinstance(n.test, ast.Constant) and n.test.value is True):
                    return n
                brk = ast.If(test=ast.UnaryOp(op=ast.Not(), operand=n.test), body=[ast.Break()], orelse=[])
                return ast.While(test=ast.Constant(value=True), body=[brk] + n.body, orelse=[])

        return ast.unparse(ast.fix_missing_locations(W().visit(tree)))
    if kind == "noise":
        # an unrelated local assignment at the start of every function body and branch, and before every return
        def nz():
            return ast.parse("_dbg_marker = 0").body[0]

        for n in ast.walk(tree):
            if isinstance(n, ast.FunctionDef):
                i = 1 if (n.body and isinstance(n.body[0], ast.Expr) and isinstance(n.body[0].value, ast.Constant)) else 0
                n.body.insert(i, nz())
            elif isinstance(n, (ast.If, ast.For, ast.While)):
                n.body.insert(0, nz())
                if n.orelse and not (len(n.orelse) == 1 and isinstance(n.orelse[0], ast.If)):
                    n.orelse.insert(0, nz())
        return ast.unparse(ast.fix_missing_locations(tree))
    if kind == "tupleassign":
        # adjacent independent call-free single-name assignments  a = x; b = y  ->  a, b = x, y
        def names(n, ctx):
            return {x.id for x in ast.walk(n) if isinstance(x, ast.Name) and isinstance(x.ctx, ctx)}

        def simple(st):
            return isinstance(st, ast.Assign) and len(st.targets) == 1 and isinstance(st.targets[0], ast.Name) and not any(isinstance(x, (ast.Call, ast.NamedExpr, ast.Starred)) for x in ast.walk(st.value))

        for n in ast.walk(tree):
            for f in ("body", "orelse"):
                v = getattr(n, f, None)
                if not (isinstance(v, list) and v and isinstance(v[0], ast.stmt)):
                    continue
                i = 0
                while i + 1 < len(v):
                    a, b = v[i], v[i + 1]
                    if simple(a) and simple(b) and a.targets[0].id != b.targets[0].id and a.targets[0].id not in names(b.value, ast.Load):
                        v[i : i + 2] = [ast.Assign(targets=[ast.Tuple(elts=[a.targets[0], b.targets[0]], ctx=ast.Store())], value=ast.Tuple(elts=[a.value, b.value], ctx=ast.Load()))]
                    i += 1
        return ast.unparse(ast.fix_missing_locations(tree))
    if kind == "annotate":
        # every un-annotated parameter (except self / cls) gets `: object`, every function `-> object`
        for fn in [n for n in ast.walk(tree) if isinstance(n, ast.FunctionDef)]:
            for a in fn.args.posonlyargs + fn.args.args + fn.args.kwonlyargs:
                if a.arg not in ("self", "cls") and a.annotation is None:
                    a.annotation = ast.Name(id="object", ctx=ast.Load())
            if fn.returns is None and fn.name != "__init__":
                fn.returns = ast.Name(id="object", ctx=ast.Load())
        return ast.unparse(ast.fix_missing_locations(tree))
    if kind == "isnot":
        # `x is not None` -> `not (x is None)`, `a not in b` -> `not (a in b)`
        class N(ast.NodeTransformer):
            def visit_Compare(self, n):
                self.generic_visit(n)
                if len(n.ops) == 1 and isinstance(n.ops[0], (ast.IsNot, ast.NotIn)):
                    pos = {ast.IsNot: ast.Is, ast.NotIn: ast.In}[type(n.ops[0])]()
                    return ast.UnaryOp(op=ast.Not(), operand=ast.Compare(left=n.left, ops=[pos], comparators=n.comparators))
                return n

        return ast.unparse(ast.fix_missing_locations(N().visit(tree)))
    if kind == "extractmethod":
        # in every method with >= 6 top-level statements, a run of straight-line statements from the middle of the body
        # (no return / break / continue / yield / nested def inside, not the docstring) moves into a new private method
        # of the same class; locals it reads become parameters, locals it binds and that are used later are returned
        counter = [0]
        for cls_ in [n for n in ast.walk(tree) if isinstance(n, ast.ClassDef)]:
            new_methods = []
            for fn in [n for n in cls_.body if isinstance(n, ast.FunctionDef)]:
                if not fn.args.args or fn.args.args[0].arg != "self" or fn.name.startswith("__") or fn.decorator_list:
                    continue
                body = fn.body
                start0 = 1 if (body and isinstance(body[0], ast.Expr) and isinstance(body[0].value, ast.Constant)) else 0
                if len(body) - start0 < 6:
                    continue
                n = len(body) - start0
                lo, hi = start0 + n // 3, start0 + n // 3 + max(2, n // 3)
                blk = body[lo:hi]
                if any(isinstance(x, (ast.Return, ast.Break, ast.Continue, ast.Yield, ast.YieldFrom, ast.FunctionDef, ast.Lambda, ast.Global, ast.Nonlocal, ast.Delete, ast.Try, ast.With)) for s in blk for x in ast.walk(s)):
                    continue
                params = {a.arg for a in fn.args.posonlyargs + fn.args.args + fn.args.kwonlyargs} | ({fn.args.vararg.arg} if fn.args.vararg else set()) | ({fn.args.kwarg.arg} if fn.args.kwarg else set())
                local_names = params | {x.id for x in ast.walk(fn) if isinstance(x, ast.Name) and isinstance(x.ctx, ast.Store)}
                reads = []
                for s in blk:
                    for x in ast.walk(s):
                        if isinstance(x, ast.Name) and isinstance(x.ctx, ast.Load) and x.id in local_names and x.id != "self" and x.id not in reads:
                            reads.append(x.id)
                        if isinstance(x, ast.AugAssign) and isinstance(x.target, ast.Name) and x.target.id not in reads:
                            reads.append(x.target.id)
                writes = []
                for s in blk:
                    for x in ast.walk(s):
                        if isinstance(x, ast.Name) and isinstance(x.ctx, ast.Store) and x.id not in writes:
                            writes.append(x.id)
                after = {x.id for s in body[hi:] for x in ast.walk(s) if isinstance(x, ast.Name)}
                # loops: a name written in the block and read earlier in an enclosing loop cannot happen at top level
                outs = [w for w in writes if w in after]
                # a name read in the block before the block binds it on every path must be a parameter; names possibly
                # unbound before the block (bound only inside it) must not be passed
                bound_before = params | {x.id for s in body[:lo] for x in ast.walk(s) if isinstance(x, ast.Name) and isinstance(x.ctx, ast.Store)}
                ins = [r for r in reads if r in bound_before]
                if any(r not in bound_before and r not in writes for r in reads):
                    continue
                counter[0] += 1
                nm = f"_extracted_{cls_.name}_{fn.name}_{counter[0]}"  # unique in the class family: a same-named helper in a subclass would override this one
                ret = ast.Return(value=ast.Tuple(elts=[ast.Name(id=o, ctx=ast.Load()) for o in outs], ctx=ast.Load())) if outs else None
                newf = ast.FunctionDef(name=nm, args=ast.arguments(posonlyargs=[], args=[ast.arg(arg="self")] + [ast.arg(arg=i) for i in ins], kwonlyargs=[], kw_defaults=[], defaults=[]), body=list(blk) + ([ret] if ret else []), decorator_list=[], type_params=[])
                call = ast.Call(func=ast.Attribute(value=ast.Name(id="self", ctx=ast.Load()), attr=nm, ctx=ast.Load()), args=[ast.Name(id=i, ctx=ast.Load()) for i in ins], keywords=[])
                if outs:
                    st = ast.Assign(targets=[ast.Tuple(elts=[ast.Name(id=o, ctx=ast.Store()) for o in outs], ctx=ast.Store())], value=call)
                else:
                    st = ast.Expr(value=call)
                fn.body = body[:lo] + [st] + body[hi:]
                new_methods.append(newf)
            cls_.body.extend(new_methods)
        return ast.unparse(ast.fix_missing_locations(tree))
    if kind == "numpy":
        has = any(isinstance(n, ast.Import) and any(a.name == "numpy" and a.asname == "np" for a in n.names) for n in ast.walk(tree))
        if not has:
            return source
        for n in ast.walk(tree):
            if isinstance(n, ast.Import):
                for a in n.names:
                    if a.name == "numpy" and a.asname == "np":
                        a.asname = None
            if isinstance(n, ast.Name) and n.id == "np":
                n.id = "numpy"
        return ast.unparse(tree)
    raise SystemExit(f"unknown variant {kind}")


def build_overrides(kind, repo):
    ov = {}
    pkg = os.path.join(repo, "nessai")
    for root, dirs, files in os.walk(pkg):
        for f in files:
            if f.endswith(".py"):
                p = os.path.join(root, f)
                rel = os.path.relpath(p, repo)
                ov[rel] = variant_source(kind, open(p).read())
    return ov


def main():
    kind = sys.argv[1]
    repo = "/repo"
    props = [a for a in sys.argv[2:] if a.startswith("C")] or ALL
    ov = build_overrides(kind, repo)
    known = core.load_known().get("findings", [])
    rc = 0
    for p in props:
        try:
            prog = core.make_program(p, repo, overrides=ov)
            ctx = core.analyse(p, repo, "quick", prog=prog)
        except AnalysisError as e:
            print(f"{p} [{kind}] ANALYSIS-ERROR: {str(e)[:200]}")
            rc = max(rc, 2)
            continue
        except Exception as e:
            print(f"{p} [{kind}] INTERNAL-ERROR: {e!r}")
            rc = max(rc, 2)
            continue
        keys = {f["key"] for f in known if f["property"] == p}
        bad = [o for o in ctx.obs if not o.ok and o.key not in keys]
        if bad:
            rc = 1
            print(f"{p} [{kind}] FALSE ALARM x{len(bad)}")
            for o in bad[: (50 if os.environ.get("VERBOSE") else 4)]:
                print(f"     {o.clause} {o.where.split(':')[-1]}: {o.construct[:110]} -- {o.detail[:200]}")
        else:
            print(f"{p} [{kind}] silent ({len(ctx.obs)} obligations)")
    return rc


if __name__ == "__main__":
    sys.exit(main())
