#!/bin/sh
# tools/try_patch.sh <patch.diff> [props...]: apply to /repo, run quick checks, undo.
patch="$1"; shift
props="$@"
[ -z "$props" ] && props="C01 C02 C03 C04 C05 C07 C08 C09 C10 C11 C12 C13 C14 C15 C16 C17 C18 C19 C20"
git -C /repo apply "$patch" || { echo "patch does not apply"; exit 3; }
for p in $props; do
  out=$(/verif/check $p 2>&1); rc=$?
  echo "$p rc=$rc $(echo "$out" | grep -v KNOWN-FINDING | grep -E "VIOLATION|ANALYSIS-ERROR|^  " | head -4 | cut -c1-260 | tr '\n' ' ')"
done
git -C /repo checkout -- .
git -C /repo status --short | head -3
