#!/venv/bin/python
"""tools/seed_matrix.py [seed names...]: every archived seeded change against every check, in memory.

Each patch is applied to a scratch clone of /repo (under $TMPDIR, removed afterwards); the files it changes are handed to
the checks as Program(overrides=...), so nothing is written to /repo or to /verif/evidence.  Writes seeded/MATRIX.txt
(one line per seed: the properties whose check reports a violation, `(exit2)` for analysis errors) unless seed names
are given.
"""
import json
import os
import shutil
import subprocess
import sys
import tempfile
from concurrent.futures import ProcessPoolExecutor

HERE = os.path.dirname(os.path.dirname(os.path.abspath(__file__)))
sys.path.insert(0, HERE)
from sa import AnalysisError, core  # noqa: E402
from sa.props import ALL  # noqa: E402


def run_one(args):
    prop, ov = args
    sys.setrecursionlimit(10000)
    known = {f["key"] for f in core.load_known().get("findings", []) if f["property"] == prop}
    try:
        prog = core.make_program(prop, "/repo", overrides=ov)
        ctx = core.analyse(prop, "/repo", "quick", prog=prog)
    except AnalysisError:
        return prop, 2
    except Exception:
        return prop, 2
    bad = [o for o in ctx.obs if not o.ok and o.key not in known]
    if bad:
        return prop, 1
    return prop, (2 if getattr(ctx, "incomplete", None) else 0)


def main():
    names = sys.argv[1:]
    seeds = sorted(d for d in os.listdir(os.path.join(HERE, "seeded")) if os.path.isfile(os.path.join(HERE, "seeded", d, "patch.diff")))
    if names:
        seeds = [s for s in seeds if s in names]
    tmp = tempfile.mkdtemp(prefix="seedmatrix_")
    clone = os.path.join(tmp, "repo")
    subprocess.check_call(["git", "clone", "-q", "/repo", clone])
    lines = []
    with ProcessPoolExecutor(max_workers=16) as ex:
        for s in seeds:
            patch = os.path.join(HERE, "seeded", s, "patch.diff")
            r = subprocess.run(["git", "-C", clone, "apply", "--recount", patch], capture_output=True, text=True)
            if r.returncode != 0:
                r = subprocess.run(["git", "-C", clone, "apply", "--3way", patch], capture_output=True, text=True)
            if r.returncode != 0:
                lines.append(f"{s}: patch does not apply to the current tree")
                subprocess.call(["git", "-C", clone, "checkout", "-q", "--", "."])
                print(lines[-1], flush=True)
                continue
            changed = subprocess.check_output(["git", "-C", clone, "diff", "--name-only"], text=True).split()
            ov = {rel: open(os.path.join(clone, rel)).read() for rel in changed if rel.endswith(".py")}
            subprocess.call(["git", "-C", clone, "checkout", "-q", "--", "."])
            subprocess.call(["git", "-C", clone, "reset", "-q", "--hard"])
            res = dict(ex.map(run_one, [(p, ov) for p in ALL]))
            hits = " ".join(p + ("(exit2)" if rc == 2 else "") for p, rc in sorted(res.items()) if rc)
            own = json.load(open(os.path.join(HERE, "seeded", s, "meta.json"))).get("property") if os.path.exists(os.path.join(HERE, "seeded", s, "meta.json")) else "?"
            flag = "" if own in [p for p, rc in res.items() if rc == 1] else "   <-- NOT CAUGHT by its own property's check"
            lines.append(f"{s}: {hits}{flag}")
            print(lines[-1], flush=True)
    shutil.rmtree(tmp, ignore_errors=True)
    if not names:
        with open(os.path.join(HERE, "seeded", "MATRIX.txt"), "w") as fh:
            fh.write("\n".join(lines) + "\n")


if __name__ == "__main__":
    main()
