#!/bin/sh
# tools/all_variants.sh [kinds...]: every behaviour-preserving variant kind against every check (parallel); prints whatever is not silent
cd "$(dirname "$0")/.."
kinds="$@"
[ -z "$kinds" ] && kinds="rename format numpy logging cmpflip ifswap elsedrop stmtswap inline extract alias augassign ternary retvar guardnest guardmerge earlyreturn whiletrue noise tupleassign annotate isnot extractmethod"
mkdir -p ${TMPDIR:-/tmp}/var
for k in $kinds; do /venv/bin/python tools/refactor_variants.py $k > ${TMPDIR:-/tmp}/var/$k.log 2>&1 & done
wait
for k in $kinds; do n=$(grep -c silent ${TMPDIR:-/tmp}/var/$k.log); echo "== $k: $n silent"; grep -v silent ${TMPDIR:-/tmp}/var/$k.log; done
