#!/bin/sh
# tools/seed_matrix.sh: every archived seed against every quick check (16 at a time is not possible: /repo is shared) -> seeded/MATRIX.txt
out=/verif/seeded/MATRIX.txt
: > $out
for d in /verif/seeded/*/; do
  s=$(basename $d)
  [ -f $d/patch.diff ] || continue
  git -C /repo apply $d/patch.diff || { echo "$s: patch does not apply" >> $out; continue; }
  hits=""
  for p in C01 C02 C03 C04 C05 C07 C08 C09 C10 C11 C12 C13 C14 C15 C16 C17 C18 C19 C20; do
    /verif/check $p > /tmp/seedrun.$$ 2>&1; rc=$?
    [ $rc -eq 1 ] && hits="$hits $p"
    [ $rc -eq 2 ] && hits="$hits $p(exit2)"
  done
  git -C /repo checkout -- .
  echo "$s:$hits" >> $out
done
rm -f /tmp/seedrun.$$
git -C /repo status --short
cat $out
