#!/venv/bin/python
"""Print the markdown table of DESIGN.md section 10.4 from seeded/*/meta.json."""
import glob, json, os
rows = []
for f in sorted(glob.glob("/verif/seeded/*/meta.json")):
    m = json.load(open(f))
    det = m.get("detected_by")
    if isinstance(det, dict):
        det_s = "; ".join(f"{k}: {str(v).replace('VIOLATION: ', '')[:150]}" for k, v in det.items())
    else:
        det_s = "; ".join(str(x)[:150] for x in (det or []))
    missed = m.get("missed_before_strengthening") or []
    missed_s = "; ".join(str(x)[:160] for x in missed) if missed else "-"
    st = str(m.get("strengthening") or "-")
    name = m.get("id") or m.get("seed") or os.path.basename(os.path.dirname(f))
    rows.append((name, m.get("property"), str(m.get("change"))[:260], det_s, missed_s, st[:300] + ("..." if len(st) > 300 else "")))
print("| seed | property | change (what still compiles and passes the suite) | caught by | missed before strengthening | strengthening |")
print("|------|----------|---------------------------------------------------|-----------|-----------------------------|---------------|")
for r in rows:
    print("| " + " | ".join(str(x).replace("|", "/").replace("\n", " ") for x in r) + " |")
print(f"\n{len(rows)} seeded changes; matrix of every seed against every check: `seeded/MATRIX.txt` (`tools/seed_matrix.py`, in memory).")
