#!/venv/bin/python
"""tools/mkmeta.py <seed-dir-name> <json-file-with-fields>: write seeded/<name>/meta.json (fills the fixed fields)."""
import json, sys, os
name, src = sys.argv[1], sys.argv[2]
d = json.load(open(src))
m = {"id": name, "property": d["property"], "origin": d.get("origin", "fresh sub-agent (round 3: asked for a site away from the function the property names, two cooperating sites or a specific history) given only the property text and its own worktree"),
     "change": d["change"], "needs_to_manifest": d["needs"],
     "confirmed": {"demo_with_change": d.get("with", "exit 1 (run by me in the agent's worktree, tools/confirm_seed.sh)"), "demo_without_change": d.get("without", "exit 0 (git apply -R)"), "tests": d["tests"]},
     "checks_run": f"tools/try_patch.sh seeded/{name}/patch.diff",
     "detected_by": d["detected_by"], "missed_before_strengthening": d.get("missed", []), "strengthening": d.get("strengthening", "none needed")}
os.makedirs(f"/verif/seeded/{name}", exist_ok=True)
json.dump(m, open(f"/verif/seeded/{name}/meta.json", "w"), indent=1)
print("wrote", name)
