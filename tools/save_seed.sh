#!/bin/sh
# tools/save_seed.sh <worktree-id> <seed-name>: copy SEED/{patch.diff,demo*,notes.md} into /verif/seeded/<seed-name>/
wt=/tmp/wt/$1; dst=/verif/seeded/$2
mkdir -p "$dst"
cp "$wt"/SEED/patch.diff "$dst"/
for f in "$wt"/SEED/demo*.py "$wt"/SEED/notes.md; do [ -f "$f" ] && cp "$f" "$dst"/; done
ls "$dst"
