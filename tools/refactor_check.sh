#!/bin/sh
# tools/refactor_check.sh [names...]: every archived behaviour-preserving refactoring against every check, in memory
# (RC_OWN_ONLY=1: against the check of the property it was written for and C20 only - the quick regression)
cd "$(dirname "$0")/.."
mkdir -p ${TMPDIR:-/tmp}/rf
for d in refactors/*/; do a=$(basename $d); for f in $d/refactor_*.diff; do k=$(basename $f .diff | sed 's/refactor_//'); 
  [ -n "$1" ] && ! echo " $@ " | grep -q " $a-$k " && continue
  own=${a%%-*}; if [ -n "$RC_OWN_ONLY" ]; then props="$own C20"; else props=""; fi
  tools/patch_check.py $f $props > ${TMPDIR:-/tmp}/rf/$a-$k.log 2>&1; echo "rf-$a-$k: $(tail -1 ${TMPDIR:-/tmp}/rf/$a-$k.log | sed 's/.*result: //')"; done; done
