#!/bin/sh
# tools/refactor_check.sh [names...]: every archived behaviour-preserving refactoring against every check, in memory
cd "$(dirname "$0")/.."
mkdir -p ${TMPDIR:-/tmp}/rf
for d in refactors/*/; do a=$(basename $d); for f in $d/refactor_*.diff; do k=$(basename $f .diff | sed 's/refactor_//'); 
  [ -n "$1" ] && ! echo " $@ " | grep -q " $a-$k " && continue
  tools/patch_check.py $f > ${TMPDIR:-/tmp}/rf/$a-$k.log 2>&1; echo "rf-$a-$k: $(tail -1 ${TMPDIR:-/tmp}/rf/$a-$k.log | sed 's/.*result: //')"; done; done
