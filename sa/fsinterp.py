"""R-FS: abstract interpretation of file-system writers and readers over a
three-valued abstract directory (absent / partial(v) / complete(v)).

The *model is extracted from the source on every run*: the interpreter walks
the statements of the writer / reader functions, recognises the file
operations the repository uses, and executes them on the abstract directory.
Everything it does not recognise that could touch a file is an AnalysisError
(exit 2), never a silent pass.  No repository code is executed.
"""

from __future__ import annotations

import ast
import copy
from dataclasses import dataclass, field
from typing import Dict, List, Optional, Tuple

from . import AnalysisError
from .pm import dotted, src
from .q import call_name, walk_no_nested

ABSENT = ("absent",)

# exception classes and their ancestors (only what handlers in the repo name)
EXC_PARENTS = {
    "FileNotFoundError": ["OSError", "Exception", "BaseException"],
    "EOFError": ["Exception", "BaseException"],
    "UnpicklingError": ["PickleError", "Exception", "BaseException"],
    "RuntimeError": ["Exception", "BaseException"],
    "ValueError": ["Exception", "BaseException"],
    "OSError": ["Exception", "BaseException"],
    "Exception": ["BaseException"],
}
# what loading a partially written file can raise (torch.load / pickle.load;
# confirmed once on the pinned torch over every prefix length of a state
# dict: 0 bytes -> EOFError, 1 byte -> UnpicklingError, longer prefixes ->
# RuntimeError or OSError(EINVAL))
PARTIAL_LOAD_ERRORS = ["EOFError", "UnpicklingError", "RuntimeError", "OSError"]
# pickle.load of a truncated pickle stream (a prefix of a valid sampler pickle; checked over every prefix length of a
# real checkpoint): EOFError ("Ran out of input") or UnpicklingError ("pickle data was truncated") only
PICKLE_PARTIAL_LOAD_ERRORS = ["EOFError", "UnpicklingError"]

MOVE_CALLS = {"shutil.move", "os.replace", "os.rename"}
REMOVE_CALLS = {"os.remove", "os.unlink"}
COPY_CALLS = {"shutil.copy", "shutil.copy2", "shutil.copyfile"}
SAVE_CALLS = {"torch.save", "np.save", "numpy.save"}
LOAD_CALLS = {"torch.load", "np.load", "numpy.load"}
IGNORED_FS = {"os.makedirs", "os.path.join", "os.path.dirname", "os.path.basename", "os.getcwd", "os.path.abspath", "os.path.isdir"}


@dataclass
class Path:
    name: str

    def __add__(self, s):
        return Path(self.name + s)


class Unknown:
    def __repr__(self):
        return "?"


UNKNOWN = Unknown()


@dataclass
class State:
    fs: Dict[str, tuple]
    env: Dict[str, object]
    steps: int = 0
    crash_at: Optional[int] = None
    loaded: List[Tuple[str, object]] = field(default_factory=list)
    trace: List[str] = field(default_factory=list)
    new_version: object = "new"

    def clone(self):
        s = State(dict(self.fs), dict(self.env), self.steps, self.crash_at, list(self.loaded), list(self.trace), self.new_version)
        return s

    def get(self, p: str):
        return self.fs.get(p, ABSENT)


class Crash(Exception):
    def __init__(self, state):
        self.state = state


class Interp:
    """Interprets one function; `summaries` maps resolved callee quals to a
    python callable(interp, state, argvalues, kwvalues) -> outcomes for calls
    that matter (loaders / nested readers)."""

    def __init__(self, prog, resolver, fi, primitives=None):
        self.prog = prog
        self.res = resolver
        self.fi = fi
        self.primitives = primitives or {}
        self.ops_seen: List[str] = []

    # ---- values ------------------------------------------------------
    def value(self, e, st: State):
        if isinstance(e, ast.Constant):
            return e.value
        if isinstance(e, ast.Name):
            return st.env.get(e.id, UNKNOWN)
        if isinstance(e, ast.Attribute):
            d = src(e)
            return st.env.get(d, UNKNOWN)
        if isinstance(e, ast.BinOp) and isinstance(e.op, ast.Add):
            l, r = self.value(e.left, st), self.value(e.right, st)
            if isinstance(l, Path) and isinstance(r, str):
                return l + r
            return UNKNOWN
        if isinstance(e, ast.JoinedStr):
            return UNKNOWN
        if isinstance(e, ast.Call):
            n = call_name(e)
            if n == "os.path.join":
                vals = [self.value(a, st) for a in e.args]
                # directory components are dropped: one abstract directory
                last = vals[-1] if vals else UNKNOWN
                if isinstance(last, Path):
                    return last
                if isinstance(last, str) and last:
                    return Path(last)
                return UNKNOWN
            if n == "os.path.exists" and len(e.args) == 1:
                p = self.value(e.args[0], st)
                if isinstance(p, Path):
                    return st.get(p.name) != ABSENT
                return UNKNOWN
        if isinstance(e, ast.BoolOp):
            vals = [self.value(v, st) for v in e.values]
            if isinstance(e.op, ast.And):
                if any(v is False or v is None for v in vals):
                    return False
                if all(isinstance(v, bool) or isinstance(v, Path) for v in vals):
                    return vals[-1]
            if isinstance(e.op, ast.Or):
                for v in vals:
                    if isinstance(v, Unknown):
                        return UNKNOWN
                    if v:
                        return v
                return vals[-1]
            return UNKNOWN
        if isinstance(e, ast.UnaryOp) and isinstance(e.op, ast.Not):
            v = self.value(e.operand, st)
            if isinstance(v, Unknown):
                return UNKNOWN
            return not v
        if isinstance(e, ast.Compare) and len(e.ops) == 1:
            l, r = self.value(e.left, st), self.value(e.comparators[0], st)
            if isinstance(l, Unknown) or isinstance(r, Unknown):
                return UNKNOWN
            op = e.ops[0]
            if isinstance(op, ast.Is):
                return l is r if (l is None or r is None) else UNKNOWN
            if isinstance(op, ast.IsNot):
                return (l is not r) if (l is None or r is None) else UNKNOWN
            if isinstance(op, ast.Eq):
                return l == r
            if isinstance(op, ast.NotEq):
                return l != r
        return UNKNOWN

    # ---- mutation steps ----------------------------------------------
    def step(self, st: State, desc: str):
        if st.crash_at is not None and st.steps == st.crash_at:
            st.trace.append(f"CRASH before {desc}")
            raise Crash(st)
        st.steps += 1
        st.trace.append(desc)

    # ---- statements ----------------------------------------------------
    def run(self, st: State):
        """outcomes: list of (state, signal) ; signal None | ('raise', exc) | ('return', v) | ('crash',)"""
        return self.block(self.fi.node.body, st)

    def block(self, stmts, st):
        outs = [(st, None)]
        for s in stmts:
            nxt = []
            for (s0, sig) in outs:
                if sig is not None:
                    nxt.append((s0, sig))
                else:
                    nxt.extend(self.stmt(s, s0))
            outs = nxt
        return outs

    def stmt(self, s, st):
        try:
            return self._stmt(s, st)
        except Crash as c:
            return [(c.state, ("crash",))]

    def _stmt(self, s, st):
        if isinstance(s, ast.Expr):
            if isinstance(s.value, ast.Constant):
                return [(st, None)]
            return self.expr_effects(s.value, st)
        if isinstance(s, (ast.Assign, ast.AnnAssign)):
            value = s.value
            targets = s.targets if isinstance(s, ast.Assign) else [s.target]
            outs = self.expr_effects(value, st) if value is not None else [(st, None)]
            res = []
            for s1, sig in outs:
                if sig is None:
                    v = self.value(value, s1) if value is not None else UNKNOWN
                    for t in targets:
                        if isinstance(t, ast.Name):
                            s1.env[t.id] = v
                        elif isinstance(t, ast.Attribute):
                            s1.env[src(t)] = v
                res.append((s1, sig))
            return res
        if isinstance(s, ast.AugAssign):
            if isinstance(s.op, ast.Add) and isinstance(s.target, (ast.Name, ast.Attribute)):
                k = s.target.id if isinstance(s.target, ast.Name) else src(s.target)
                cur = st.env.get(k, UNKNOWN)
                v = self.value(s.value, st)
                st.env[k] = cur + v if isinstance(cur, Path) and isinstance(v, str) else UNKNOWN
            return [(st, None)]
        if isinstance(s, ast.If):
            outs = self.expr_effects(s.test, st)
            res = []
            for s1, sig in outs:
                if sig is not None:
                    res.append((s1, sig))
                    continue
                v = self.value(s.test, s1)
                if isinstance(v, Unknown):
                    if self._touches_fs(s):
                        # undetermined, FS-relevant branch: explore both
                        res += self.block(s.body, s1.clone())
                        res += self.block(s.orelse, s1.clone())
                    else:
                        res.append((s1, None))
                elif v:
                    res += self.block(s.body, s1)
                else:
                    res += self.block(s.orelse, s1)
            return res
        if isinstance(s, ast.With):
            return self.with_stmt(s, st)
        if isinstance(s, ast.Try):
            return self.try_stmt(s, st)
        if isinstance(s, ast.Return):
            outs = self.expr_effects(s.value, st) if s.value is not None else [(st, None)]
            return [(s1, sig if sig is not None else ("return", None)) for s1, sig in outs]
        if isinstance(s, ast.Raise):
            exc = st.env.get("__exc__", "Exception")
            if s.exc is not None:
                e = s.exc.func if isinstance(s.exc, ast.Call) else s.exc
                exc = (dotted(e) or "Exception").split(".")[-1]
            return [(st, ("raise", exc))]
        if isinstance(s, (ast.Pass, ast.Import, ast.ImportFrom, ast.Global, ast.Assert, ast.Delete)):
            return [(st, None)]
        if isinstance(s, (ast.For, ast.While)):
            if self._touches_fs(s):
                raise AnalysisError(f"{self.fi.qual}: file operation inside a loop is outside the R-FS fragment: `{src(s)[:80]}`")
            return [(st, None)]
        if isinstance(s, (ast.FunctionDef, ast.ClassDef)):
            return [(st, None)]
        raise AnalysisError(f"{self.fi.qual}: statement kind {type(s).__name__} not supported by R-FS")

    def _touches_fs(self, node) -> bool:
        for n in ast.walk(node):
            if isinstance(n, ast.Call) and self.is_fs_call(n):
                return True
        return False

    def is_fs_call(self, c: ast.Call) -> bool:
        n = call_name(c) or ""
        if n in MOVE_CALLS | REMOVE_CALLS | COPY_CALLS | SAVE_CALLS | LOAD_CALLS or n in ("open", "os.path.exists"):
            return True
        if n.endswith(".dump") or n.endswith(".load"):
            return True
        return self.primitive_for(c) is not None

    def primitive_for(self, c: ast.Call):
        for matcher, fn in self.primitives.items():
            if matcher(self, c):
                return fn
        return None

    # ---- expressions with effects ---------------------------------------
    def expr_effects(self, e, st):
        """Execute the FS-relevant calls inside expression e (left-to-right, inner first)."""
        outs = [(st, None)]
        calls = [n for n in _calls_postorder(e)]
        for c in calls:
            nxt = []
            for s1, sig in outs:
                if sig is not None:
                    nxt.append((s1, sig))
                else:
                    try:
                        nxt += self.call(c, s1)
                    except Crash as cr:
                        nxt.append((cr.state, ("crash",)))
            outs = nxt
        return outs

    def call(self, c: ast.Call, st: State):
        n = call_name(c) or ""
        prim = self.primitive_for(c)
        if prim is not None:
            return prim(self, c, st)
        if n in MOVE_CALLS:
            a, b = self.value(c.args[0], st), self.value(c.args[1], st)
            if not (isinstance(a, Path) and isinstance(b, Path)):
                raise AnalysisError(f"{self.fi.qual}: cannot resolve paths of `{src(c)}`")
            self.ops_seen.append(f"RENAME({a.name},{b.name})")
            if st.get(a.name) == ABSENT:
                return [(st, ("raise", "FileNotFoundError"))]
            self.step(st, f"RENAME({a.name}->{b.name})")
            st.fs[b.name] = st.get(a.name)
            st.fs[a.name] = ABSENT
            return [(st, None)]
        if n in REMOVE_CALLS:
            a = self.value(c.args[0], st)
            if not isinstance(a, Path):
                raise AnalysisError(f"{self.fi.qual}: cannot resolve path of `{src(c)}`")
            self.step(st, f"REMOVE({a.name})")
            st.fs[a.name] = ABSENT
            return [(st, None)]
        if n in COPY_CALLS:
            raise AnalysisError(f"{self.fi.qual}: copy primitive `{src(c)}` is outside the R-FS fragment")
        if n in SAVE_CALLS:
            a = self.value(c.args[1] if n == "torch.save" else c.args[0], st)
            if not isinstance(a, Path):
                raise AnalysisError(f"{self.fi.qual}: cannot resolve path of `{src(c)}`")
            self.ops_seen.append(f"WRITE-IN-PLACE({a.name})")
            self.step(st, f"CREATE({a.name})")
            st.fs[a.name] = ("partial", st.new_version)
            self.step(st, f"WRITE+CLOSE({a.name})")
            st.fs[a.name] = ("complete", st.new_version)
            return [(st, None)]
        if n in LOAD_CALLS:
            a = self.value(c.args[0], st)
            return self.load(a, st, src(c))
        if n == "open":
            raise AnalysisError(f"{self.fi.qual}: bare open() outside a with-statement is outside the R-FS fragment: `{src(c)}`")
        return [(st, None)]

    def load(self, a, st, what, errors=None):
        if not isinstance(a, Path):
            raise AnalysisError(f"{self.fi.qual}: cannot resolve path of `{what}`")
        self.ops_seen.append(f"LOAD({a.name})")
        cur = st.get(a.name)
        if cur == ABSENT:
            st.trace.append(f"LOAD({a.name}): absent")
            return [(st, ("raise", "FileNotFoundError"))]
        if cur[0] == "partial":
            outs = []
            for exc in (errors or PARTIAL_LOAD_ERRORS):
                s1 = st.clone()
                s1.trace.append(f"LOAD({a.name}): partial -> {exc}")
                outs.append((s1, ("raise", exc)))
            return outs
        st.loaded.append((a.name, cur[1]))
        st.trace.append(f"LOAD({a.name}): complete {cur[1]}")
        return [(st, None)]

    def with_stmt(self, s: ast.With, st: State):
        if len(s.items) != 1:
            if self._touches_fs(s):
                raise AnalysisError("multi-item with statement touching files")
            return self.block(s.body, st)
        it = s.items[0]
        ce = it.context_expr
        if isinstance(ce, ast.Call) and call_name(ce) == "open":
            p = self.value(ce.args[0], st)
            mode = "r"
            if len(ce.args) > 1 and isinstance(ce.args[1], ast.Constant):
                mode = ce.args[1].value
            for k in ce.keywords:
                if k.arg == "mode" and isinstance(k.value, ast.Constant):
                    mode = k.value.value
            if not isinstance(p, Path):
                # a file unrelated to the tracked names
                return [(st, None)] if not any(x in mode for x in "wax") else self._untracked_write(s, st)
            fvar = it.optional_vars.id if isinstance(it.optional_vars, ast.Name) else None
            if any(x in mode for x in "wa+x"):
                self.ops_seen.append(f"CREATE({p.name}) .. CLOSE")
                self.step(st, f"CREATE({p.name})")
                st.fs[p.name] = ("partial", st.new_version)
                # body: dumps into the handle do not complete the file; any other
                # file operation in the body runs while the handle is still open
                # (its content is partial until the with-block closes it)
                def is_dump(b):
                    if not (isinstance(b, ast.Expr) and isinstance(b.value, ast.Call)):
                        return False
                    n = b.value
                    nm = call_name(n) or ""
                    return nm.endswith(".dump") and len(n.args) >= 2 and isinstance(n.args[1], ast.Name) and n.args[1].id == fvar

                for b in s.body:
                    for n in ast.walk(b):
                        if isinstance(n, ast.Call) and (call_name(n) or "").endswith((".dump", ".write")) and not is_dump(b):
                            raise AnalysisError(f"{self.fi.qual}: unsupported write inside a write-with: `{src(n)}`")
                marker = f"open:{p.name}"
                st.fs[p.name] = ("partial", st.new_version, marker)
                rest = [b for b in s.body if not is_dump(b)]
                outs = self.block(rest, st) if rest else [(st, None)]
                res = []
                for s1, sig in outs:
                    if sig is None or sig[0] in ("return", "break", "continue"):
                        self.step(s1, f"WRITE+CLOSE({p.name})")
                        for k, v in list(s1.fs.items()):
                            if len(v) == 3 and v[2] == marker:
                                s1.fs[k] = ("complete", v[1])
                    res.append((s1, sig))
                return res
            # read mode: a load of the handle inside the body is a LOAD of the path
            loads = [n for b in s.body for n in ast.walk(b) if isinstance(n, ast.Call) and (call_name(n) or "").endswith(".load") and n.args and isinstance(n.args[0], ast.Name) and n.args[0].id == fvar]
            cur = st.get(p.name)
            if cur == ABSENT:
                self.ops_seen.append(f"LOAD({p.name})")
                st.trace.append(f"open({p.name}): absent")
                return [(st, ("raise", "FileNotFoundError"))]
            if not loads:
                return self.block(s.body, st)
            only_pickle = all((call_name(n) or "") in ("pickle.load", "dill.load") for n in loads)
            outs = self.load(p, st, f"load via open({p.name})", errors=PICKLE_PARTIAL_LOAD_ERRORS if only_pickle else None)
            res = []
            for s1, sig in outs:
                if sig is None:
                    rest = [b for b in s.body]
                    # execute the body without re-running the load
                    res += [(s1, None)]
                else:
                    res.append((s1, sig))
            return res
        if self._touches_fs(ce):
            raise AnalysisError(f"{self.fi.qual}: unsupported context manager touching files: `{src(ce)}`")
        return self.block(s.body, st)

    def _untracked_write(self, s, st):
        return [(st, None)]

    def try_stmt(self, s: ast.Try, st: State):
        outs = self.block(s.body, st)
        res = []
        for s1, sig in outs:
            if sig is not None and sig[0] == "raise":
                handled = False
                for h in s.handlers:
                    if _handler_matches(h, sig[1]):
                        handled = True
                        if h.name:
                            s1.env[h.name] = UNKNOWN
                        s1.env["__exc__"] = sig[1]
                        s1.trace.append(f"caught {sig[1]} by `except {src(h.type) if h.type is not None else ''}`")
                        res += self.block(h.body, s1)
                        break
                if not handled:
                    res.append((s1, sig))
            elif sig is None:
                res += self.block(s.orelse, s1)
            else:
                res.append((s1, sig))
        if s.finalbody:
            fin = []
            for s1, sig in res:
                if sig is not None and sig[0] == "crash":
                    fin.append((s1, sig))
                    continue
                for s2, sig2 in self.block(s.finalbody, s1):
                    fin.append((s2, sig2 if sig2 is not None else sig))
            res = fin
        return res


def _calls_postorder(e):
    out = []

    def rec(n):
        for ch in ast.iter_child_nodes(n):
            if isinstance(ch, (ast.Lambda, ast.ListComp, ast.GeneratorExp, ast.DictComp, ast.SetComp)):
                continue
            rec(ch)
        if isinstance(n, ast.Call):
            out.append(n)

    if e is not None:
        rec(e)
    return out


def _handler_matches(h: ast.ExceptHandler, exc: str) -> bool:
    if h.type is None:
        return True
    names = []
    t = h.type
    elts = t.elts if isinstance(t, ast.Tuple) else [t]
    for x in elts:
        d = dotted(x)
        if d:
            names.append(d.split(".")[-1])
    family = [exc] + EXC_PARENTS.get(exc, ["Exception", "BaseException"])
    return any(n in family for n in names)


def handler_names(h: ast.ExceptHandler) -> List[str]:
    if h.type is None:
        return ["<bare>"]
    t = h.type
    elts = t.elts if isinstance(t, ast.Tuple) else [t]
    return [(dotted(x) or src(x)).split(".")[-1] for x in elts]


def run_writer(interp: Interp, fs0: Dict[str, tuple], env: Dict[str, object], new_version="new"):
    """All crash states of one writer run: list of (crash_point_index, description, fs, trace).
    The last entry is the completed run."""
    # full run to learn the number of steps
    st = State(dict(fs0), dict(env), new_version=new_version)
    outs = interp.run(st)
    ok = [o for o in outs if o[1] is None or o[1][0] == "return"]
    if len(outs) != 1 or not ok:
        raise AnalysisError(f"{interp.fi.qual}: writer has {len(outs)} outcomes / raises on the abstract directory {fs0}: {[o[1] for o in outs]}")
    total = outs[0][0].steps
    results = []
    for k in range(total):
        st = State(dict(fs0), dict(env), crash_at=k, new_version=new_version)
        o = interp.run(st)
        if len(o) != 1 or o[0][1] != ("crash",):
            raise AnalysisError(f"{interp.fi.qual}: crash point {k} did not produce a single crash outcome")
        results.append((k, o[0][0].trace[-1], o[0][0].fs, o[0][0].trace))
    results.append((total, "after the last operation", outs[0][0].fs, outs[0][0].trace))
    return results
