"""R-DEG: shift-degree typing.  A value has degree d if adding a constant c to
every log-likelihood moves it by d*c.  Degrees are inferred by abstract
interpretation of expressions (no path conditions); fields carry declared
degrees that every store must respect; `exp`/`log`/`log1p` demand degree 0
(an `exp` of a degree != 0 value is an absolute-scale exponential: the
overflow the property forbids)."""

import ast
from fractions import Fraction

from .pm import dotted, src
from .q import call_name

TOP = "TOP"  # not shift-equivariant / unknown
POLY = "POLY"  # fixed point of the shift (+-inf) or empty: compatible with any degree

ELEMENTWISE_SAME = {"array", "asarray", "cumsum", "copy", "sort", "concatenate", "append", "flip", "atleast_1d", "squeeze", "ravel", "float", "max", "min", "amax", "amin", "nanmax", "nanmin", "logsumexp", "median", "mean"}
DEG0_RESULT = {"ones_like", "zeros_like", "zeros", "ones", "arange", "empty", "len", "isfinite", "isnan", "any", "all", "size", "int", "range", "linspace", "full", "sqrt_n"}
NEEDS0 = {"exp", "log", "log1p", "log2", "expm1", "sqrt"}


def join(a, b):
    if a == POLY:
        return b
    if b == POLY:
        return a
    if a == TOP or b == TOP:
        return TOP
    return a if a == b else TOP


class DegChecker:
    def __init__(self, fields, list_fields, report, helpers=None):
        """fields: {'self.logZ': 1, ...}; report(node, message)."""
        self.fields = {k: (Fraction(v) if isinstance(v, int) else v) for k, v in fields.items()}
        self.list_fields = set(list_fields)
        self.report = report
        self.helpers = helpers or {}  # name -> FunctionInfo analysed with actual argument degrees
        self.n_exprs = 0
        self._memo = {}
        self.node_deg = {}

    # ---- expressions -------------------------------------------------
    def deg(self, e, env):
        d = self._deg(e, env)
        if isinstance(e, ast.AST):
            self.node_deg[id(e)] = d  # degree at the expression's own program point
        return d

    def _deg(self, e, env):
        self.n_exprs += 1
        if e is None:
            return POLY
        if isinstance(e, ast.Constant):
            return Fraction(0) if isinstance(e.value, (int, float)) and not isinstance(e.value, bool) else (Fraction(0) if isinstance(e.value, (bool, str)) or e.value is None else TOP)
        if isinstance(e, ast.Name):
            return env.get(e.id, TOP)
        if isinstance(e, ast.Attribute):
            d = src(e)
            if d in ("np.inf", "numpy.inf", "math.inf", "np.nan"):
                return POLY
            if d in self.fields:
                return self.fields[d]
            if d in env:
                return env[d]
            if e.attr in ("size", "shape", "ndim"):
                return Fraction(0)
            return TOP
        if isinstance(e, ast.UnaryOp):
            d = self.deg(e.operand, env)
            if isinstance(e.op, ast.USub):
                return d if d in (TOP, POLY) else -d
            if isinstance(e.op, ast.Not):
                return Fraction(0)
            return d
        if isinstance(e, ast.Subscript):
            return self.deg(e.value, env)
        if isinstance(e, (ast.List, ast.Tuple)):
            d = POLY
            for x in e.elts:
                d = join(d, self.deg(x, env))
            return d
        if isinstance(e, ast.Compare):
            ds = [self.deg(e.left, env)] + [self.deg(c, env) for c in e.comparators]
            u = POLY
            for d in ds:
                u = join(u, d)
            if u == TOP and all(d != TOP for d in ds):
                self.report(e, f"comparison of values with different shift degrees {[str(d) for d in ds]}: `{src(e)}` changes under a likelihood offset")
            return Fraction(0)
        if isinstance(e, ast.BoolOp):
            for v in e.values:
                self.deg(v, env)
            return Fraction(0)
        if isinstance(e, ast.IfExp):
            self.deg(e.test, env)
            return join(self.deg(e.body, env), self.deg(e.orelse, env))
        if isinstance(e, ast.BinOp):
            if isinstance(e.op, ast.Add) and (self._is_list(e.left, env) or self._is_list(e.right, env)):
                return join(self.deg(e.left, env), self.deg(e.right, env))  # list concatenation
            l, r = self.deg(e.left, env), self.deg(e.right, env)
            if isinstance(e.op, (ast.Add, ast.Sub)):
                if l == TOP or r == TOP:
                    return TOP
                if l == POLY or r == POLY:
                    return POLY if (l == POLY and r == POLY) else (l if r == POLY else (r if isinstance(e.op, ast.Add) else -r))
                return l + r if isinstance(e.op, ast.Add) else l - r
            if isinstance(e.op, (ast.Mult, ast.Div, ast.Pow, ast.FloorDiv, ast.Mod)):
                if l == Fraction(0) and r == Fraction(0):
                    return Fraction(0)
                c = _numeric_const(e.right)
                if c is not None and l not in (TOP, POLY) and isinstance(e.op, (ast.Mult, ast.Div)):
                    return l * c if isinstance(e.op, ast.Mult) else l / c
                c = _numeric_const(e.left)
                if c is not None and r not in (TOP, POLY) and isinstance(e.op, ast.Mult):
                    return r * c
                if l == POLY and r == POLY:
                    return POLY
                return TOP
            return TOP
        if isinstance(e, ast.Call) and isinstance(e.func, ast.Name) and e.func.id == "getattr" and len(e.args) in (2, 3) and isinstance(e.args[0], ast.Name) and isinstance(e.args[1], ast.Constant) and isinstance(e.args[1].value, str):
            # getattr(self, "x", default): the field (a private cache that only ever holds what this code stored into
            # it is degree-polymorphic until a store fixes it) joined with the default
            k = f"{e.args[0].id}.{e.args[1].value}"
            d = self.fields.get(k, env.get(k, POLY))
            return join(d, self.deg(e.args[2], env)) if len(e.args) == 3 else d
        if isinstance(e, ast.Call):
            return self.call(e, env)
        if isinstance(e, (ast.ListComp, ast.GeneratorExp)):
            return TOP
        if isinstance(e, ast.JoinedStr):
            return Fraction(0)
        return TOP

    def _is_list(self, e, env):
        if isinstance(e, ast.List):
            return True
        return src(e) in self.list_fields

    def call(self, e, env):
        name = call_name(e) or ""
        short = name.split(".")[-1]
        from .q import norm_args as _norm_args

        pos_args = _norm_args(e)
        n_moved = len(pos_args) - len(e.args)
        args = [self.deg(a, env) for a in pos_args]
        moved_kw = {id(a) for a in pos_args[len(e.args):]}
        is_method = isinstance(e.func, ast.Attribute) and not (isinstance(e.func.value, ast.Name) and e.func.value.id in ("np", "numpy", "math", "torch", "scipy", "special", "rfn"))
        if is_method and e.func.attr in ("copy", "lower", "flatten", "ravel", "squeeze", "sum", "cumsum", "max", "min", "mean", "astype", "view", "tolist"):
            return self.deg(e.func.value, env)
        for k in e.keywords:
            if k.arg not in ("dtype",) and id(k.value) not in moved_kw:
                self.deg(k.value, env)
        if short in NEEDS0 and name.split(".")[0] in ("np", "numpy", "math", "torch"):
            d = args[0] if args else POLY
            if d not in (Fraction(0), POLY):
                if short == "exp":
                    self.report(e, f"absolute-scale exponential: `{src(e)}` exponentiates a value of shift degree {d} (overflows/underflows for large likelihood offsets)")
                else:
                    self.report(e, f"`{src(e)}` applies {short} to a value of shift degree {d}: result is not shift-equivariant")
                return TOP
            return Fraction(0)
        if short in ("reciprocal", "negative", "abs", "absolute") and name.split(".")[0] in ("np", "numpy"):
            # 1/x, -x, |x| of a shift-invariant quantity are shift-invariant; of anything else the result has no degree
            d = args[0] if args else POLY
            if short in ("negative",):
                return d if d in (POLY, TOP) else -d
            return d if d in (Fraction(0), POLY) else TOP
        if short in ("logaddexp",):
            d = join(args[0], args[1]) if len(args) == 2 else TOP
            if d == TOP and TOP not in args:
                self.report(e, f"`{src(e)}` combines values of different shift degrees {[str(a) for a in args]}")
            return d
        if short in ("append",) or (short == "concatenate" and e.args and isinstance(e.args[0], (ast.List, ast.Tuple))):
            # joins: every piece has the degree of the whole
            pieces = [self.deg(x, env) for x in e.args[0].elts] if short == "concatenate" else list(args[:2])
            d = POLY
            for x in pieces:
                d = join(d, x)
            return d
        if short in ELEMENTWISE_SAME:
            return args[0] if args else POLY
        if short in DEG0_RESULT:
            return Fraction(0)
        if short == "abs":
            return args[0] if args and args[0] in (TOP, POLY, Fraction(0)) else TOP
        if name in self.helpers:
            return self.helper(name, args, e)
        if isinstance(e.func, ast.Attribute) and e.func.attr in ("copy", "lower", "flatten", "ravel", "squeeze"):
            return self.deg(e.func.value, env)
        if isinstance(e.func, ast.Attribute) and e.func.attr in ("sum", "cumsum", "max", "min", "mean"):
            return self.deg(e.func.value, env)
        return TOP

    def helper(self, name, args, call):
        key = (name, tuple(str(a) for a in args))
        if key in self._memo:
            return self._memo[key]
        self._memo[key] = TOP
        f = self.helpers[name]
        params = f.params()
        env = {p: (args[i] if i < len(args) else TOP) for i, p in enumerate(params)}
        r = self.function(f.node, env)
        self._memo[key] = r
        return r

    # ---- statements ----------------------------------------------------
    def function(self, fnode, env):
        """Analyse a function body; returns the join of its return degrees."""
        saved = getattr(self, "_ret", POLY)
        self._ret = POLY
        self._ret_tuple = None
        self.block(fnode.body, env)
        r = self._ret
        self._ret = saved
        return r

    def block(self, stmts, env):
        for s in stmts:
            self.stmt(s, env)

    def store(self, target, d, env, node):
        if isinstance(target, ast.Name):
            env[target.id] = d
        elif isinstance(target, ast.Attribute):
            k = src(target)
            if k in self.fields:
                want = self.fields[k]
                if want != TOP and join(want, d) != want:
                    self.report(node, f"`{src(node)[:100]}` stores a value of shift degree {d} into `{k}` (declared degree {want})")
            else:
                env[k] = d
        elif isinstance(target, ast.Subscript):
            base = target.value
            k = src(base)
            cur = self.fields.get(k, env.get(k, POLY))
            if cur != TOP and join(cur, d) != cur and cur != POLY:
                self.report(node, f"`{src(node)[:100]}` writes a value of shift degree {d} into `{k}` (degree {cur})")
            if k not in self.fields and isinstance(base, ast.Name):
                env[k] = join(cur, d)
        elif isinstance(target, (ast.Tuple, ast.List)):
            for t in target.elts:
                self.store(t, d, env, node)

    def stmt(self, s, env):
        if isinstance(s, ast.Assign):
            d = self.deg(s.value, env)
            for t in s.targets:
                self.store(t, d, env, s)
        elif isinstance(s, ast.AugAssign):
            cur = self.deg(s.target, env)
            v = self.deg(s.value, env)
            if isinstance(s.op, (ast.Add, ast.Sub)):
                if cur in (TOP,) or v == TOP:
                    d = TOP
                elif cur == POLY or v == POLY:
                    d = cur if v == POLY else v
                else:
                    d = cur + v if isinstance(s.op, ast.Add) else cur - v
            elif isinstance(s.op, (ast.Mult, ast.Div)) and cur == Fraction(0) and v == Fraction(0):
                d = Fraction(0)
            elif isinstance(s.op, ast.Div) and cur == POLY:
                d = POLY
            else:
                d = TOP
            self.store(s.target, d, env, s)
        elif isinstance(s, ast.Expr):
            v = s.value
            if isinstance(v, ast.Call) and isinstance(v.func, ast.Attribute) and v.func.attr in ("append", "extend") and v.args:
                k = src(v.func.value)
                d = self.deg(v.args[0], env)
                if k in self.fields:
                    want = self.fields[k]
                    if want != TOP and join(want, d) != want:
                        self.report(s, f"`{src(s)[:100]}` appends a value of shift degree {d} to `{k}` (declared degree {want})")
                else:
                    env[k] = join(env.get(k, POLY), d)
            else:
                self.deg(v, env)
        elif isinstance(s, ast.Return) and isinstance(s.value, ast.Tuple):
            self._ret_tuple = [self.deg(x, env) for x in s.value.elts]
        elif isinstance(s, ast.Return):
            self._ret = join(self._ret, self.deg(s.value, env)) if s.value is not None else self._ret
        elif isinstance(s, ast.If) and _is_none_test(s.test, env) is not None:
            # a value that carries a shift degree is not None: only one branch is live
            self.block(s.orelse if _is_none_test(s.test, env) else s.body, env)
        elif isinstance(s, ast.If):
            self.deg(s.test, env)
            e1, e2 = dict(env), dict(env)
            self.block(s.body, e1)
            self.block(s.orelse, e2)
            t1 = bool(s.body) and isinstance(s.body[-1], (ast.Raise, ast.Return))
            t2 = bool(s.orelse) and isinstance(s.orelse[-1], (ast.Raise, ast.Return))
            for k in set(e1) | set(e2):
                if t1 and not t2:
                    env[k] = e2.get(k, env.get(k, TOP))
                elif t2 and not t1:
                    env[k] = e1.get(k, env.get(k, TOP))
                elif k in e1 and k in e2:
                    env[k] = join(e1[k], e2[k])
                else:
                    env[k] = e1.get(k, e2.get(k))
        elif isinstance(s, (ast.For, ast.While)):
            if isinstance(s, ast.For):
                self.store(s.target, self.deg(s.iter, env), env, s)
            else:
                self.deg(s.test, env)
            self.block(s.body, env)
            self.block(s.orelse, env)
        elif isinstance(s, ast.With):
            self.block(s.body, env)
        elif isinstance(s, ast.Try):
            self.block(s.body, env)
            for h in s.handlers:
                self.block(h.body, env)
            self.block(s.orelse, env)
            self.block(s.finalbody, env)
        elif isinstance(s, (ast.Raise, ast.Pass, ast.Assert, ast.Import, ast.ImportFrom, ast.FunctionDef, ast.Delete, ast.Global, ast.Break, ast.Continue)):
            pass


def _is_none_test(test, env):
    """`x is None` -> True / `x is not None` -> False when x is a typed (non-None) value, else None."""
    if isinstance(test, ast.Compare) and len(test.ops) == 1 and isinstance(test.left, ast.Name) and isinstance(test.comparators[0], ast.Constant) and test.comparators[0].value is None:
        d = env.get(test.left.id)
        if d is not None and d not in (TOP, POLY) and d != 0:
            if isinstance(test.ops[0], ast.Is):
                return True
            if isinstance(test.ops[0], ast.IsNot):
                return False
    return None


def _numeric_const(e):
    if isinstance(e, ast.Constant) and isinstance(e.value, (int, float)) and not isinstance(e.value, bool):
        return Fraction(e.value)
    if isinstance(e, ast.UnaryOp) and isinstance(e.op, ast.USub):
        c = _numeric_const(e.operand)
        return -c if c is not None else None
    return None
