"""R-PROV: symbolic expansion of property chains to canonical access paths
under a finite configuration (truth values of a few predicates), so that two
API routes to "the evidence" / "the samples" can be compared for identity."""

import ast

from . import AnalysisError
from .pm import src


class Prov:
    def __init__(self, prog, resolver, cls, config):
        self.prog = prog
        self.res = resolver
        self.cls = cls
        self.config = config  # {predicate-name: bool}
        self.predicates = {}  # canonical test text -> config key
        self.depth = 0

    def add_predicate(self, text, key):
        self.predicates[text] = key

    # -- truth of a test on the sampler ----------------------------------
    def truth(self, test, fn, base, c):
        t = src(test)
        if isinstance(test, ast.UnaryOp) and isinstance(test.op, ast.Not):
            return not self.truth(test.operand, fn, base, c)
        if isinstance(test, ast.BoolOp):
            vals = [self.truth(v, fn, base, c) for v in test.values]
            return all(vals) if isinstance(test.op, ast.And) else any(vals)
        if base == "self" and t in self.predicates:
            return self.config[self.predicates[t]]
        if base == "self" and isinstance(test, ast.Compare) and len(test.ops) == 1 and isinstance(test.ops[0], (ast.Is, ast.Eq)) and isinstance(test.comparators[0], ast.Constant) and test.comparators[0].value is None and src(test.left) + " is not None" in self.predicates:
            # the other spelling of a registered predicate (`x is None` == not `x is not None`)
            return not self.config[self.predicates[src(test.left) + " is not None"]]
        if isinstance(test, ast.Compare) and len(test.ops) == 1 and isinstance(test.comparators[0], ast.Constant) and test.comparators[0].value is None:
            v = self.eval(test.left, fn, base, c)
            return (v == "None") if isinstance(test.ops[0], ast.Is) else (v != "None")
        # truthiness of an expanded path
        v = self.eval(test, fn, base, c)
        if v == "None":
            return False
        if v.startswith("self") or v.startswith("from_unit") or v.startswith("array"):
            return True
        raise AnalysisError(f"R-PROV: cannot decide `{t}` in {fn.qual}")

    # -- expansion -----------------------------------------------------------
    def eval(self, e, fn, base="self", c=None):
        """Canonical path of expression e evaluated inside method fn of class c whose `self` is `base`."""
        c = c or self.cls
        self.depth += 1
        if self.depth > 60:
            raise AnalysisError("R-PROV: expansion too deep")
        try:
            return self._eval(e, fn, base, c)
        finally:
            self.depth -= 1

    def _eval(self, e, fn, base, c):
        if isinstance(e, ast.Constant):
            return "None" if e.value is None else repr(e.value)
        if isinstance(e, ast.Name):
            if e.id == "self":
                return base
            return e.id
        if isinstance(e, ast.Attribute):
            owner_cls = self._type(e.value, fn, c)
            b = self.eval(e.value, fn, base, c)
            if b == "None":
                return "None.%s" % e.attr
            if owner_cls is not None:
                alias = self._alias(owner_cls, e.attr)
                attr = alias or e.attr
                p = self.prog.find_method(owner_cls, attr)
                if p is not None and p.is_property and _is_tree(p.node.body):
                    return self.eval_property(p, b, owner_cls)
                return f"{b}.{attr}"
            return f"{b}.{e.attr}"
        if isinstance(e, ast.Call):
            f = e.func
            if isinstance(f, ast.Attribute) and f.attr == "from_unit_hypercube":
                a = self.eval(e.args[0], fn, base, c)
                return "None!from_unit(None)" if a == "None" else f"from_unit({a})"
            if isinstance(f, ast.Attribute) and src(f) in ("np.array", "numpy.array"):
                return f"array({self.eval(e.args[0], fn, base, c)})"
            if isinstance(f, ast.Attribute):
                owner_cls = self._type(f.value, fn, c)
                b = self.eval(f.value, fn, base, c)
                kws = []
                m = self.prog.find_method(owner_cls, f.attr) if owner_cls is not None else None
                defaults = {}
                if m is not None:
                    a = m.node.args
                    names = [x.arg for x in a.args]
                    for n, d in zip(names[len(names) - len(a.defaults):], a.defaults):
                        defaults[n] = src(d)
                for k in e.keywords:
                    if k.arg in defaults and defaults[k.arg] == src(k.value):
                        continue
                    kws.append(f"{k.arg}={src(k.value)}")
                args = [self.eval(x, fn, base, c) for x in e.args] + kws
                if f.attr in ("log", "exp", "sqrt", "abs") and src(f.value) in ("np", "numpy"):
                    return f"{f.attr}({', '.join(args)})"
                return f"{b}.{f.attr}({', '.join(args)})"
            return src(e)
        if isinstance(e, ast.Subscript):
            return f"{self.eval(e.value, fn, base, c)}[{src(e.slice)}]"
        if isinstance(e, ast.BinOp):
            op = {ast.Add: "+", ast.Sub: "-", ast.Mult: "*", ast.Div: "/"}.get(type(e.op), type(e.op).__name__)
            return f"({self.eval(e.left, fn, base, c)} {op} {self.eval(e.right, fn, base, c)})"
        if isinstance(e, ast.UnaryOp):
            return f"{type(e.op).__name__}({self.eval(e.operand, fn, base, c)})"
        if isinstance(e, ast.Tuple):
            return "(" + ", ".join(self.eval(x, fn, base, c) for x in e.elts) + ")"
        return src(e)

    def _alias(self, cls, attr):
        for k in self.prog.mro(cls):
            v = k.class_attrs.get(attr)
            if isinstance(v, ast.Name) and (v.id in k.methods or v.id in k.class_attrs):
                return v.id
        return None

    def _type(self, e, fn, c):
        if isinstance(e, ast.Name) and e.id == "self":
            return c
        # use a pseudo function context: resolver types are per FunctionInfo
        tys = self.res.expr_type(fn, e)
        if tys:
            return sorted(tys, key=lambda k: k.qual)[0]
        # `self.<property>` read inside a method inherited from a base class: the receiver's concrete class is known
        # (c), so the type is that of what the property of *that* class returns
        if isinstance(e, ast.Attribute) and isinstance(e.value, ast.Name) and e.value.id == "self" and c is not None and getattr(self, "_tdepth", 0) < 6:
            p = self.prog.find_method(c, self._alias(c, e.attr) or e.attr)
            if p is not None and p.is_property:
                self._tdepth = getattr(self, "_tdepth", 0) + 1
                try:
                    for r in ast.walk(p.node):
                        if isinstance(r, ast.Return) and r.value is not None:
                            t = self._type(r.value, p, c)
                            if t is not None:
                                return t
                finally:
                    self._tdepth -= 1
        return None

    def eval_property(self, p, base, cls):
        return self.eval_body(p.node.body, p, base, cls)

    def eval_body(self, stmts, fn, base, cls):
        for s in stmts:
            if isinstance(s, ast.Expr) and isinstance(s.value, ast.Constant):
                continue
            if isinstance(s, ast.Return):
                return "None" if s.value is None else self.eval(s.value, fn, base, cls)
            if isinstance(s, ast.If):
                t = self.truth(s.test, fn, base, cls)
                r = self.eval_body(s.body if t else s.orelse, fn, base, cls)
                if r is not None:
                    return r
                continue
            raise AnalysisError(f"R-PROV: statement `{src(s)[:60]}` in {fn.qual} is outside the property fragment")
        return None


def _is_tree(stmts):
    """Body made only of docstrings, if/else and returns (a decision tree over predicates)."""
    for s in stmts:
        if isinstance(s, ast.Expr) and isinstance(s.value, ast.Constant):
            continue
        if isinstance(s, ast.Return):
            continue
        if isinstance(s, ast.If) and _is_tree(s.body) and _is_tree(s.orelse):
            continue
        return False
    return True
