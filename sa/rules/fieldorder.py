"""R-FIELDS: structured arrays handed from a proposal pool to the live array
have the canonical field order (model.names, then the non-sampling fields).

numpy assigns between structured dtypes *by position*, so a pool whose fields
are in the proposal's internal (reparameterisation) order silently permutes
the coordinates of every point written into the live set.  The rule follows
the expression that produces a pool back to a canonical-order producer.
"""

import ast

from ..pm import src
from ..q import call_name, walk_no_nested
from ..resolve import resolver

CANON_FIELDS = ("self.model.names + config.livepoints.non_sampling_parameters",)


def canonical(prog, f, e, depth=0, seen=None):
    """(True/False, explanation): does expression e (in function f) denote an array in canonical field order?"""
    seen = seen or set()
    if depth > 6:
        return False, "too deep"
    res = resolver(prog)
    if isinstance(e, ast.Call):
        nm = call_name(e) or ""
        short = nm.split(".")[-1]
        if short == "new_point" and "model" in nm:
            return True, "model.new_point draws in model.names order"
        if short in ("numpy_array_to_live_points", "empty_structured_array", "parameters_to_live_point"):
            names = None
            if short == "empty_structured_array":
                names = next((k.value for k in e.keywords if k.arg == "names"), e.args[1] if len(e.args) > 1 else None)
            else:
                names = e.args[1] if len(e.args) > 1 else next((k.value for k in e.keywords if k.arg == "names"), None)
            ok = names is not None and src(names) == "self.model.names"
            return ok, f"{short}(..., {src(names)})"
        if short == "repack_fields" and e.args:
            return canonical(prog, f, e.args[0], depth + 1, seen)
        if short in ("drop_fields",) and e.args:
            ok, why = canonical(prog, f, e.args[0], depth + 1, seen)
            return ok, f"drop_fields keeps the field order of its input ({why})"
        if short in ("copy", "sort") and isinstance(e.func, ast.Attribute):
            return canonical(prog, f, e.func.value, depth + 1, seen)
        if short in ("concatenate",) and e.args and isinstance(e.args[0], (ast.List, ast.Tuple)):
            rs = [canonical(prog, f, x, depth + 1, seen) for x in e.args[0].elts]
            return all(r[0] for r in rs), "; ".join(r[1] for r in rs)
        callees = res.resolve_call(f, e, count=False) or []
        if callees:
            outs = []
            for g in callees:
                if g.qual in seen:
                    continue
                rets = [r for r in walk_no_nested(g.node) if isinstance(r, ast.Return) and r.value is not None]
                if not rets:
                    return False, f"{g.short} returns nothing"
                for r in rets:
                    v = r.value.elts[0] if isinstance(r.value, ast.Tuple) else r.value
                    outs.append(canonical(prog, g, v, depth + 1, seen | {g.qual}))
            if outs:
                bad = [o for o in outs if not o[0]]
                return (not bad), (bad[0][1] if bad else f"every return of {', '.join(g.short for g in callees)} is canonical")
        return False, f"`{src(e)[:60]}` is not a known canonical-order producer"
    if isinstance(e, ast.Subscript):
        sl = e.slice
        if isinstance(sl, ast.BinOp) and src(sl) in CANON_FIELDS:
            return True, "explicit projection onto model.names + non-sampling fields"
        if isinstance(sl, (ast.Constant, ast.List)) and (isinstance(sl, ast.List) or isinstance(sl.value, str)):
            return False, f"field selection `{src(sl)[:40]}`"
        ok, why = canonical(prog, f, e.value, depth + 1, seen)
        return ok, f"row selection of ({why})"
    if isinstance(e, ast.Attribute) and isinstance(e.value, ast.Name) and e.value.id == "self":
        # self.x etc.: follow the stores in the same function
        stores = [s for s in walk_no_nested(f.node) if isinstance(s, ast.Assign) and any(src(t) == src(e) for t in s.targets)]
        if stores:
            rs = [canonical(prog, f, s.value, depth + 1, seen) for s in stores]
            bad = [r for r in rs if not r[0]]
            return (not bad), (bad[0][1] if bad else rs[0][1])
        return False, f"`{src(e)}` has no producer in this function"
    if isinstance(e, ast.Name):
        defs = []
        for s in walk_no_nested(f.node):
            if isinstance(s, ast.Assign):
                for t in s.targets:
                    if isinstance(t, ast.Name) and t.id == e.id:
                        defs.append(s.value)
                    elif isinstance(t, ast.Tuple) and t.elts and isinstance(t.elts[0], ast.Name) and t.elts[0].id == e.id:
                        defs.append(s.value)  # first element of a (points, density) pair
        if e.id in f.params():
            return False, f"parameter `{e.id}`"
        defs = [d for d in defs if not (isinstance(d, ast.Call) and (call_name(d) or "").split(".")[-1] in ("concatenate",) and any(isinstance(x, ast.Name) and x.id == e.id for x in ast.walk(d)))] or defs
        if not defs:
            return False, f"`{e.id}` has no definition"
        rs = [canonical(prog, f, d, depth + 1, seen) for d in defs]
        bad = [r for r in rs if not r[0]]
        return (not bad), (bad[0][1] if bad else rs[0][1])
    return False, f"`{src(e)[:60]}`"


def pool_stores(prog, cls_list):
    """(function, statement) for every whole assignment to self.samples in the populate methods."""
    out = []
    for c in cls_list:
        f = c.methods.get("populate")
        if f is None:
            continue
        for s in walk_no_nested(f.node):
            if isinstance(s, ast.Assign) and any(src(t) == "self.samples" for t in s.targets):
                out.append((f, s))
    return out


# ---------------------------------------------------------------------------
# positional views
_POS_VIEW = ("unstructured_view",)


def _is_pos_view(e):
    """e is a call that reinterprets a structured array as plain columns in the *memory order of the array passed in*
    (livepoint.unstructured_view / Model.unstructured_view / ndarray.view((float, n)))."""
    if not isinstance(e, ast.Call):
        return False
    nm = (call_name(e) or "").split(".")[-1]
    if nm in _POS_VIEW:
        return True
    if nm == "view" and isinstance(e.func, ast.Attribute) and e.args and isinstance(e.args[0], ast.Tuple):
        return True
    return False


def _scalar(e):
    if isinstance(e, ast.Constant) and isinstance(e.value, (int, float)):
        return True
    if isinstance(e, ast.UnaryOp) and isinstance(e.op, (ast.USub, ast.UAdd)):
        return _scalar(e.operand)
    if isinstance(e, ast.Attribute) and src(e) in ("np.inf", "numpy.inf", "np.pi", "numpy.pi"):
        return True
    return False


def positional_view_uses(prog):
    """[(function, node, ok, detail)]: every element-wise combination of a positional view of a structured array.

    The columns of such a view follow the field order of whatever array the caller passed (a flow proposal hands the
    model arrays in reparameterisation order), so the only order-safe partners are scalars (`x < 0`, `x ** 2`) and
    the view itself; pairing its columns with a per-parameter array (bounds, scales, ...) silently pairs each
    parameter with another parameter's entry whenever the caller's field order differs from the names list."""
    out = []
    for f in prog.all_functions:
        views = set()
        checked = set()
        fa = None
        for s in walk_no_nested(f.node):
            if isinstance(s, ast.Assign) and _is_pos_view(s.value):
                # a view taken only where the array's field names were compared with the names list (`x.dtype.names[:n] ==
                # tuple(names)`) has its columns in that order: it is a by-name view, not a positional one
                from ..q import FA as _FA, guard_facts as _gf

                fa = fa or _FA(f)
                nid = next(iter(fa.find(lambda x_, s=s: x_ is s)), None)
                facts = _gf(fa, nid) if nid is not None else []
                if any(tr_ is True and isinstance(e_, ast.Compare) and len(e_.ops) == 1 and isinstance(e_.ops[0], ast.Eq) and ".dtype.names" in src(e_) and "names" in src(e_.comparators[0]) + src(e_.left).replace(".dtype.names", "") for e_, tr_ in facts):
                    checked.add(id(s.value))
                    continue
                for t in s.targets:
                    if isinstance(t, ast.Name):
                        views.add(t.id)
        direct = [n for n in walk_no_nested(f.node) if _is_pos_view(n) and id(n) not in checked]
        if not views and not direct:
            continue

        def is_view(e):
            if isinstance(e, ast.Name) and e.id in views:
                return True
            if _is_pos_view(e):
                return True
            if isinstance(e, ast.BinOp):
                return is_view(e.left) or is_view(e.right)
            if isinstance(e, ast.UnaryOp):
                return is_view(e.operand)
            if isinstance(e, ast.Compare):
                return is_view(e.left) or any(is_view(c) for c in e.comparators)
            if isinstance(e, ast.Subscript):
                return is_view(e.value)
            return False

        for n in walk_no_nested(f.node):
            parts = None
            if isinstance(n, ast.BinOp):
                parts = [n.left, n.right]
            elif isinstance(n, ast.Compare):
                parts = [n.left] + list(n.comparators)
            elif isinstance(n, ast.AugAssign):
                parts = [n.target, n.value]
            if not parts or not any(is_view(p) for p in parts):
                continue
            others = [p for p in parts if not is_view(p)]
            bad = [p for p in others if not _scalar(p)]
            out.append((f, n, not bad, f"`{src(n)[:90]}`" + (f": columns in the caller's memory order are paired with `{src(bad[0])[:40]}`" if bad else "")))
    return out
