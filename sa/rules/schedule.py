"""The live-count schedule of the final consumption: the i-th remaining live point is integrated with nlive - i.

Accepted spellings (all denote nlive, nlive-1, ..., 1 for points taken in stored order):
  A  for i, p in enumerate(self.live_points): increment(p['logL'], nlive=self.nlive - i)
  B  c = self.nlive; for p in self.live_points: increment(p['logL'], nlive=c); ...; c -= 1
  C  i = 0;          for p in self.live_points: increment(p['logL'], nlive=self.nlive - i); ...; i += 1
"""

import ast

from ..lin import lin_eq, linear
from ..pm import src
from ..q import is_self_attr


def final_schedule(ffa, loop_node):
    """dict(point, inc (nid, call), app (nid, call), ok, why) for the loop over self.live_points in finalise."""
    lp = loop_node.ast
    out = {"point": None, "inc": None, "app": None, "ok": False, "why": ""}
    it = lp.iter
    enum = isinstance(it, ast.Call) and src(it.func) == "enumerate" and len(it.args) == 1 and is_self_attr(it.args[0], "live_points") and not it.keywords
    direct = is_self_attr(it, "live_points")
    if not (enum or direct):
        out["why"] = f"loop iterates `{src(it)}`"
        return out
    if enum:
        if not (isinstance(lp.target, ast.Tuple) and len(lp.target.elts) == 2 and all(isinstance(e, ast.Name) for e in lp.target.elts)):
            out["why"] = "enumerate target is not (i, p)"
            return out
        iv, pv = lp.target.elts[0].id, lp.target.elts[1].id
    else:
        if not isinstance(lp.target, ast.Name):
            out["why"] = "loop target is not a name"
            return out
        iv, pv = None, lp.target.id
    out["point"] = pv
    body = ffa.cfg.loop_body(loop_node.id)
    incs = [(n, c) for n, c in ffa.find_calls("self.state.increment") if n in body]
    apps = [(n, c) for n, c in ffa.find_calls("self.nested_samples.append") if n in body]
    if len(incs) != 1 or len(apps) != 1:
        out["why"] = "expected one increment and one append in the loop"
        return out
    out["inc"], out["app"] = incs[0], apps[0]
    ni, ic = incs[0]
    kws = {k.arg: k.value for k in ic.keywords}
    nl = kws.get("nlive") if "nlive" in kws else (ic.args[1] if len(ic.args) > 1 else None)
    if nl is None:
        out["why"] = "increment receives no live count"
        return out

    def counter(name, start_ok, step_op):
        """`name` is initialised once before the loop (start_ok(value)), stepped by exactly 1 (step_op) once per
        iteration after the increment call, unconditionally, and written nowhere else."""
        stores = ffa.find(lambda s: (isinstance(s, ast.Assign) and any(isinstance(t, ast.Name) and t.id == name for t in s.targets)) or (isinstance(s, ast.AugAssign) and isinstance(s.target, ast.Name) and s.target.id == name))
        inits = [n for n in stores if n not in body]
        steps = [n for n in stores if n in body]
        if len(inits) != 1 or len(steps) != 1:
            return False
        i0, s0 = ffa.stmt(inits[0]), ffa.stmt(steps[0])
        if not (isinstance(i0, ast.Assign) and start_ok(i0.value) and ffa.dominates(inits[0], loop_node.id)):
            return False
        if not (isinstance(s0, ast.AugAssign) and isinstance(s0.op, step_op) and isinstance(s0.value, ast.Constant) and s0.value.value == 1):
            return False
        # once per iteration, after the increment, not under a condition of the loop body
        return ffa.cfg.must_pass(ni, loop_node.id, [steps[0]]) and ffa.cfg.loops_containing(steps[0]) == ffa.cfg.loops_containing(ni)

    if iv is not None and lin_eq(linear(nl), {"self.nlive": 1, iv: -1}):
        out["ok"], out["why"] = True, f"`nlive={src(nl)}` with {iv} from enumerate"
    elif isinstance(nl, ast.Name) and counter(nl.id, lambda v: src(v) == "self.nlive", ast.Sub):
        out["ok"], out["why"] = True, f"down-counter `{nl.id}` from self.nlive"
    else:
        names = [x.id for x in ast.walk(nl) if isinstance(x, ast.Name) and x.id != "self"]
        if len(names) == 1 and lin_eq(linear(nl), {"self.nlive": 1, names[0]: -1}) and counter(names[0], lambda v: isinstance(v, ast.Constant) and v.value == 0, ast.Add):
            out["ok"], out["why"] = True, f"`nlive={src(nl)}` with the up-counter `{names[0]}` from 0"
        else:
            out["why"] = f"`nlive={src(nl)}` is not nlive minus the number of points already consumed"
    return out
