"""R-UNDEF: no path reads a local that is unbound on that path (definite
assignment over the statement CFG; path-insensitive, so reports are only armed
for functions / names confirmed by reading - see callers)."""

import ast

from ..q import cfg_of, walk_no_nested


def _stored_names(expr):
    out = set()
    for n in walk_no_nested(expr):
        if isinstance(n, ast.Name) and isinstance(n.ctx, (ast.Store,)):
            out.add(n.id)
    return out


def _comp_scoped(expr):
    """ids of Name nodes that live in a comprehension scope (targets and their uses)."""
    out = set()
    for n in ast.walk(expr):
        if isinstance(n, (ast.ListComp, ast.SetComp, ast.DictComp, ast.GeneratorExp)):
            tnames = set()
            for g in n.generators:
                for t in ast.walk(g.target):
                    if isinstance(t, ast.Name):
                        tnames.add(t.id)
            for x in ast.walk(n):
                if isinstance(x, ast.Name) and x.id in tnames:
                    out.add(id(x))
    return out


def analyse(fi):
    """Yields (name, use_node, cfg_node_id) for possibly-unbound reads."""
    fnode = fi.node
    cfg = cfg_of(fi)
    comp = _comp_scoped(fnode)
    params = set(fi.params())
    a = fnode.args
    if a.vararg:
        params.add(a.vararg.arg)
    if a.kwarg:
        params.add(a.kwarg.arg)
    declared_global = set()
    for n in walk_no_nested(fnode):
        if isinstance(n, (ast.Global, ast.Nonlocal)):
            declared_global |= set(n.names)
    # definitions per CFG node
    defs = {}
    uses = {}
    locals_ = set()
    for node in cfg.nodes.values():
        d = set()
        u = []
        if node.kind == "branch":
            if node.label == "iter":
                for t in ast.walk(node.test.target):
                    if isinstance(t, ast.Name) and id(t) not in comp:
                        d.add(t.id)
        elif node.kind == "for":
            for x in walk_no_nested(node.ast.iter):
                if isinstance(x, ast.Name) and isinstance(x.ctx, ast.Load) and id(x) not in comp:
                    u.append(x)
        elif node.kind == "handler":
            if node.ast.name:
                d.add(node.ast.name)
            if node.ast.type is not None:
                for x in walk_no_nested(node.ast.type):
                    if isinstance(x, ast.Name):
                        u.append(x)
        elif node.kind == "stmt" and isinstance(node.ast, (ast.FunctionDef, ast.AsyncFunctionDef, ast.ClassDef)):
            d.add(node.ast.name)
        elif node.kind == "stmt" and isinstance(node.ast, (ast.Import, ast.ImportFrom)):
            for al in node.ast.names:
                d.add((al.asname or al.name).split(".")[0])
        elif node.kind in ("stmt", "if", "while", "with"):
            for part in cfg.own_exprs(node.id):
                for x in walk_no_nested(part):
                    if isinstance(x, ast.Name) and id(x) not in comp:
                        if isinstance(x.ctx, ast.Store):
                            d.add(x.id)
                        elif isinstance(x.ctx, ast.Load):
                            u.append(x)
            if isinstance(node.ast, ast.AugAssign) and isinstance(node.ast.target, ast.Name):
                u.append(node.ast.target)
        defs[node.id] = d
        uses[node.id] = u
        locals_ |= d
    locals_ -= declared_global
    locals_ -= params
    if not locals_:
        return []
    # forward must-analysis
    ALL = frozenset(locals_)
    IN = {n: ALL for n in cfg.nodes}
    OUT = {n: ALL for n in cfg.nodes}
    IN[cfg.entry] = frozenset()
    OUT[cfg.entry] = frozenset()
    work = list(cfg.g.successors(cfg.entry))
    order = list(cfg.nodes)
    changed = True
    while changed:
        changed = False
        for n in order:
            if n == cfg.entry:
                continue
            preds = list(cfg.g.predecessors(n))
            if not preds:
                continue
            kind = cfg.nodes[n].kind
            acc = None
            for p in preds:
                s = IN[p] if kind == "handler" else OUT[p]
                acc = s if acc is None else (acc & s)
            if acc != IN[n]:
                IN[n] = acc
                changed = True
            out = acc | (defs[n] & ALL)
            # `del x` kills
            st = cfg.nodes[n].ast
            if cfg.nodes[n].kind == "stmt" and isinstance(st, ast.Delete):
                killed = {t.id for t in st.targets if isinstance(t, ast.Name)}
                out = out - killed
            if out != OUT[n]:
                OUT[n] = out
                changed = True
    reach = cfg.reachable(cfg.entry)
    res = []
    for n, us in uses.items():
        if n not in reach:
            continue
        for x in us:
            if x.id in locals_ and x.id not in IN[n]:
                res.append((x.id, x, n))
    return res


def _test_key(node):
    """Syntactic identity of a branch test (None for loop heads)."""
    if node.kind != "branch" or node.label not in (True, False):
        return None
    t = node.test
    neg = False
    while isinstance(t, ast.UnaryOp) and isinstance(t.op, ast.Not):
        t = t.operand
        neg = not neg
    lab = node.label if not neg else (not node.label)
    return ast.unparse(t), lab, {x.id for x in ast.walk(t) if isinstance(x, ast.Name)} | {ast.unparse(x) for x in ast.walk(t) if isinstance(x, ast.Attribute)}


def _nonempty_literal(e):
    return isinstance(e, (ast.Tuple, ast.List)) and e.elts and not any(isinstance(x, ast.Starred) for x in e.elts)


def _nonempty_iter(fi, it):
    if _nonempty_literal(it):
        return True
    if isinstance(it, ast.Call) and isinstance(it.func, ast.Name):
        g = fi.module.functions.get(it.func.id)
        if g is not None and not any(isinstance(x, (ast.Yield, ast.YieldFrom)) for x in walk_no_nested(g.node)):
            rets = [x for x in walk_no_nested(g.node) if isinstance(x, ast.Return)]
            return bool(rets) and all(r.value is not None and _nonempty_literal(r.value) for r in rets)
    return False


_NONE_TEST_CACHE = {}


def _none_test(text):
    """(V, is_none_on_true_branch, definite) for the test texts `V is None`, `V is not None`, `V` (truthiness: the true
    branch implies non-None, the false branch implies nothing)."""
    if text not in _NONE_TEST_CACHE:
        out = None
        try:
            e = ast.parse(text, mode="eval").body
        except SyntaxError:
            e = None
        if isinstance(e, ast.Name):
            out = (e.id, False, False)
        elif isinstance(e, ast.Compare) and len(e.ops) == 1 and isinstance(e.left, ast.Name) and isinstance(e.comparators[0], ast.Constant) and e.comparators[0].value is None:
            if isinstance(e.ops[0], ast.Is):
                out = (e.left.id, True, True)
            elif isinstance(e.ops[0], ast.IsNot):
                out = (e.left.id, False, True)
        _NONE_TEST_CACHE[text] = out
    return _NONE_TEST_CACHE[text]


def feasible_unbound_path(fi, name, use_nid):
    """Is there a def-free path entry -> use that never takes two branches
    with the same test text and opposite outcomes (without a store to a name
    of the test in between)?  Syntactic path sensitivity only."""
    cfg = cfg_of(fi)
    keys = {}
    count = {}
    for n in cfg.nodes.values():
        k = _test_key(n)
        if k:
            keys[n.id] = k
            count[k[0]] = count.get(k[0], 0) + 1
    relevant = {t for t, c in count.items() if c >= 2}
    _defs_cache = {}

    def node_defs(nid):
        if nid not in _defs_cache:
            _defs_cache[nid] = _node_defs(nid)
        return _defs_cache[nid]

    def _node_defs(nid):
        node = cfg.nodes[nid]
        d = set()
        if node.kind == "branch":
            if node.label == "iter":
                d |= {t.id for t in ast.walk(node.test.target) if isinstance(t, ast.Name)}
            return d
        if node.kind == "handler" and node.ast.name:
            d.add(node.ast.name)
        if node.kind in ("stmt", "if", "while", "with"):
            for part in cfg.own_exprs(nid):
                for x in walk_no_nested(part):
                    if isinstance(x, ast.Name) and isinstance(x.ctx, ast.Store):
                        d.add(x.id)
                    if isinstance(x, ast.Attribute) and isinstance(x.ctx, ast.Store):
                        d.add(ast.unparse(x))
        return d

    # only tests that guard a binding of `name` or the use itself can make an unbound path infeasible: remembering the
    # outcome of every repeated test is exponential in long (inlined) constructors
    guard_tests = set()
    for n in cfg.nodes.values():
        if n.id == use_nid or (n.kind != "branch" and name in node_defs(n.id)) or (n.kind == "branch" and n.label == "iter" and name in node_defs(n.id)):
            for test, label in cfg.guards(n.id):
                if isinstance(test, ast.expr):
                    t_ = test
                    while isinstance(t_, ast.UnaryOp) and isinstance(t_.op, ast.Not):
                        t_ = t_.operand
                    guard_tests.add(ast.unparse(t_))
    relevant &= guard_tests
    # a `for` over a provably non-empty iterable (a non-empty literal, or a module function all of whose returns are
    # non-empty literals) runs its body at least once: the `exhausted` edge is infeasible until the body was entered
    nonempty_for = {}
    for n in cfg.nodes.values():
        if n.kind == "branch" and n.label in ("iter", "exhausted") and isinstance(n.test, ast.For) and _nonempty_iter(fi, n.test.iter):
            nonempty_for[n.id] = (n.label, "\0for%d" % id(n.test))
    # a local that holds the constant None (`v = None`, no store since) cannot pass `v is not None` / `if v:`
    none_tests = {}
    for n in cfg.nodes.values():
        if n.id in keys:
            vt = _none_test(keys[n.id][0])
            if vt is not None:
                none_tests[n.id] = (vt[0], vt[1] if keys[n.id][1] else (not vt[1]) if vt[2] else None)
    none_vars = {v for v, _ in none_tests.values()}
    none_sets = {}
    for n in cfg.nodes.values():
        if n.kind == "stmt" and isinstance(n.ast, ast.Assign) and isinstance(n.ast.value, ast.Constant) and n.ast.value.value is None:
            vs = {t.id for t in n.ast.targets if isinstance(t, ast.Name)} & none_vars
            if vs:
                none_sets[n.id] = vs
    start = (cfg.entry, frozenset())
    seen = {start}
    stack = [start]
    while stack:
        nid, facts = stack.pop()
        for s in cfg.g.successors(nid):
            f2 = facts
            if s in none_tests:
                v_, isnone_ = none_tests[s]
                if isnone_ is False and ("\0none:" + v_, True) in facts:
                    continue  # this edge needs v to be non-None, but v holds the constant None
            if none_vars:
                killed_ = {("\0none:" + v_, True) for v_ in (node_defs(s) & none_vars)} if cfg.nodes[s].kind != "branch" or cfg.nodes[s].label == "iter" else set()
                if killed_:
                    f2 = f2 - killed_
                if s in none_sets:
                    f2 = f2 | {("\0none:" + v_, True) for v_ in none_sets[s]}
            if s in nonempty_for:
                lab_, key_ = nonempty_for[s]
                if lab_ == "exhausted" and (key_, True) not in facts:
                    continue
                if lab_ == "iter":
                    f2 = f2 | {(key_, True)}
            if s in keys:
                t, lab, names = keys[s]
                if t in relevant:
                    d = dict(f2)
                    if t in d and d[t] != lab:
                        continue  # contradicts an earlier outcome of the same test
                    d[t] = lab
                    f2 = frozenset(d.items())
            if s == use_nid:
                return True
            ds = node_defs(s)
            if name in ds:
                continue
            if ds and f2:
                # a store to a name used by a remembered test forgets that test
                f2 = frozenset((t, l) for t, l in f2 if t.startswith("\0") or not (ds & _names_of(t)))
            st = (s, f2)
            if st not in seen:
                seen.add(st)
                stack.append(st)
    return False


_NAMES_CACHE = {}


def _names_of(text):
    if text not in _NAMES_CACHE:
        tree = ast.parse(text, mode="eval")
        out = {x.id for x in ast.walk(tree) if isinstance(x, ast.Name)}
        out |= {ast.unparse(x) for x in ast.walk(tree) if isinstance(x, ast.Attribute)}
        _NAMES_CACHE[text] = out
    return _NAMES_CACHE[text]


def scan(prog, functions):
    """[(fn, name, use_node)] possibly-unbound reads that survive the
    syntactic path-feasibility filter; one entry per (function, name)."""
    out = []
    for f in functions:
        seen = set()
        for name, x, nid in analyse(f):
            if name in seen:
                continue
            if feasible_unbound_path(f, name, nid):
                seen.add(name)
                out.append((f, name, x))
    return out
