"""R-COVER: fixed-width batching must cover the whole array.

A loop `for j in range(K)` that touches `a[j*B:(j+1)*B]` (or `slice(j*B, (j+1)*B)`) processes K*B rows.  If K is the
*floor* of N / B (`N // B`, `max(N // B, 1)`, `int(N / B)`) the last partial batch is never processed whenever
N > B and N % B != 0 - unless the remainder `[K*B:]` is handled after the loop.  Ceil idioms (`-(-N // B)`,
`(N + B - 1) // B`, `(N - 1) // B + 1`, `math.ceil(N / B)`, `int(np.ceil(N / B))`) and `range(0, N, B)` strides are fine.
Zero instances are expected in the package; the rule carries a positive and a negative fixture that are re-decided on
every run.
"""

import ast

from ..pm import src
from ..q import walk_no_nested


# loops whose array length is an exact multiple of the batch width by construction (function -> why)
REVIEWED_EXACT = {
    "verify_rescaling": "x_out is the test input repeated a whole number of times by the duplicating inversions, so x_out.size is an exact multiple of x.size",
}


def _strip(e):
    return ast.unparse(e).replace(" ", "")


def _is_batch_slice(lo, hi, j):
    """lo == j*B and hi == (j+1)*B  ->  B text, else None"""
    if lo is None or hi is None:
        return None
    if isinstance(lo, ast.BinOp) and isinstance(lo.op, ast.Mult):
        a, b = lo.left, lo.right
        B = b if (isinstance(a, ast.Name) and a.id == j) else a if (isinstance(b, ast.Name) and b.id == j) else None
        if B is None:
            return None
        bt = _strip(B)
        ht = _strip(hi)
        if ht in (f"({j}+1)*{bt}", f"{bt}*({j}+1)", f"(1+{j})*{bt}", f"{j}*{bt}+{bt}", f"{bt}*{j}+{bt}", f"{bt}+{j}*{bt}"):
            return bt
    return None


def _count_kind(e, bt):
    """'floor' / 'ceil' / None for the expression that gives the number of batches."""
    parent = {}
    for n in ast.walk(e):
        for ch in ast.iter_child_nodes(n):
            parent[ch] = n
    for n in ast.walk(e):
        if isinstance(n, ast.Call) and (_strip(n.func).split(".")[-1] == "ceil"):
            return "ceil"
    kinds = []
    for n in ast.walk(e):
        if isinstance(n, ast.BinOp) and isinstance(n.op, ast.FloorDiv) and _strip(n.right) == bt:
            lt = _strip(n.left)
            par = parent.get(n)
            if isinstance(n.left, ast.UnaryOp) and isinstance(n.left.op, ast.USub) and isinstance(par, ast.UnaryOp) and isinstance(par.op, ast.USub):
                kinds.append("ceil")  # -(-N // B)
            elif lt.endswith(f"+{bt}-1") or lt.endswith(f"-1+{bt}") or lt.startswith(f"{bt}-1+") or (lt.startswith(f"{bt}+") and lt.endswith("-1")):
                kinds.append("ceil")  # (N + B - 1) // B
            elif lt.endswith("-1") and isinstance(par, ast.BinOp) and isinstance(par.op, ast.Add) and any(isinstance(o, ast.Constant) and o.value == 1 for o in (par.left, par.right)):
                kinds.append("ceil")  # (N - 1) // B + 1
            else:
                kinds.append("floor")
        if isinstance(n, ast.Call) and _strip(n.func) == "int" and n.args and isinstance(n.args[0], ast.BinOp) and isinstance(n.args[0].op, ast.Div) and _strip(n.args[0].right) == bt:
            kinds.append("floor")
    if not kinds:
        return None
    return "floor" if "floor" in kinds else "ceil"


def scan_function(fnode):
    """[(loop node, ok, detail)] for every fixed-width batching loop in the function."""
    out = []
    assigns = {}
    for s in walk_no_nested(fnode):
        if isinstance(s, ast.Assign) and len(s.targets) == 1 and isinstance(s.targets[0], ast.Name):
            assigns.setdefault(s.targets[0].id, []).append(s.value)
    for loop in [n for n in walk_no_nested(fnode) if isinstance(n, ast.For)]:
        if not (isinstance(loop.target, ast.Name) and isinstance(loop.iter, ast.Call) and _strip(loop.iter.func) == "range" and len(loop.iter.args) == 1):
            continue
        j = loop.target.id
        bts = set()
        for n in ast.walk(loop):
            if isinstance(n, ast.Slice):
                b = _is_batch_slice(n.lower, n.upper, j)
                if b:
                    bts.add(b)
            elif isinstance(n, ast.Call) and _strip(n.func) == "slice" and len(n.args) == 2:
                b = _is_batch_slice(n.args[0], n.args[1], j)
                if b:
                    bts.add(b)
        if len(bts) != 1:
            continue
        bt = next(iter(bts))
        k = loop.iter.args[0]
        defs = [k]
        if isinstance(k, ast.Name) and len(assigns.get(k.id, [])) == 1:
            defs = [assigns[k.id][0]]
        kind = _count_kind(defs[0], bt)
        if kind == "floor" and getattr(fnode, "name", None) in REVIEWED_EXACT:
            out.append((loop, True, f"batches of {bt}: `{src(defs[0])[:50]}` is exact here - {REVIEWED_EXACT[fnode.name]}"))
            continue
        if kind is None:
            out.append((loop, True, f"batches of {bt}: number of batches `{src(defs[0])[:50]}` is not derived from a division by the batch size (not decided)"))
            continue
        if kind == "ceil":
            out.append((loop, True, f"batches of {bt}: number of batches `{src(defs[0])[:50]}` rounds up"))
            continue
        # floor: remainder handled after the loop?
        kt = _strip(k)
        rem = False
        for n in walk_no_nested(fnode):
            if isinstance(n, ast.Slice) and n.upper is None and n.lower is not None and _strip(n.lower) in (f"{kt}*{bt}", f"{bt}*{kt}") and getattr(n, "lineno", 0) > loop.lineno:
                rem = True
        out.append((loop, rem, f"batches of {bt}: the number of batches `{src(defs[0])[:50]}` rounds down" + ("" if rem else f" and no `[{kt} * {bt}:]` remainder is processed after the loop: with more than {bt} rows whose count is not a multiple of it the last partial batch is skipped")))
    return out


_FIXTURE_BAD = """
def f(x, out):
    nb = max(x.shape[0] // B, 1)
    for j in range(nb):
        batch = slice(j * B, (j + 1) * B)
        out[batch] = g(x[batch])
    return out
"""
_FIXTURE_GOOD = """
def f(x, out):
    nb = -(-x.shape[0] // B)
    for j in range(nb):
        out[j * B:(j + 1) * B] = g(x[j * B:(j + 1) * B])
    return out
"""


def self_check():
    bad = scan_function(ast.parse(_FIXTURE_BAD).body[0])
    good = scan_function(ast.parse(_FIXTURE_GOOD).body[0])
    return len(bad) == 1 and bad[0][1] is False and len(good) == 1 and good[0][1] is True


def scan(prog, modules_prefix=None):
    hits = []
    n_loops = 0
    for f in prog.all_functions:
        if modules_prefix and not f.module.name.startswith(modules_prefix):
            continue
        n_loops += sum(1 for n in walk_no_nested(f.node) if isinstance(n, ast.For))
        for loop, ok, why in scan_function(f.node):
            hits.append((f, loop, ok, why))
    return n_loops, hits
