"""R-API: every attribute path the package reads from a third-party library of
its own environment (numpy, scipy, torch, glasflow, h5py, pandas, ...) exists
there.  The libraries are imported only to read their export tables - the
same information a type checker takes from stubs; no repository code runs."""

import ast
import importlib
import types

from ..q import walk_no_nested

TOPLEVEL = ("numpy", "scipy", "torch", "glasflow", "h5py", "pandas", "matplotlib", "seaborn", "tqdm", "corner", "sklearn")

_mod_cache = {}


def _import(name):
    if name not in _mod_cache:
        try:
            _mod_cache[name] = importlib.import_module(name)
        except Exception:
            _mod_cache[name] = None
    return _mod_cache[name]


def resolve_path(path):
    """(exists: True/False/None-undecidable, missing component)"""
    parts = path.split(".")
    if parts[0] not in TOPLEVEL:
        return None, None
    root = _import(parts[0])
    if root is None:
        return None, None
    obj = root
    for i, p in enumerate(parts[1:], 1):
        if isinstance(obj, types.ModuleType):
            if hasattr(obj, p):
                obj = getattr(obj, p)
                continue
            sub = _import(".".join(parts[: i + 1]))
            if sub is not None:
                obj = sub
                continue
            return False, ".".join(parts[: i + 1])
        if isinstance(obj, type):
            if hasattr(obj, p):
                obj = getattr(obj, p)
                continue
            return False, ".".join(parts[: i + 1])
        # functions / instances: attributes beyond this point are not decided
        return True, None
    return True, None


def ext_aliases(prog, m):
    out = {}
    for local, (mod, attr) in m.imports.items():
        if mod.split(".")[0] in TOPLEVEL and mod.split(".")[0] != "nessai":
            out[local] = mod if attr is None else f"{mod}.{attr}"
    return out


def scan(prog, modules, ob):
    """ob(module, fn_or_None, node, path, ok, detail) for every decided path."""
    n = 0
    for m in modules:
        aliases = ext_aliases(prog, m)
        if not aliases:
            continue
        # import statements themselves
        for local, path in sorted(aliases.items()):
            ok, missing = resolve_path(path)
            if ok is None:
                continue
            n += 1
            ob(m, None, None, path, ok, "" if ok else f"`{missing}` does not exist in the installed library")
        fn_of = {}
        for f in prog.all_functions:
            if f.module is m:
                for x in ast.walk(f.node):
                    fn_of.setdefault(id(x), f)
        seen_inner = set()
        for node in ast.walk(m.tree):
            if not isinstance(node, ast.Attribute) or id(node) in seen_inner:
                continue
            # take maximal chains only
            chain = []
            x = node
            while isinstance(x, ast.Attribute):
                chain.append(x.attr)
                seen_inner.add(id(x))
                x = x.value
            if not isinstance(x, ast.Name) or x.id not in aliases:
                continue
            f = fn_of.get(id(node))
            if f is not None:
                # shadowed by a local / parameter?
                names = set(f.params())
                for y in ast.walk(f.node):
                    if isinstance(y, ast.Name) and isinstance(y.ctx, ast.Store):
                        names.add(y.id)
                if x.id in names:
                    continue
            path = aliases[x.id] + "." + ".".join(reversed(chain))
            ok, missing = resolve_path(path)
            if ok is None:
                continue
            n += 1
            ob(m, f, node, path, ok, "" if ok else f"`{missing}` does not exist in the installed library")
    return n
