"""R-NORM: an option string is compared under one normalisation.

If a function looks an option up case-insensitively (`opt.lower()` / `.upper()` / `.casefold()`) every other comparison
of the same expression with string literals in that function must go through the same normalisation; a raw
`opt in ["logit", "log"]` next to `table.get(opt.lower())` accepts `"Logit"` in one place and not in the other.
"""

import ast

from ..pm import src
from ..q import walk_no_nested

_NORM = ("lower", "upper", "casefold")


def scan(prog):
    """[(function, compare node, ok, detail)] for every comparison of a case-normalised option with string literals."""
    out = []
    for f in prog.all_functions:
        lowered = {}
        for n in walk_no_nested(f.node):
            if isinstance(n, ast.Call) and isinstance(n.func, ast.Attribute) and n.func.attr in _NORM and not n.args:
                lowered.setdefault(src(n.func.value), n.func.attr)
        if not lowered:
            continue
        for n in walk_no_nested(f.node):
            if not (isinstance(n, ast.Compare) and len(n.ops) == 1 and isinstance(n.ops[0], (ast.In, ast.NotIn, ast.Eq, ast.NotEq))):
                continue
            r = n.comparators[0]
            lits = (isinstance(r, (ast.List, ast.Tuple, ast.Set)) and r.elts and all(isinstance(e, ast.Constant) and isinstance(e.value, str) for e in r.elts)) or (isinstance(r, ast.Constant) and isinstance(r.value, str))
            if not lits:
                continue
            left = n.left
            if isinstance(left, ast.Call) and isinstance(left.func, ast.Attribute) and left.func.attr in _NORM and src(left.func.value) in lowered:
                out.append((f, n, True, f"`{src(n)[:70]}`"))
            elif src(left) in lowered:
                out.append((f, n, False, f"`{src(n)[:70]}`: `{src(left)}` is looked up through .{lowered[src(left)]}() elsewhere in this function but compared here as given"))
    return out
