"""R-NORM: an option string is compared under one normalisation.

If a function looks an option up case-insensitively (`opt.lower()` / `.upper()` / `.casefold()`) every other comparison
of the same expression with string literals in that function must go through the same normalisation; a raw
`opt in ["logit", "log"]` next to `table.get(opt.lower())` accepts `"Logit"` in one place and not in the other.
"""

import ast

from ..pm import src
from ..q import walk_no_nested

_NORM = ("lower", "upper", "casefold")


def scan(prog):
    """[(function, compare node, ok, detail)] for every comparison of a case-normalised option with string literals."""
    out = []
    for f in prog.all_functions:
        lowered = {}
        for n in walk_no_nested(f.node):
            if isinstance(n, ast.Call) and isinstance(n.func, ast.Attribute) and n.func.attr in _NORM and not n.args:
                lowered.setdefault(src(n.func.value), n.func.attr)
        if not lowered:
            continue
        for n in walk_no_nested(f.node):
            if not (isinstance(n, ast.Compare) and len(n.ops) == 1 and isinstance(n.ops[0], (ast.In, ast.NotIn, ast.Eq, ast.NotEq))):
                continue
            r = n.comparators[0]
            lits = (isinstance(r, (ast.List, ast.Tuple, ast.Set)) and r.elts and all(isinstance(e, ast.Constant) and isinstance(e.value, str) for e in r.elts)) or (isinstance(r, ast.Constant) and isinstance(r.value, str))
            if not lits:
                continue
            left = n.left
            if isinstance(left, ast.Call) and isinstance(left.func, ast.Attribute) and left.func.attr in _NORM and src(left.func.value) in lowered:
                out.append((f, n, True, f"`{src(n)[:70]}`"))
            elif src(left) in lowered:
                out.append((f, n, False, f"`{src(n)[:70]}`: `{src(left)}` is looked up through .{lowered[src(left)]}() elsewhere in this function but compared here as given"))
    return out


def scan_attributes(prog):
    """[(function, node, ok, detail)]: class-level twin of `scan`.  If some method compares `self.A` with string literals
    *as stored* (no normalisation at the comparison) while the option is accepted case-insensitively somewhere in the
    class (`<x>.lower()` compared with literals where <x> is `self.A` or the value stored into it), then every store
    `self.A = <value>` must store the normalised value."""
    out = []
    for c in prog.classes.values():
        raw_cmp, norm_attr, stores = {}, set(), {}
        for f in c.methods.values():
            for n in walk_no_nested(f.node):
                if isinstance(n, ast.Compare) and len(n.ops) == 1 and isinstance(n.ops[0], (ast.In, ast.NotIn, ast.Eq, ast.NotEq)):
                    r = n.comparators[0]
                    lits = (isinstance(r, (ast.List, ast.Tuple, ast.Set)) and r.elts and all(isinstance(e, ast.Constant) and isinstance(e.value, str) for e in r.elts)) or (isinstance(r, ast.Constant) and isinstance(r.value, str))
                    if not lits:
                        continue
                    l = n.left
                    if isinstance(l, ast.Attribute) and isinstance(l.value, ast.Name) and l.value.id == "self":
                        raw_cmp.setdefault(l.attr, []).append((f, n))
                    if isinstance(l, ast.Call) and isinstance(l.func, ast.Attribute) and l.func.attr in _NORM and not l.args:
                        v = l.func.value
                        if isinstance(v, ast.Attribute) and isinstance(v.value, ast.Name) and v.value.id == "self":
                            norm_attr.add(v.attr)
                        elif isinstance(v, ast.Name):
                            norm_attr.add("param:" + v.id)
                if isinstance(n, ast.Assign):
                    for t in n.targets:
                        if isinstance(t, ast.Attribute) and isinstance(t.value, ast.Name) and t.value.id == "self":
                            stores.setdefault(t.attr, []).append((f, n))
        for a, cmps in raw_cmp.items():
            sts = stores.get(a, [])
            # is the option accepted case-insensitively? (normalised comparison of self.A, or of the value stored into it)
            insensitive = a in norm_attr or any(isinstance(s.value, ast.Name) and ("param:" + s.value.id) in norm_attr for f, s in sts) or any(isinstance(s.value, ast.Call) and isinstance(s.value.func, ast.Attribute) and s.value.func.attr in _NORM for f, s in sts)
            if not insensitive:
                continue
            for f, s in sts:
                v = s.value
                ok = (isinstance(v, ast.Call) and isinstance(v.func, ast.Attribute) and v.func.attr in _NORM) or (isinstance(v, ast.Constant))
                out.append((f, s, ok, f"`{src(s)[:60]}`; `self.{a}` is compared as stored in {sorted({g.short for g, _n in cmps})}" + ("" if ok else f": a spelling that passes the case-insensitive validation (e.g. 'LogT') takes the wrong branch there")))
    return out
