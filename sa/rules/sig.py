"""R-SIG: every resolved intra-package call passes only keywords the callee
(and every in-package override that can be the receiver) accepts, no more
positionals than it takes, and supplies every required parameter."""

import ast

from ..pm import src
from ..q import walk_no_nested
from ..resolve import resolver


def signature(g, bound: bool):
    a = g.node.args
    pos = [x.arg for x in a.posonlyargs + a.args]
    n_def = len(a.defaults)
    required = pos[: len(pos) - n_def] if n_def else list(pos)
    if bound and pos:
        pos = pos[1:]
        required = [r for r in required if r in pos]
    kwonly = [x.arg for x in a.kwonlyargs]
    kw_required = [x.arg for x, d in zip(a.kwonlyargs, a.kw_defaults) if d is None]
    posonly = [x.arg for x in a.posonlyargs]
    return {
        "pos": pos,
        "required": required,
        "kwonly": kwonly,
        "kw_required": kw_required,
        "vararg": a.vararg is not None,
        "kwarg": a.kwarg is not None,
        "posonly": [p for p in posonly if p in pos],
    }


def forwarded_accepts(res, g, kw, depth=0):
    """g takes **kwargs: does something downstream accept keyword `kw`?

    True / False when g only forwards `**kwargs` to resolved in-package
    callees (and never reads the dict itself); None when undecidable."""
    a = g.node.args
    if a.kwarg is None or depth > 3:
        return None
    name = a.kwarg.arg
    targets = []
    for n in walk_no_nested(g.node):
        if isinstance(n, ast.Name) and n.id == name and isinstance(n.ctx, ast.Load):
            pass
    uses = [n for n in walk_no_nested(g.node) if isinstance(n, ast.Name) and n.id == name]
    fwd_nodes = set()
    for c in walk_no_nested(g.node):
        if isinstance(c, ast.Call):
            for k in c.keywords:
                if k.arg is None and isinstance(k.value, ast.Name) and k.value.id == name:
                    fwd_nodes.add(id(k.value))
                    targets.append(c)
    if not targets or any(id(u) not in fwd_nodes for u in uses):
        return None  # the dict is inspected / modified / never forwarded
    verdicts = []
    for c in targets:
        callees = res.resolve_call(g, c, count=False)
        if not callees:
            return None
        for h in callees:
            sg = signature(h, is_bound_call(res, g, c, h))
            if kw in (set(sg["pos"]) - set(sg["posonly"])) | set(sg["kwonly"]):
                verdicts.append(True)
            elif sg["kwarg"]:
                verdicts.append(forwarded_accepts(res, h, kw, depth + 1))
            else:
                verdicts.append(False)
    if any(v is True for v in verdicts):
        return True
    if all(v is False for v in verdicts):
        return False
    return None


def check_call(f, call, g, bound, res=None):
    """list of problems for call against callee g"""
    s = signature(g, bound)
    probs = []
    has_star = any(isinstance(x, ast.Starred) for x in call.args)
    has_dstar = any(k.arg is None for k in call.keywords)
    npos = len([x for x in call.args if not isinstance(x, ast.Starred)])
    if npos > len(s["pos"]) and not s["vararg"]:
        probs.append(f"{npos} positional arguments but `{g.short}` takes {len(s['pos'])}")
    accepted = set(s["pos"]) - set(s["posonly"]) | set(s["kwonly"])
    for k in call.keywords:
        if k.arg is None:
            continue
        if k.arg not in accepted and not s["kwarg"]:
            probs.append(f"keyword `{k.arg}` not accepted by `{g.short}({', '.join(s['pos'] + s['kwonly'])})`")
        elif k.arg not in accepted and s["kwarg"] and res is not None:
            if forwarded_accepts(res, g, k.arg) is False:
                probs.append(f"keyword `{k.arg}` is forwarded by `{g.short}(**{g.node.args.kwarg.arg})` to callees that do not accept it")
        elif k.arg in s["pos"][:npos]:
            probs.append(f"keyword `{k.arg}` duplicates a positional argument of `{g.short}`")
    if not has_star and not has_dstar:
        given = set(s["pos"][:npos]) | {k.arg for k in call.keywords}
        for r in s["required"] + s["kw_required"]:
            if r not in given:
                probs.append(f"required parameter `{r}` of `{g.short}` not supplied")
    return probs


def is_bound_call(res, f, call, g):
    """Whether the callee's first parameter is supplied implicitly."""
    if g.cls is None or g.is_static or g.parent is not None:
        return False
    func = call.func
    if g.name == "__init__":
        # constructor call Cls(...) -> bound; explicit Base.__init__(self, ..) -> unbound
        if isinstance(func, ast.Attribute) and func.attr == "__init__":
            v = func.value
            if isinstance(v, ast.Call):  # super().__init__
                return True
            return False
        return True
    if isinstance(func, ast.Attribute):
        v = func.value
        # Class.method(obj, ...) -> unbound unless classmethod
        r = res.prog.resolve_expr(f.module, v) if isinstance(v, (ast.Name, ast.Attribute)) else None
        if r and r[0] == "class" and not (isinstance(v, ast.Name) and v.id in res._local_names(f)):
            return g.is_classmethod
        return True
    return g.is_classmethod


def scan(prog, functions, ob):
    """ob(fn, call, callee, ok, detail) for every resolved (call, callee) pair."""
    res = resolver(prog)
    n = 0
    for f in functions:
        for call in walk_no_nested(f.node):
            if not isinstance(call, ast.Call):
                continue
            callees = res.resolve_call(f, call)
            if not callees:
                continue
            for g in callees:
                if g.is_property:
                    continue
                bound = is_bound_call(res, f, call, g)
                probs = check_call(f, call, g, bound, res)
                n += 1
                ob(f, call, g, not probs, "; ".join(probs))
    return n
