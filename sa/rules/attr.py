"""R-ATTR: every attribute read on `self`, on a typed field of self, or on a
typed local alias resolves to a definition.

Definitions of a class: class-level names, methods/properties, `self.X = ...`
stores anywhere in the class, its in-package bases *or its in-package
subclasses* (abstract-base idiom), `setattr(self, "X", ..)`, keys written into
the dict returned by `__getstate__` (pickle-only attributes).  Classes with a
base outside the package (torch.nn.Module, dict, json.JSONEncoder, ...) cannot
be decided for names they do not define themselves and are skipped for those.
Recognised guards: `hasattr(obj, "X")` / `getattr(obj, "X", default)` anywhere
in the same function, `try: ... except AttributeError`.
"""

import ast

from ..pm import src
from ..q import walk_no_nested
from ..resolve import resolver

OBJECT_ATTRS = set(dir(object)) | {"__dict__", "__class__", "__name__", "__module__", "__qualname__", "__doc__"}


def _guarded_names(fnode):
    out = set()
    for n in ast.walk(fnode):
        if isinstance(n, ast.Call) and isinstance(n.func, ast.Name) and n.func.id in ("hasattr", "getattr") and len(n.args) >= 2:
            if isinstance(n.args[1], ast.Constant) and isinstance(n.args[1].value, str):
                if n.func.id == "hasattr" or len(n.args) == 3:
                    out.add((src(n.args[0]), n.args[1].value))
    return out


def _in_attrerror_try(fnode, node):
    for t in ast.walk(fnode):
        if isinstance(t, ast.Try):
            if any(node is x for b in t.body for x in ast.walk(b)):
                for h in t.handlers:
                    names = [src(h.type)] if h.type is not None else ["BaseException"]
                    if any(k in nm for nm in names for k in ("AttributeError", "Exception", "BaseException")):
                        return True
    return False


def class_defines(prog, c, attr):
    """(defined?, decidable?)"""
    defs = prog.attr_defs(c)
    if attr in defs or "*" in defs or attr in OBJECT_ATTRS:
        return True, True
    for k in prog.subclasses(c):
        if attr in prog.own_attr_defs(k):
            return True, True
    if prog.has_external_base(c):
        return False, False
    # dataclass fields / NamedTuple handled through class_attrs; __slots__ not used
    return False, True


def scan(prog, functions, ob):
    """ob(fn, node, receiver_text, attr, ok, detail) is called for every decided read.

    Returns (n_decided, n_undecidable)."""
    res = resolver(prog)
    n_dec = n_und = 0
    for f in functions:
        if f.cls is None and not res.local_env(f):
            pass
        guarded = _guarded_names(f.node)
        for n in walk_no_nested(f.node):
            if not (isinstance(n, ast.Attribute) and isinstance(n.ctx, ast.Load)):
                continue
            recv = n.value
            if isinstance(recv, ast.Call):
                continue
            tys = res.expr_type(f, recv)
            if not tys:
                continue
            if (src(recv), n.attr) in guarded:
                continue
            decided = True
            found = False
            for c in tys:
                d, dec = class_defines(prog, c, n.attr)
                if d:
                    found = True
                if not dec:
                    decided = False
            if found:
                n_dec += 1
                ob(f, n, src(recv), n.attr, True, "")
                continue
            if not decided:
                n_und += 1
                continue
            if _in_attrerror_try(f.node, n):
                continue
            n_dec += 1
            ob(f, n, src(recv), n.attr, False,
               f"`{src(n)}`: no class in {{{', '.join(sorted(c.name for c in tys))}}} (nor base/subclass) defines `{n.attr}`")
    return n_dec, n_und
