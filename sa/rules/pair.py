"""R-PAIR: parallel-array discipline.

Arrays that describe the same rows (samples, their latent points, their
densities, their Jacobians) must be filtered / indexed together.  Every local
array gets an abstract *row class* (root, filters): the root says which rows it
started from, `filters` the ordered list of masks / slices applied since.
Indexing an array with a mask computed on a differently filtered array of the
same root - or handing such arrays to a joint filter (get_subset_arrays,
check_prior_bounds, tuple-of-subscripts) - is reported: at run time it is an
IndexError or, worse, silently misaligned rows.

Path sensitivity is syntactic: alternatives are tagged with the branch
outcomes under which they arise, and only alternatives with consistent tags
are compared.
"""

import ast
import itertools

from ..pm import dotted, src
from ..q import call_name

# callee (last attribute / function name) -> which argument carries the row class of the result(s)
PRESERVING = {
    "forward_and_log_prob": 0, "log_prob": 0, "log_prob_all": 0, "numpy_array_to_live_points": 0, "live_points_to_array": 0,
    "rescale": 0, "inverse_rescale": 0, "to_prime": 0, "from_prime": 0, "_rescale": 0, "_inverse_rescale": 0,
    "isfinite": 0, "isnan": 0, "isposinf": 0, "isneginf": 0, "isinf": 0, "in_bounds": 0, "in_unit_hypercube": 0, "isfinite_struct": 0,
    "batch_evaluate_log_prior": 0, "batch_evaluate_log_likelihood": 0, "batch_evaluate_log_prior_unit_hypercube": 0,
    "log_prior": 0, "x_prime_log_prior": 0, "compute_weights": 0, "compute_log_Q": 0, "logit": 0, "sigmoid": 0,
    "exp": 0, "log": 0, "sqrt": 0, "abs": 0, "log1p": 0, "atleast_2d": 0, "atleast_1d": 0, "repack_fields": 0, "unstructured_view": 0,
    "from_unit_hypercube": 0, "to_unit_hypercube": 0, "update_log_q": 0, "compute_meta_proposal_from_log_q": 0,
    "array": 0, "asarray": 0, "copy": 0, "squeeze": 0, "clip": 0, "nan_to_num": 0, "logical_not": 0, "_marginalise_augment": 0,
    "log_prior_unit_hypercube": 0, "new_point_log_prob": 0, "log_proposal": 0, "compute_meta_proposal_samples": 0, "convert_to_samples": 0,
}
PRESERVING_METHODS = {"astype", "copy", "view", "squeeze", "flatten", "ravel", "cpu", "numpy", "detach", "type", "to"}
AXIS1_REDUCTIONS = {"sum", "all", "any", "mean", "max", "min", "prod"}
JOINT_FILTERS = {"get_subset_arrays": "first-is-mask", "check_prior_bounds": "first-is-source"}

_fresh = itertools.count()


class Alt:
    __slots__ = ("tags", "root", "filters")

    def __init__(self, tags, root, filters=()):
        self.tags, self.root, self.filters = frozenset(tags), root, tuple(filters)

    def key(self):
        return (self.tags, self.root, self.filters)


def consistent(t1, t2):
    d = dict(t1)
    for k, v in t2:
        if k in d and d[k] != v:
            return False
    return True


class PairChecker:
    def __init__(self, fi, report):
        self.fi = fi
        self.report = report
        self.n_joint = 0
        self.n_index = 0

    def fresh(self, tags, why):
        return [Alt(tags, ("fresh", why, next(_fresh)))]

    # ---- compatibility -----------------------------------------------
    def conflict(self, A, B):
        """First conflicting pair of alternatives (same root, different filters), else None."""
        for a in A or []:
            for b in B or []:
                if not consistent(a.tags, b.tags):
                    continue
                if a.root == b.root and a.filters != b.filters:
                    return a, b
                # two arrays built by parallel concatenations: compare them part by part
                if a.root[0] == "concat" and b.root[0] == "concat" and len(a.root[1]) == len(b.root[1]) and a.filters == b.filters:
                    for pa, pb in zip(a.root[1], b.root[1]):
                        for (ta, ra, fa_) in pa:
                            for (tb, rb, fb) in pb:
                                if consistent(ta, tb) and ra == rb and fa_ != fb:
                                    return Alt(ta, ra, fa_), Alt(tb, rb, fb)
        return None

    # ---- expressions ----------------------------------------------------
    def cls(self, e, env, tags):
        """Row-class alternatives of expression e (None = not an array we track)."""
        if isinstance(e, ast.Name):
            return env.get(e.id)
        if isinstance(e, ast.Attribute):
            k = src(e)
            if k in env:
                return env[k]
            if e.attr in ("T",):
                return None
            return None
        if isinstance(e, ast.Subscript):
            base = self.cls(e.value, env, tags)
            sl = e.slice
            if isinstance(sl, ast.Constant) and isinstance(sl.value, str):
                return base
            if isinstance(sl, ast.List) and all(isinstance(x, ast.Constant) and isinstance(x.value, str) for x in sl.elts):
                return base
            if isinstance(sl, ast.Tuple) and sl.elts and isinstance(sl.elts[0], ast.Slice) and sl.elts[0].lower is None and sl.elts[0].upper is None and sl.elts[0].step is None:
                return base  # x[:, ...] keeps the rows
            if isinstance(sl, ast.Tuple) and sl.elts and isinstance(sl.elts[0], ast.Constant) and sl.elts[0].value is Ellipsis:
                return base
            if isinstance(sl, ast.Slice):
                if base is None:
                    return None
                if sl.lower is None and sl.upper is None and sl.step is None:
                    return base
                return [Alt(a.tags | tags, a.root, a.filters + (("slice", src(sl)),)) for a in base]
            if isinstance(sl, ast.Tuple) and sl.elts and isinstance(sl.elts[0], ast.Slice):
                if base is None:
                    return None
                return [Alt(a.tags | tags, a.root, a.filters + (("slice", src(sl.elts[0])),)) for a in base]
            # mask / index array
            m = self.cls(sl, env, tags)
            if base is None or m is None:
                return None if base is None else self.fresh(tags, "indexed")
            self.n_index += 1
            c = self.conflict(base, m)
            if c:
                self.report(e, f"`{src(e)}` indexes `{src(e.value)}` (rows: {fmt(c[0])}) with a mask computed on differently filtered rows ({fmt(c[1])})")
            mid = ("mask", src(sl))
            return [Alt(a.tags | tags, a.root, a.filters + (mid,)) for a in base]
        if isinstance(e, ast.UnaryOp):
            return self.cls(e.operand, env, tags)
        if isinstance(e, (ast.BinOp, ast.Compare, ast.BoolOp)):
            ops = [e.left, e.right] if isinstance(e, ast.BinOp) else ([e.left] + list(e.comparators) if isinstance(e, ast.Compare) else list(e.values))
            classes = [(o, self.cls(o, env, tags)) for o in ops]
            known = [(o, c) for o, c in classes if c]
            for (o1, c1), (o2, c2) in itertools.combinations(known, 2):
                c = self.conflict(c1, c2)
                if c:
                    self.report(e, f"`{src(e)[:80]}` combines `{src(o1)[:30]}` ({fmt(c[0])}) with `{src(o2)[:30]}` ({fmt(c[1])}): rows are not aligned")
            return known[0][1] if known else None
        if isinstance(e, ast.Call):
            return self.call(e, env, tags)
        if isinstance(e, ast.IfExp):
            return self.cls(e.body, env, tags) or self.cls(e.orelse, env, tags)
        return None

    def call(self, e, env, tags):
        name = call_name(e) or (e.func.attr if isinstance(e.func, ast.Attribute) else "")
        short = name.split(".")[-1]
        if short in JOINT_FILTERS:
            return None  # handled at statement level (tuple result)
        if isinstance(e.func, ast.Attribute) and short in PRESERVING_METHODS:
            return self.cls(e.func.value, env, tags)
        if isinstance(e.func, ast.Attribute) and short in AXIS1_REDUCTIONS and not isinstance(e.func.value, ast.Name) or (isinstance(e.func, ast.Attribute) and short in AXIS1_REDUCTIONS and isinstance(e.func.value, ast.Name) and e.func.value.id not in ("np", "numpy")):
            if any(k.arg == "axis" and isinstance(k.value, ast.Constant) and k.value.value in (1, -1) for k in e.keywords):
                return self.cls(e.func.value, env, tags)
            return None
        if short == "sample_and_log_prob":
            for k in e.keywords:
                if k.arg == "z":
                    return self.cls(k.value, env, tags)
            return self.fresh(tags, "samples")
        if short in ("logsumexp",) and any(k.arg == "axis" and isinstance(k.value, ast.Constant) and k.value.value == 1 for k in e.keywords):
            return self.cls(e.args[0], env, tags) if e.args else None
        if short in PRESERVING:
            i = PRESERVING[short]
            if len(e.args) > i:
                return self.cls(e.args[i], env, tags)
            for k in e.keywords:
                if k.arg in ("x", "samples", "x_prime", "z"):
                    return self.cls(k.value, env, tags)
            return None
        if short == "concatenate" and e.args and isinstance(e.args[0], (ast.List, ast.Tuple)):
            axis0 = not any(k.arg == "axis" and not (isinstance(k.value, ast.Constant) and k.value.value == 0) for k in e.keywords)
            parts = [self.cls(x, env, tags) for x in e.args[0].elts]
            if not axis0:
                known = [p for p in parts if p]
                return known[0] if known else None
            if all(p for p in parts):
                key = tuple(tuple(sorted(a.key() for a in p)) for p in parts)
                return [Alt(tags, ("concat", key))]
            return self.fresh(tags, "concat")
        if short in ("where",) and len(e.args) == 1:
            return self.cls(e.args[0], env, tags)  # index array over the same rows (used as x[idx])
        if short in ("zeros", "empty", "ones", "arange", "permutation", "sample_ith", "new_point", "sample_unit_hypercube", "draw_proposal", "draw_latent_prior", "rand", "randn"):
            return self.fresh(tags, short)
        return None

    # ---- statements ---------------------------------------------------------
    def run(self):
        env = {}
        for p in self.fi.params():
            env[p] = [Alt((), ("param", p))]
        self.block(self.fi.node.body, env, frozenset())

    def block(self, stmts, env, tags):
        for s in stmts:
            self.stmt(s, env, tags)

    def assign(self, target, value_cls, env):
        if isinstance(target, ast.Name):
            if value_cls is None:
                env.pop(target.id, None)
            else:
                env[target.id] = value_cls
        elif isinstance(target, ast.Attribute):
            k = src(target)
            if value_cls is None:
                env.pop(k, None)
            else:
                env[k] = value_cls

    def joint(self, call, env, tags):
        """Joint filter call -> list of result classes (one per filtered array)."""
        short = (call_name(call) or "").split(".")[-1]
        args = list(call.args)
        if any(isinstance(a, ast.Starred) for a in args):
            return None
        self.n_joint += 1
        if JOINT_FILTERS[short] == "first-is-mask":
            mask, arrays = args[0], args[1:]
        else:
            mask, arrays = args[0], args
        mcls = self.cls(mask, env, tags)
        out = []
        mid = ("mask", f"{short}@{src(mask)[:40]}")
        for a in arrays:
            c = self.cls(a, env, tags)
            if c and mcls:
                cf = self.conflict(c, mcls)
                if cf:
                    self.report(call, f"`{src(call)[:90]}` filters `{src(a)}` (rows: {fmt(cf[0])}) together with arrays / a mask of differently filtered rows ({fmt(cf[1])}): not the same rows")
            out.append([Alt(x.tags | tags, x.root, x.filters + (mid,)) for x in c] if c else None)
        return out

    def stmt(self, s, env, tags):
        if isinstance(s, ast.Assign) and len(s.targets) == 1:
            t, v = s.targets[0], s.value
            if isinstance(v, ast.Call) and (call_name(v) or "").split(".")[-1] in JOINT_FILTERS:
                res = self.joint(v, env, tags)
                if isinstance(t, (ast.Tuple, ast.List)) and res is not None and len(t.elts) == len(res):
                    for te, r in zip(t.elts, res):
                        self.assign(te, r, env)
                elif res is not None and len(res) == 1:
                    self.assign(t, res[0], env)
                return
            if isinstance(t, (ast.Tuple, ast.List)):
                if isinstance(v, (ast.Tuple, ast.List)) and len(v.elts) == len(t.elts):
                    vals = [self.cls(x, env, tags) for x in v.elts]
                    for te, c in zip(t.elts, vals):
                        self.assign(te, c, env)
                else:
                    c = self.cls(v, env, tags)
                    for te in t.elts:
                        if isinstance(te, ast.Subscript):
                            self.subscript_store(te, c, env, tags, s)
                        else:
                            self.assign(te, c, env)
                return
            if isinstance(t, ast.Subscript):
                self.subscript_store(t, self.cls(v, env, tags), env, tags, s)
                return
            self.assign(t, self.cls(v, env, tags), env)
        elif isinstance(s, ast.AugAssign):
            a, b = self.cls(s.target, env, tags), self.cls(s.value, env, tags)
            if a and b:
                c = self.conflict(a, b)
                if c:
                    self.report(s, f"`{src(s)[:80]}` combines arrays whose rows are not aligned ({fmt(c[0])} vs {fmt(c[1])})")
        elif isinstance(s, ast.Expr):
            self.cls(s.value, env, tags)
        elif isinstance(s, ast.Return):
            if s.value is not None:
                if isinstance(s.value, ast.Tuple):
                    vals = [(x, self.cls(x, env, tags)) for x in s.value.elts]
                    known = [(x, c) for x, c in vals if c]
                    for (x1, c1), (x2, c2) in itertools.combinations(known, 2):
                        c = self.conflict(c1, c2)
                        if c:
                            self.report(s, f"returns `{src(x1)}` ({fmt(c[0])}) together with `{src(x2)}` ({fmt(c[1])}): rows are not aligned")
                else:
                    self.cls(s.value, env, tags)
        elif isinstance(s, ast.If):
            self.cls(s.test, env, tags)
            tid = ("if", s.lineno, s.col_offset)
            e1, e2 = dict(env), dict(env)
            self.block(s.body, e1, tags | {(tid, True)})
            self.block(s.orelse, e2, tags | {(tid, False)})
            t1 = bool(s.body) and isinstance(s.body[-1], (ast.Return, ast.Raise, ast.Continue, ast.Break))
            t2 = bool(s.orelse) and isinstance(s.orelse[-1], (ast.Return, ast.Raise, ast.Continue, ast.Break))
            for k in set(e1) | set(e2):
                a, b = e1.get(k), e2.get(k)
                if t1 and not t2:
                    new = b
                elif t2 and not t1:
                    new = a
                elif a is b:
                    new = a
                elif a is None or b is None:
                    new = None
                else:
                    ta = [Alt(x.tags | {(tid, True)}, x.root, x.filters) for x in a]
                    tb = [Alt(x.tags | {(tid, False)}, x.root, x.filters) for x in b]
                    new = ta + tb
                    if len(new) > 8:
                        new = self.fresh(tags, "merge")
                if new is None:
                    env.pop(k, None)
                else:
                    env[k] = new
        elif isinstance(s, (ast.For, ast.While)):
            self.block(s.body, env, tags)
            self.block(s.orelse, env, tags)
        elif isinstance(s, ast.With):
            self.block(s.body, env, tags)
        elif isinstance(s, ast.Try):
            self.block(s.body, env, tags)
            for h in s.handlers:
                self.block(h.body, dict(env), tags)
            self.block(s.orelse, env, tags)
            self.block(s.finalbody, env, tags)

    def subscript_store(self, t, vcls, env, tags, stmt):
        base = self.cls(t.value, env, tags)
        sl = t.slice
        if isinstance(sl, ast.Constant) and isinstance(sl.value, str):
            # x["field"] = v : v must describe the same rows as x
            if base and vcls:
                c = self.conflict(base, vcls)
                if c:
                    self.report(stmt, f"`{src(stmt)[:90]}` stores values computed for {fmt(c[1])} into the field of an array holding {fmt(c[0])}")
            return
        if isinstance(sl, ast.Tuple) and sl.elts and isinstance(sl.elts[0], ast.Slice) and sl.elts[0].lower is None and sl.elts[0].upper is None:
            if base and vcls:
                c = self.conflict(base, vcls)
                if c:
                    self.report(stmt, f"`{src(stmt)[:90]}` stores values computed for {fmt(c[1])} into columns of an array holding {fmt(c[0])}")


def fmt(a):
    root = a.root[1] if a.root[0] in ("param", "fresh") else a.root[0]
    f = " > ".join(x[1] for x in a.filters) or "unfiltered"
    return f"{root}: {f}"


def scan(prog, functions, ob):
    """ob(fn, node, ok, detail) per function (one ok obligation, or one per report)."""
    n_joint = n_index = 0
    for f in functions:
        reports = []
        chk = PairChecker(f, lambda node, msg: reports.append((node, msg)))
        chk.run()
        n_joint += chk.n_joint
        n_index += chk.n_index
        if chk.n_joint or chk.n_index:
            seen = set()
            for node, msg in reports:
                if msg in seen:
                    continue
                seen.add(msg)
                ob(f, node, False, msg)
            if not reports:
                ob(f, None, True, f"{chk.n_joint} joint filters and {chk.n_index} mask/index operations are row-aligned")
    return n_joint, n_index
