"""R-DERIVED: constructor-derived state must not go stale.

If `C.__init__` computes an attribute D from another attribute A of the same object (`self.D = f(self.A, ...)`) and no
other method of C ever recomputes D, then D is a *frozen function of A*: a later store to `<obj>.A` on an instance of
C (outside `__init__`) leaves D describing the old A.  The rule lists every such (class, A -> D) dependency and every
store to A on a receiver whose type resolves to C.
"""

import ast

from ..pm import src
from ..q import walk_no_nested
from ..resolve import resolver


def frozen_dependencies(prog):
    """{class: {A: [D, ...]}} for attributes D computed only in __init__ from self.A."""
    out = {}
    for c in prog.classes.values():
        init = c.methods.get("__init__")
        if init is None:
            continue
        deps = {}
        for s in walk_no_nested(init.node):
            if isinstance(s, ast.Assign) and len(s.targets) == 1 and isinstance(s.targets[0], ast.Attribute) and isinstance(s.targets[0].value, ast.Name) and s.targets[0].value.id == "self":
                d = s.targets[0].attr
                reads = {n.attr for n in ast.walk(s.value) if isinstance(n, ast.Attribute) and isinstance(n.value, ast.Name) and n.value.id == "self" and isinstance(n.ctx, ast.Load)}
                # only data attributes set earlier in the same constructor (not methods / properties)
                for a in reads:
                    if a != d and a not in c.methods and any(isinstance(t, ast.Assign) and any(src(x) == f"self.{a}" for x in t.targets) for t in walk_no_nested(init.node)):
                        deps.setdefault(a, set()).add(d)
        if not deps:
            continue
        # D must not be written anywhere else in the class (then it is not frozen)
        rewritten = set()
        for m in c.methods.values():
            if m is init:
                continue
            for n in walk_no_nested(m.node):
                if isinstance(n, ast.Attribute) and isinstance(n.ctx, ast.Store) and isinstance(n.value, ast.Name) and n.value.id == "self":
                    rewritten.add(n.attr)
        deps = {a: sorted(ds - rewritten) for a, ds in deps.items()}
        deps = {a: ds for a, ds in deps.items() if ds}
        if deps:
            out[c] = deps
    return out


def stale_stores(prog, only_classes=None):
    """[(function, store node, class, A, [D...])]: stores to A of an instance of a class with a frozen A -> D."""
    res = resolver(prog)
    deps = frozen_dependencies(prog)
    if only_classes is not None:
        deps = {c: d for c, d in deps.items() if c in only_classes}
    hits = []
    for f in prog.all_functions:
        for n in walk_no_nested(f.node):
            if not (isinstance(n, ast.Attribute) and isinstance(n.ctx, ast.Store)):
                continue
            recv = n.value
            if isinstance(recv, ast.Name) and recv.id == "self" and f.cls is not None:
                if f.name == "__init__":
                    continue
                types = {f.cls} | set(prog.mro(f.cls))
            else:
                try:
                    types = res.expr_type(f, recv) or set()
                except Exception:
                    types = set()
            for c in types:
                if c in deps and n.attr in deps[c]:
                    hits.append((f, n, c, n.attr, deps[c][n.attr]))
    return deps, hits
