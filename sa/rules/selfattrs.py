"""Interprocedural definedness of self-attributes: for a receiver class C and
an entry method E, does some path through E (following self.m(), super().m(),
property getters/setters on the same receiver) read `self.a` before anything
has written it?"""

import ast

from ..q import cfg_of, walk_no_nested
from ..resolve import resolver


class SelfAttrs:
    def __init__(self, prog, cls):
        self.prog = prog
        self.cls = cls  # receiver class: methods resolve through its MRO
        self.res = resolver(prog)
        self._needs = {}
        self._writes = {}

    def _selfname(self, f):
        return self.res.selfname(f)

    def _callee(self, f, call):
        """same-receiver callee of `call` inside f (self.m() / super().m())"""
        fn = call.func
        sn = self._selfname(f)
        if isinstance(fn, ast.Attribute):
            v = fn.value
            if isinstance(v, ast.Name) and v.id == sn:
                return self.prog.find_method(self.cls, fn.attr)
            if isinstance(v, ast.Call) and isinstance(v.func, ast.Name) and v.func.id == "super" and f.cls is not None:
                return self.prog.find_method(self.cls, fn.attr, after=f.cls)
        return None

    def node_events(self, f, cfg, node):
        """Ordered list of ('r'|'w', attr) and ('call', fn) events of one CFG node."""
        sn = self._selfname(f)
        ev = []
        parts = cfg.own_exprs(node.id)
        for part in parts:
            stores = []
            for n in _eval_order(part):
                if isinstance(n, ast.Attribute) and isinstance(n.value, ast.Name) and n.value.id == sn:
                    prop = self.prog.find_method(self.cls, n.attr)
                    if isinstance(n.ctx, ast.Store):
                        setter = self.prog.find_setter(self.cls, n.attr)
                        stores.append(("call", setter) if setter is not None else ("w", n.attr))
                    elif isinstance(n.ctx, ast.Del):
                        stores.append(("k", n.attr))
                    else:
                        if prop is not None and prop.is_property:
                            ev.append(("call", prop))
                        elif prop is None:
                            ev.append(("r", n.attr))
                elif isinstance(n, ast.Call):
                    if isinstance(n.func, ast.Name) and n.func.id in ("hasattr", "getattr") and len(n.args) >= 2:
                        continue
                    c = self._callee(f, n)
                    if c is not None and not c.is_property:
                        ev.append(("call", c))
            ev += stores  # targets are bound after the value is evaluated
        return ev

    def writes(self, f, _stack=()):
        """Attributes certainly written on every normal path through f (must-write)."""
        if f in self._writes:
            return self._writes[f]
        if f in _stack:
            return frozenset()
        cfg = cfg_of(f)
        gen = {}
        for node in cfg.nodes.values():
            w = set()
            if node.kind in ("stmt", "if", "while", "for", "with"):
                for k, x in self.node_events(f, cfg, node):
                    if k == "w":
                        w.add(x)
                    elif k == "call":
                        w |= self.writes(x, _stack + (f,))
            gen[node.id] = w
        ALL = None
        OUT = {n: None for n in cfg.nodes}
        OUT[cfg.entry] = frozenset()
        changed = True
        order = list(cfg.nodes)
        while changed:
            changed = False
            for n in order:
                if n == cfg.entry:
                    continue
                preds = [OUT[p] for p in cfg.g.predecessors(n) if OUT[p] is not None]
                if not preds:
                    continue
                acc = frozenset.intersection(*preds)
                out = acc | frozenset(gen[n])
                if out != OUT[n]:
                    OUT[n] = out
                    changed = True
        r = OUT[cfg.exit] if OUT[cfg.exit] is not None else frozenset()
        self._writes[f] = r
        return r

    def needs(self, f, attr, _stack=()):
        """Witness (function, node ast) of a read of self.attr that can execute
        before any write on some path through f, else None."""
        key = (f, attr)
        if key in self._needs:
            return self._needs[key]
        if f in _stack:
            return None
        cfg = cfg_of(f)
        # must-written-before at node entry
        wr = {}
        for node in cfg.nodes.values():
            w = False
            if node.kind in ("stmt", "if", "while", "for", "with"):
                for k, x in self.node_events(f, cfg, node):
                    if (k == "w" and x == attr) or (k == "call" and attr in self.writes(x)):
                        w = True
            wr[node.id] = w
        DEF = {n: True for n in cfg.nodes}
        DEF[cfg.entry] = False
        OUT = {n: True for n in cfg.nodes}
        OUT[cfg.entry] = False
        changed = True
        while changed:
            changed = False
            for n in cfg.nodes:
                if n == cfg.entry:
                    continue
                preds = list(cfg.g.predecessors(n))
                if not preds:
                    continue
                d = all(OUT[p] for p in preds)
                o = d or wr[n]
                if d != DEF[n] or o != OUT[n]:
                    DEF[n], OUT[n] = d, o
                    changed = True
        reach = cfg.reachable(cfg.entry)
        res = None
        for node in cfg.nodes.values():
            if node.id not in reach or node.kind not in ("stmt", "if", "while", "for", "with"):
                continue
            if DEF[node.id]:
                continue
            written = False
            for k, x in self.node_events(f, cfg, node):
                if written:
                    break
                if k == "r" and x == attr:
                    res = (f, node.ast)
                    break
                if k == "w" and x == attr:
                    written = True
                if k == "call":
                    sub = self.needs(x, attr, _stack + (f,))
                    if sub is not None:
                        res = sub
                        break
                    if attr in self.writes(x):
                        written = True
            if res:
                break
        self._needs[key] = res
        return res


def _eval_order(expr):
    """Sub-nodes in (approximate) evaluation order: children before parents,
    left to right; nested function bodies excluded."""
    out = []

    def rec(n):
        if isinstance(n, (ast.Lambda, ast.FunctionDef, ast.ClassDef)):
            return
        for ch in ast.iter_child_nodes(n):
            rec(ch)
        out.append(n)

    rec(expr)
    return out
