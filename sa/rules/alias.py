"""R-ALIAS: a value obtained from a property is modified in place only if the property hands out a fresh object.

`log_p = self.log_posterior_weights; log_p -= logsumexp(log_p)` is harmless as long as the getter computes a new array
on every call.  The moment the getter returns something it also keeps (a cached attribute, a stored list) the in-place
update rewrites the owner's state.  The rule pairs every in-place consumer of a property value with every getter of that
name and requires each getter to return a fresh object on all paths.
"""

import ast

from ..pm import src
from ..q import walk_no_nested
from ..resolve import resolver

_MUTATORS = ("fill", "sort", "put", "itemset", "resize", "partition", "append", "extend", "insert", "pop", "remove", "clear", "update", "reverse")


def _fresh_expr(fnode, e, depth=0):
    """(fresh?, why) - does evaluating e inside fnode create a new object that the owner does not keep?"""
    if depth > 6:
        return False, "too deep"
    if isinstance(e, (ast.BinOp, ast.UnaryOp, ast.Compare, ast.List, ast.Tuple, ast.Dict, ast.ListComp, ast.DictComp, ast.JoinedStr, ast.Constant)):
        return True, "computed value"
    if isinstance(e, ast.Call):
        nm = src(e.func)
        if nm == "getattr" and e.args and isinstance(e.args[0], ast.Name) and e.args[0].id == "self":
            return False, f"`{src(e)[:50]}` reads a stored attribute"
        short = nm.split(".")[-1]
        if short in ("asarray", "asanyarray", "atleast_1d", "atleast_2d", "ravel", "reshape", "squeeze", "view") and e.args:
            return _fresh_expr(fnode, e.args[0], depth + 1)
        return True, f"result of `{nm[:40]}(...)`"
    if isinstance(e, ast.IfExp):
        a, b = _fresh_expr(fnode, e.body, depth + 1), _fresh_expr(fnode, e.orelse, depth + 1)
        return (a[0] and b[0]), (a[1] if not a[0] else b[1])
    if isinstance(e, ast.Attribute):
        return False, f"`{src(e)[:50]}` is stored state"
    if isinstance(e, ast.Subscript):
        return False, f"`{src(e)[:50]}` is (a view of) stored state" if not _fresh_expr(fnode, e.value, depth + 1)[0] else (True, "element of a computed value")
    if isinstance(e, ast.Name):
        # kept by the owner?
        for s in walk_no_nested(fnode):
            if isinstance(s, ast.Assign) and isinstance(s.value, ast.Name) and s.value.id == e.id and any(isinstance(t, ast.Attribute) for t in s.targets):
                return False, f"`{src(s)[:50]}` keeps the returned object"
        defs = [s.value for s in walk_no_nested(fnode) if isinstance(s, ast.Assign) and any(isinstance(t, ast.Name) and t.id == e.id for t in s.targets)]
        if not defs:
            return False, f"`{e.id}` has no local definition"
        for d in defs:
            ok, why = _fresh_expr(fnode, d, depth + 1)
            if not ok:
                return False, why
        return True, "local computed in the call"
    return False, f"`{src(e)[:50]}`"


def fresh_getter(getter):
    rets = [r for r in walk_no_nested(getter.node) if isinstance(r, ast.Return) and r.value is not None]
    if not rets:
        return True, "returns nothing"
    for r in rets:
        ok, why = _fresh_expr(getter.node, r.value)
        if not ok:
            return False, why
    return True, "every return is a fresh object"


def _modified_in_place(fnode, name):
    for n in walk_no_nested(fnode):
        if isinstance(n, ast.AugAssign) and isinstance(n.target, ast.Name) and n.target.id == name and not getattr(n, "_from_assign", False):
            return n
        if isinstance(n, ast.Subscript) and isinstance(n.ctx, (ast.Store, ast.Del)):
            b = n.value
            while isinstance(b, ast.Subscript):
                b = b.value
            if isinstance(b, ast.Name) and b.id == name:
                return n
        if isinstance(n, ast.Call) and isinstance(n.func, ast.Attribute) and isinstance(n.func.value, ast.Name) and n.func.value.id == name and n.func.attr in _MUTATORS:
            return n
        if isinstance(n, ast.Call) and any(k.arg == "out" and isinstance(k.value, ast.Name) and k.value.id == name for k in n.keywords):
            return n
    return None


def scan(prog):
    """[(consumer function, modifying node, property name, [getters], ok, detail)]"""
    res = resolver(prog)
    getters = {}
    for f in prog.all_functions:
        if f.is_property and not f.is_setter and f.cls is not None:
            getters.setdefault(f.name, []).append(f)
    out = []
    for f in prog.all_functions:
        for s in walk_no_nested(f.node):
            if not (isinstance(s, ast.Assign) and len(s.targets) == 1 and isinstance(s.targets[0], ast.Name) and isinstance(s.value, ast.Attribute) and s.value.attr in getters):
                continue
            v = s.targets[0].id
            mod = _modified_in_place(f.node, v)
            if mod is None:
                continue
            try:
                tys = res.expr_type(f, s.value.value) or set()
            except Exception:
                tys = set()
            cands = []
            for c in tys:
                for k in [c] + prog.subclasses(c):
                    g = prog.find_method(k, s.value.attr)
                    if g is not None and g.is_property and g not in cands:
                        cands.append(g)
            if not cands:
                if tys:
                    continue  # typed receiver whose attribute is not a property
                cands = getters[s.value.attr]
            cands = [g for g in cands if not g.is_abstract and not (len(g.node.body) <= 2 and any(isinstance(x, ast.Raise) for x in g.node.body))]
            bad = [(g, fresh_getter(g)[1]) for g in cands if not fresh_getter(g)[0]]
            out.append((f, mod, s.value.attr, cands, not bad, f"`{src(s)}` then `{src(mod)[:50]}`; getters: {', '.join(g.short for g in cands)}" + (f"; {bad[0][0].short} does not hand out a fresh object: {bad[0][1]}" if bad else "")))
    return out


_FIX_BAD = """
class S:
    @property
    def w(self):
        v = getattr(self, "_w", None)
        if v is None:
            v = compute(self.a)
            self._w = v
        return v

    @property
    def n(self):
        p = self.w
        p -= norm(p)
        return f(p)
"""
_FIX_GOOD = _FIX_BAD.replace("            self._w = v\n", "").replace('v = getattr(self, "_w", None)\n        if v is None:\n            v = compute(self.a)', "v = compute(self.a)")


def self_check():
    import os, tempfile
    from ..pm import Program
    res = []
    for text in (_FIX_BAD, _FIX_GOOD):
        tree = ast.parse(text)
        cls = tree.body[0]
        getters = {f.name: f for f in cls.body if isinstance(f, ast.FunctionDef)}

        class G:  # minimal stand-in for FunctionInfo
            def __init__(self, node):
                self.node = node
        ok, _ = fresh_getter(G(getters["w"]))
        mod = _modified_in_place(getters["n"], "p")
        res.append((ok, mod is not None))
    return res == [(False, True), (True, True)]
