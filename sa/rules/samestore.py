"""R-PAIR (store level): the density table of a sample store is only ever (re)computed from that store's own samples.

Every statement outside OrderedSamples that assigns `<R>.log_q` for a store expression R ending in
`training_samples` / `iid_samples` must compute the value by a call whose first positional argument is
`<R>.samples` - the same R.  (The arrays of the two stores always have equal length, so a wrong store
passes every shape check.)"""

import ast

from ..pm import src
from ..q import walk_no_nested

STORE_ATTRS = ("training_samples", "iid_samples")
PRODUCERS = ("update_log_q", "compute_meta_proposal_samples")


def sites(prog, modules_prefix=("nessai.samplers", "nessai.proposal", "nessai.experimental")):
    """[(function, statement, store expression text, value call or None, index of the target in a tuple or None)]"""
    out = []
    for f in prog.all_functions:
        if not f.module.name.startswith(modules_prefix):
            continue
        for st in walk_no_nested(f.node):
            if not isinstance(st, ast.Assign):
                continue
            for t in st.targets:
                elts = list(t.elts) if isinstance(t, ast.Tuple) else [t]
                for i, e in enumerate(elts):
                    if isinstance(e, ast.Attribute) and e.attr == "log_q" and isinstance(e.value, ast.Attribute) and e.value.attr in STORE_ATTRS:
                        out.append((f, st, src(e.value), st.value if isinstance(st.value, ast.Call) else None, i if isinstance(t, ast.Tuple) else None))
    return out


def check(site):
    """(ok, detail) for one site."""
    f, st, store, call, idx = site
    if call is None or not isinstance(call.func, ast.Attribute) or call.func.attr not in PRODUCERS:
        return False, f"`{src(st)[:90]}`: not computed by update_log_q / compute_meta_proposal_samples"
    if not call.args or src(call.args[0]) != f"{store}.samples":
        return False, f"`{src(st)[:120]}`: densities of `{src(call.args[0]) if call.args else None}` stored as the table of `{store}`"
    if call.func.attr == "update_log_q" and (len(call.args) < 2 or src(call.args[1]) != f"{store}.log_q"):
        return False, f"`{src(st)[:120]}`: extends the table `{src(call.args[1]) if len(call.args) > 1 else None}` but stores it as the table of `{store}`"
    if call.func.attr == "compute_meta_proposal_samples" and idx != 1:
        return False, f"`{src(st)[:120]}`: compute_meta_proposal_samples returns (log Q, table); the table is element 1"
    return True, f"`{store}.log_q` from `{store}.samples`"
