"""R-PAIR (store level): the density table of a sample store is only ever (re)computed from that store's own samples.

Every statement outside OrderedSamples that assigns `<R>.log_q` for a store expression R ending in
`training_samples` / `iid_samples` must compute the value by a call whose first positional argument is
`<R>.samples` - the same R.  (The arrays of the two stores always have equal length, so a wrong store
passes every shape check.)"""

import ast

from ..pm import src
from ..q import walk_no_nested

STORE_ATTRS = ("training_samples", "iid_samples")
PRODUCERS = ("update_log_q", "compute_meta_proposal_samples")


def sites(prog, modules_prefix=("nessai.samplers", "nessai.proposal", "nessai.experimental")):
    """[(function, statement, store expression text, value call or None, index of the target in a tuple or None)]"""
    out = []
    for f in prog.all_functions:
        if not f.module.name.startswith(modules_prefix):
            continue
        for st in walk_no_nested(f.node):
            if not isinstance(st, ast.Assign):
                continue
            for t in st.targets:
                elts = list(t.elts) if isinstance(t, ast.Tuple) else [t]
                for i, e in enumerate(elts):
                    if isinstance(e, ast.Attribute) and e.attr == "log_q" and isinstance(e.value, ast.Attribute) and e.value.attr in STORE_ATTRS:
                        val, idx = st.value, (i if isinstance(t, ast.Tuple) else None)
                        # through a local bound exactly once, by a tuple unpacking of the producing call:
                        # `_, log_q = p.compute_meta_proposal_samples(S.samples); S.log_q = log_q`
                        if isinstance(val, ast.Name) and idx is None:
                            binds = [(s2, j) for s2 in walk_no_nested(f.node) if isinstance(s2, ast.Assign) for t2 in s2.targets for j, e2 in enumerate(t2.elts if isinstance(t2, ast.Tuple) else [t2]) if isinstance(e2, ast.Name) and e2.id == val.id]
                            if len(binds) > 1:
                                # several bindings (the same helper inlined twice): the one just before this statement
                                prev = None
                                for owner in ast.walk(f.node):
                                    for fld in ("body", "orelse", "finalbody"):
                                        blk = getattr(owner, fld, None)
                                        if isinstance(blk, list) and st in blk and blk.index(st) > 0:
                                            prev = blk[blk.index(st) - 1]
                                binds = [b for b in binds if b[0] is prev]
                            if len(binds) == 1 and isinstance(binds[0][0].value, ast.Call):
                                s2, j = binds[0]
                                val, idx = s2.value, (j if isinstance(s2.targets[0], ast.Tuple) else None)
                        out.append((f, st, src(e.value), val if isinstance(val, ast.Call) else None, idx))
    return out


def check(site):
    """(ok, detail) for one site."""
    f, st, store, call, idx = site
    if call is None or not isinstance(call.func, ast.Attribute) or call.func.attr not in PRODUCERS:
        return False, f"`{src(st)[:90]}`: not computed by update_log_q / compute_meta_proposal_samples"
    if not call.args or src(call.args[0]) != f"{store}.samples":
        return False, f"`{src(st)[:120]}`: densities of `{src(call.args[0]) if call.args else None}` stored as the table of `{store}`"
    if call.func.attr == "update_log_q" and (len(call.args) < 2 or src(call.args[1]) != f"{store}.log_q"):
        return False, f"`{src(st)[:120]}`: extends the table `{src(call.args[1]) if len(call.args) > 1 else None}` but stores it as the table of `{store}`"
    if call.func.attr == "compute_meta_proposal_samples" and idx != 1:
        return False, f"`{src(st)[:120]}`: compute_meta_proposal_samples returns (log Q, table); the table is element 1"
    return True, f"`{store}.log_q` from `{store}.samples`"
