"""R-NONNULL: the file handed to a weights loader is a path, never None.

`torch.load(None)` raises AttributeError, which is in no caller's `except` tuple: the recovery logic on the resume path
(`FlowProposal.resume` restores `<weights>.old` when loading raises RuntimeError / OSError / EOFError / UnpicklingError)
is bypassed and a run that has a complete previous checkpoint on disk cannot be resumed.  The rule is a small
interprocedural may-be-None analysis for the argument of every loader call:

  * a literal / f-string / path expression is a path;
  * an expression that the branch guards of the call establish as non-None (`e is not None`, truthiness of `e`,
    `e not in (None, ...)`, `os.path.exists(e)`) is a path;
  * a parameter is what the callers pass (every in-package call site, recursively; an omitted argument is its default);
    after the defaulting idiom `if p is None: p = E` it is `p` where the callers pass a non-None value and `E` only if
    some caller can pass None;
  * an attribute that is None anywhere in its class (`self.a = None`) may be None unless guarded;
  * a loop variable, a call result or anything else is taken as a path (the rule is about None, not about validity).
"""

import ast

from ..pm import src
from ..q import FA, guard_facts, walk_no_nested
from ..resolve import resolver

LOADERS = ("load_weights", "reload_weights")


def _is_none(e):
    return isinstance(e, ast.Constant) and e.value is None


def known_nonnull(facts, e) -> bool:
    t = src(e)
    for test, truth in facts:
        if truth and src(test) == t:
            return True
        if isinstance(test, ast.Compare) and len(test.ops) == 1 and src(test.left) == t:
            op, r = test.ops[0], test.comparators[0]
            if isinstance(op, ast.Is) and _is_none(r) and not truth:
                return True
            if isinstance(op, ast.In) and not truth and isinstance(r, (ast.Tuple, ast.List, ast.Set)) and any(_is_none(x) for x in r.elts):
                return True
            if isinstance(op, ast.Eq) and truth and isinstance(r, ast.Constant) and r.value is not None:
                return True
        if truth and isinstance(test, ast.Call) and src(test.func) in ("os.path.exists", "os.path.isfile", "path.exists", "exists", "isfile") and test.args and src(test.args[0]) == t:
            return True
    return False


def _attr_may_be_none(prog, cls, attr, initialisers=None):
    """Is `self.<attr> = None` written anywhere in the class family?  With `initialisers` ({class qual: method names} - the
    documented first operation of a store, which every history starts with), a None written by `__init__` does not count
    if such a method stores a non-None value into the attribute on every normal path."""
    init_sets = False
    for k in prog.mro(cls):
        for name in (initialisers or {}).get(k.qual, ()):
            m = k.methods.get(name)
            if m is not None:
                fa = FA(m)
                st = fa.find(lambda x: isinstance(x, ast.Assign) and not _is_none(x.value) and any(isinstance(t, ast.Attribute) and isinstance(t.value, ast.Name) and t.value.id == "self" and t.attr == attr for t in x.targets))
                if st and fa.cfg.every_exit_path_passes(fa.cfg.entry, st):
                    init_sets = True
    for k in [cls] + prog.subclasses(cls) + prog.mro(cls):
        v0 = k.class_attrs.get(attr)
        if v0 is not None and _is_none(v0) and not init_sets:
            return True  # the class-level default `attr = None`
        for m in list(k.methods.values()) + list(getattr(k, 'setters', {}).values()):
            if init_sets and m.name == "__init__":
                continue
            for s in walk_no_nested(m.node):
                if isinstance(s, ast.Assign) and _is_none(s.value) and any(isinstance(t, ast.Attribute) and isinstance(t.value, ast.Name) and t.value.id == "self" and t.attr == attr for t in s.targets):
                    return True
    return False


def _call_sites(prog, g):
    """[(caller, FA, node id, call)] of in-package calls that may resolve to g."""
    res = resolver(prog)
    out = []
    for f in prog.all_functions:
        if not any(isinstance(n, ast.Attribute) and n.attr == g.name or isinstance(n, ast.Name) and n.id == g.name for n in walk_no_nested(f.node)):
            continue
        fa = FA(f)
        for nid, c in fa.find_expr(lambda e: isinstance(e, ast.Call)):
            nm = c.func.attr if isinstance(c.func, ast.Attribute) else (c.func.id if isinstance(c.func, ast.Name) else None)
            if nm != g.name:
                continue
            tg = res.resolve_call(f, c, count=False)
            if tg is None or any(h.qual == g.qual or (h.name == g.name and g.cls is not None and h.cls is not None and (h.cls in prog.mro(g.cls) or g.cls in prog.mro(h.cls))) for h in tg):
                out.append((f, fa, nid, c))
    return out


def _passed(call, g, pname):
    """Expression a call passes for parameter pname of g ('default' node if omitted, None if it cannot be told)."""
    a = g.node.args
    names = [x.arg for x in a.posonlyargs + a.args]
    if names and names[0] in ("self", "cls") and g.cls is not None and not g.is_static:
        names = names[1:]
    if any(isinstance(x, ast.Starred) for x in call.args) or any(k.arg is None for k in call.keywords):
        return None
    for k in call.keywords:
        if k.arg == pname:
            return k.value
    if pname in names and names.index(pname) < len(call.args):
        return call.args[names.index(pname)]
    allp = [x.arg for x in a.posonlyargs + a.args]
    defaults = dict(zip(allp[len(allp) - len(a.defaults):], a.defaults))
    for x, d in zip(a.kwonlyargs, a.kw_defaults):
        if d is not None:
            defaults[x.arg] = d
    return defaults.get(pname)


def may_be_none(prog, f, fa, nid, e, depth=0, seen=()):
    """(bool, reason) - may expression e be None when node nid of f executes?"""
    if depth > 4:
        return False, "depth"
    facts = guard_facts(fa, nid)
    if _is_none(e):
        return True, "the literal None"
    if known_nonnull(facts, e):
        return False, "guarded"
    if isinstance(e, (ast.Constant, ast.JoinedStr, ast.BinOp, ast.Call, ast.Subscript)):
        return False, "a value"
    if isinstance(e, ast.Attribute) and isinstance(e.value, ast.Name) and e.value.id == "self" and f.cls is not None:
        if _attr_may_be_none(prog, f.cls, e.attr):
            return True, f"`{src(e)}` is None until it is set (`self.{e.attr} = None` in {f.cls.name}) and no guard of this call excludes it"
        return False, "attribute never None"
    if isinstance(e, ast.Name):
        stores = [s for s in walk_no_nested(f.node) if isinstance(s, ast.Assign) and any(isinstance(t, ast.Name) and t.id == e.id for t in s.targets)]
        is_param = e.id in f.params()
        reasons = []
        if is_param and (f.qual, e.id) not in seen:
            sites = _call_sites(prog, f)
            for cf, cfa, cnid, c in sites:
                p = _passed(c, f, e.id)
                if p is None:
                    continue
                mb, why = may_be_none(prog, cf, cfa, cnid, p, depth + 1, seen + ((f.qual, e.id),))
                if mb:
                    reasons.append(f"{cf.short} passes `{src(p)}` ({why})")
            if not sites:
                a = f.node.args
                allp = [x.arg for x in a.posonlyargs + a.args]
                d = dict(zip(allp[len(allp) - len(a.defaults):], a.defaults)).get(e.id)
                if d is not None and _is_none(d):
                    reasons.append(f"`{e.id}` defaults to None and {f.short} has no in-package caller")
        if not stores:
            return (bool(reasons), "; ".join(reasons[:2])) if is_param else (False, "unbound local")
        out, defaulted = [], False
        for s in stores:
            snid = next((i for i in fa.find(lambda x, s=s: x is s)), None)
            sf = guard_facts(fa, snid) if snid is not None else []
            defaulting = any(isinstance(t, ast.Compare) and len(t.ops) == 1 and isinstance(t.ops[0], ast.Is) and src(t.left) == e.id and _is_none(t.comparators[0]) and tr for t, tr in sf)
            if defaulting and is_param and not reasons:
                continue  # no caller can pass None: the defaulting branch never runs
            mb, why = may_be_none(prog, f, fa, snid if snid is not None else nid, s.value, depth + 1, seen)
            if mb:
                out.append(f"`{src(s)[:60]}`: {why}")
            if defaulting:
                defaulted = True  # the None case of the parameter is replaced by this value (judged just above)
        if is_param and reasons and not defaulted:
            out += reasons
        return (bool(out), "; ".join(out[:2]))
    return False, "other"


def scan(prog):
    """[(function, call, ok, detail)] for every weights-loader call in the package."""
    out = []
    for f in prog.all_functions:
        if not any(isinstance(n, ast.Attribute) and (n.attr in LOADERS or n.attr == "load") for n in walk_no_nested(f.node)):
            continue
        fa = FA(f)
        for nid, c in fa.find_expr(lambda e: isinstance(e, ast.Call) and isinstance(e.func, ast.Attribute)):
            nm = c.func.attr
            if not (nm in LOADERS or (nm == "load" and src(c.func.value) == "torch")):
                continue
            if c.args:
                a = c.args[0]
            else:
                a = next((k.value for k in c.keywords if k.arg in ("weights_file", "f")), None)
            if a is None:
                # reload_weights() with no argument: the internal weights file
                g = [h for h in (resolver(prog).resolve_call(f, c, count=False) or []) if h.name == "reload_weights"]
                if not g:
                    continue
                a = ast.Constant(value=None)
            mb, why = may_be_none(prog, f, fa, nid, a)
            if nm == "reload_weights" and mb:
                # reload_weights(None) falls back to the model's own weights file: that is its documented default, and
                # the load inside it is judged at its own call site
                continue
            out.append((f, c, not mb, f"`{src(c)[:80]}`" + (f": {why}" if mb else "")))
    return out


def index_uses(prog, initialisers=None):
    """[(function, subscript, ok, detail)]: every `X[self.a]` in the package.  numpy reads a None index as np.newaxis - the
    result silently gains an axis instead of failing - so an attribute that is None anywhere in its class is used as an
    index only where the guards of the use exclude None."""
    out = []
    for f in prog.all_functions:
        if f.cls is None:
            continue
        fa = None
        for s in walk_no_nested(f.node):
            if not (isinstance(s, ast.Subscript) and isinstance(s.ctx, ast.Load) and isinstance(s.slice, ast.Attribute) and isinstance(s.slice.value, ast.Name) and s.slice.value.id == "self"):
                continue
            a = s.slice.attr
            if not _attr_may_be_none(prog, f.cls, a, initialisers):
                out.append((f, s, True, f"`{src(s)[:70]}`: `self.{a}` is never None in {f.cls.name}"))
                continue
            fa = fa or FA(f)
            nid = [i for i, e in fa.find_expr(lambda e: e is s)]
            ok = bool(nid) and known_nonnull(guard_facts(fa, nid[0]), s.slice)
            if not ok and nid:
                # ... or a non-None store earlier in the same function on every path
                for sid in fa.find(lambda x: isinstance(x, ast.Assign) and not _is_none(x.value) and any(src(t) == src(s.slice) for t in x.targets)):
                    if sid != nid[0] and fa.dominates(sid, nid[0]):
                        ok = True
            out.append((f, s, ok, f"`{src(s)[:70]}`" + ("" if ok else f": `self.{a}` can be None here (it is assigned None in {f.cls.name}); numpy treats a None index as a new axis")))
    return out
