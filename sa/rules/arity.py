"""R-ARITY: the number of values a resolved in-package callee returns matches
how the caller unpacks / uses the result."""

import ast

from ..pm import src
from ..q import walk_no_nested
from ..resolve import resolver


def return_arity(g):
    """k if every `return` of g is a tuple literal of length k, 0 if g never returns a tuple, None if mixed."""
    ks = set()
    for n in walk_no_nested(g.node):
        if isinstance(n, ast.Return) and n.value is not None:
            if isinstance(n.value, ast.Tuple) and not any(isinstance(e, ast.Starred) for e in n.value.elts):
                ks.add(len(n.value.elts))
            elif isinstance(n.value, ast.Constant) and n.value.value is None:
                continue
            else:
                ks.add(0)
    if not ks:
        return 0
    if len(ks) == 1:
        return ks.pop()
    return None


def scan(prog, functions, ob):
    res = resolver(prog)
    n = 0
    for f in functions:
        for st in walk_no_nested(f.node):
            if not (isinstance(st, ast.Assign) and len(st.targets) == 1 and isinstance(st.value, ast.Call)):
                continue
            callees = res.resolve_call(f, st.value, count=False)
            if not callees or any(g.is_property or g.name == "__init__" for g in callees):
                continue
            ars = {return_arity(g) for g in callees}
            if len(ars) != 1 or None in ars:
                continue
            k = ars.pop()
            t = st.targets[0]
            if isinstance(t, (ast.Tuple, ast.List)) and not any(isinstance(e, ast.Starred) for e in t.elts):
                if k == 0:
                    continue  # callee returns a single object that may itself be iterable
                n += 1
                ob(f, st, callees[0], len(t.elts) == k, f"`{src(st)[:90]}` unpacks {len(t.elts)} values but `{callees[0].short}` returns {k}")
            elif isinstance(t, ast.Name) and k >= 2:
                uses = []
                for x in walk_no_nested(f.node):
                    if isinstance(x, ast.Subscript) and isinstance(x.value, ast.Name) and x.value.id == t.id and isinstance(x.slice, ast.Constant) and isinstance(x.slice.value, str):
                        uses.append(src(x))
                    if isinstance(x, ast.Attribute) and isinstance(x.value, ast.Name) and x.value.id == t.id and x.attr in ("size", "shape", "dtype", "ndim"):
                        uses.append(src(x))
                rebinds = sum(1 for x in walk_no_nested(f.node) if isinstance(x, ast.Name) and x.id == t.id and isinstance(x.ctx, ast.Store))
                if rebinds == 1:
                    n += 1
                    ob(f, st, callees[0], not uses, f"`{t.id}` is the {k}-tuple returned by `{callees[0].short}` but is used as an array: {uses[:3]}")
    return n
