"""Memoised getters: what a property computes, whether it is cached, and whether the cache is invalidated.

    v = self._c            (or getattr(self, "_c", None))
    if v is None:
        v = E ; self._c = v
    return v

is the getter `return E` as long as `self._c` is reset to None after every store into an attribute E depends on
(properties of the same class read by E are expanded to the attributes they read).  `value_of(prog, getter)` returns the
expression E, the cache slot (or None for a plain getter) and the list of invalidation problems."""

import ast

from ..canon import canon
from ..pm import src
from ..q import FA, conjuncts, walk_no_nested
from ..summ import summarise


def _none_test(e):
    """slot text if e is `<slot> is None` (after substitution: `self._c is None` / `getattr(self, '_c', None) is None`)."""
    if isinstance(e, ast.Compare) and len(e.ops) == 1 and isinstance(e.ops[0], ast.Is) and isinstance(e.comparators[0], ast.Constant) and e.comparators[0].value is None:
        l = e.left
        if isinstance(l, ast.Attribute) and isinstance(l.value, ast.Name) and l.value.id == "self":
            return l.attr
        if isinstance(l, ast.Call) and isinstance(l.func, ast.Name) and l.func.id == "getattr" and len(l.args) >= 2 and src(l.args[0]) == "self" and isinstance(l.args[1], ast.Constant):
            return l.args[1].value
    return None


def _is_slot_read(e, slot):
    return (isinstance(e, ast.Attribute) and isinstance(e.value, ast.Name) and e.value.id == "self" and e.attr == slot) or (
        isinstance(e, ast.Call) and isinstance(e.func, ast.Name) and e.func.id == "getattr" and len(e.args) >= 2 and src(e.args[0]) == "self" and isinstance(e.args[1], ast.Constant) and e.args[1].value == slot)


def _inputs(prog, cls, expr, depth=0):
    """self attributes the expression reads, with same-class properties expanded."""
    out = set()
    for n in ast.walk(expr):
        if isinstance(n, ast.Attribute) and isinstance(n.value, ast.Name) and n.value.id == "self":
            m = prog.find_method(cls, n.attr)
            if m is not None and m.is_property and depth < 3:
                for r in walk_no_nested(m.node):
                    if isinstance(r, ast.Return) and r.value is not None:
                        out |= _inputs(prog, cls, r.value, depth + 1)
            else:
                out.add(n.attr)
    return out


def value_of(prog, getter):
    """(E or None, slot or None, [problems])"""
    paths = [p for p in summarise(getter.node) if p.end == "return" and p.ret is not None]
    if not paths:
        return None, None, ["no returning path"]
    texts = {canon(p.ret) for p in paths}
    if len(texts) == 1 and not any(_none_test(e) for p in paths for t, tr in p.guards for e, _ in conjuncts(t, tr)):
        return paths[0].ret, None, []
    slot, fill, hit = None, [], []
    for p in paths:
        s = None
        truth = None
        for t, tr in p.guards:
            for e, v in conjuncts(t, tr):
                k = _none_test(e)
                if k is not None:
                    s, truth = k, v
        if s is None:
            return None, None, [f"path returning `{src(p.ret)[:60]}` is neither the cache fill nor the cache hit"]
        slot = slot or s
        if s != slot:
            return None, None, ["two cache slots"]
        (fill if truth else hit).append(p)
    if not fill or not hit:
        return None, slot, ["cache filled or read on no path"]
    E = fill[0].ret
    problems = []
    for p in fill:
        if canon(p.ret) != canon(E):
            problems.append("the fill paths compute different values")
        stored = p.env.get("self." + slot)
        if stored is None or canon(stored) != canon(E):
            problems.append(f"the fill path returns `{src(p.ret)[:50]}` but stores `{src(stored)[:50] if stored is not None else None}` in the cache")
    for p in hit:
        if not _is_slot_read(p.ret, slot):
            problems.append(f"the hit path returns `{src(p.ret)[:50]}`, not the cache")
    # invalidation
    cls = getter.cls
    ins = _inputs(prog, cls, E) - {slot}
    for k in [cls] + prog.subclasses(cls):
        for m in list(k.methods.values()) + list(getattr(k, "setters", {}).values()):
            if m is getter:
                continue
            fa = None
            for s in walk_no_nested(m.node):
                tg = []
                if isinstance(s, ast.Assign):
                    tg = [x for t in s.targets for x in (t.elts if isinstance(t, ast.Tuple) else [t])]
                elif isinstance(s, ast.AugAssign):
                    tg = [s.target]
                hits = []
                for t in tg:
                    b = t
                    while isinstance(b, ast.Subscript):
                        b = b.value
                    if isinstance(b, ast.Attribute) and isinstance(b.value, ast.Name) and b.value.id == "self" and b.attr in ins:
                        hits.append(b.attr)
                if not hits:
                    continue
                fa = fa or FA(m)
                sid = next(iter(fa.find(lambda x, s=s: x is s)), None)
                resets = fa.find(lambda x: isinstance(x, ast.Assign) and isinstance(x.value, ast.Constant) and x.value.value is None and any(isinstance(t, ast.Attribute) and isinstance(t.value, ast.Name) and t.value.id == "self" and t.attr == slot for t in x.targets))
                if sid is None or not resets or not (sid in resets or fa.every_path_from_passes(sid, resets)):
                    problems.append(f"{m.short} stores `self.{hits[0]}` (read by the cached expression) without resetting `self.{slot}` afterwards on every path")
    return E, slot, sorted(set(problems))
