"""R-SPACE: data-space / latent-space typing of the points handed to the flow interface.

A name is DATA after being bound to the output of sample / inverse / sample_and_log_prob (first element), LATENT
after forward / forward_and_log_prob (first element) / sample_latent_distribution; inside the flow-model modules the
parameters called `x` and `z` start as DATA and LATENT.  log_prob / forward / forward_and_log_prob consume DATA,
inverse / base_distribution_log_prob consume LATENT.  A statement-ordered walk with re-binding (joins of different
types become unknown) reports a point of the wrong space reaching a consumer."""

import ast

from ..pm import src
from ..q import cfg_of, walk_no_nested

DATA, LATENT = "data", "latent"
PRODUCE_FIRST = {"forward_and_log_prob": LATENT, "forward": LATENT, "_transform": LATENT, "sample_and_log_prob": DATA, "inverse": DATA}
PRODUCE = {"sample_latent_distribution": LATENT, "sample": DATA, "sample_ith": DATA}
CONSUME = {"log_prob": DATA, "forward_and_log_prob": DATA, "forward": DATA, "log_prob_ith": DATA, "log_prob_all": DATA, "inverse": LATENT, "base_distribution_log_prob": LATENT}


def _attr_name(call):
    f = call.func
    if isinstance(f, ast.Attribute):
        return f.attr
    return None


def _is_flow_receiver(call):
    """receiver looks like a flow / flow model: self, super(), self.model, self.flow, self._transform ... (not a torch distribution)"""
    f = call.func
    if not isinstance(f, ast.Attribute):
        return False
    r = src(f.value)
    return r in ("self", "super()", "self.model", "self.flow", "m", "self.models[i]") or r.endswith((".flow", ".model")) or f.attr == "_transform"


def analyse(fi, param_types=None):
    """[(node, message)] for fi."""
    cfg = cfg_of(fi)
    env0 = dict(param_types or {})
    IN = {n: None for n in cfg.nodes}
    IN[cfg.entry] = env0
    order = list(cfg.nodes)
    reports = {}

    def transfer(node, env):
        env = dict(env)
        st = node.ast
        for part in cfg.own_exprs(node.id):
            for c in walk_no_nested(part):
                if isinstance(c, ast.Call) and _is_flow_receiver(c):
                    nm = _attr_name(c)
                    want = CONSUME.get(nm)
                    if want and c.args and isinstance(c.args[0], ast.Name):
                        have = env.get(c.args[0].id)
                        if have is not None and have != want:
                            reports[id(c)] = (c, f"`{src(c)[:70]}`: `{c.args[0].id}` holds a {have}-space point here but {nm} takes a {want}-space point")
                    for k in c.keywords:
                        if k.arg == "z" and isinstance(k.value, ast.Name) and env.get(k.value.id) == DATA:
                            reports[id(c)] = (c, f"`{src(c)[:70]}`: `{k.value.id}` holds a data-space point but is passed as the latent point z")
        if node.kind == "stmt" and isinstance(st, ast.Assign) and len(st.targets) == 1:
            t, v = st.targets[0], st.value
            ty = None
            first = None
            if isinstance(v, ast.Call) and _is_flow_receiver(v):
                nm = _attr_name(v)
                if nm in PRODUCE_FIRST:
                    first = PRODUCE_FIRST[nm]
                elif nm in PRODUCE:
                    ty = PRODUCE[nm]
            if isinstance(t, ast.Name):
                env[t.id] = ty if first is None else None
            elif isinstance(t, ast.Tuple):
                for i, e in enumerate(t.elts):
                    if isinstance(e, ast.Name):
                        env[e.id] = first if i == 0 else None
        elif node.kind == "stmt" and isinstance(st, (ast.AugAssign, ast.AnnAssign)) and isinstance(st.target, ast.Name):
            pass
        return env

    changed = True
    it = 0
    while changed and it < 50:
        changed = False
        it += 1
        for n in order:
            if IN[n] is None:
                continue
            out = transfer(cfg.nodes[n], IN[n]) if cfg.nodes[n].kind in ("stmt", "if", "while", "for", "with") else IN[n]
            for s in cfg.g.successors(n):
                if IN[s] is None:
                    IN[s] = dict(out)
                    changed = True
                else:
                    new = {k: (v if out.get(k) == v else None) for k, v in IN[s].items()}
                    for k in out:
                        if k not in IN[s]:
                            new[k] = None
                    if new != IN[s]:
                        IN[s] = new
                        changed = True
    return list(reports.values())
