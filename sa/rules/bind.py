"""R-BIND: the optimiser of a flow model is bound to the parameters of the *current* flow.

`FlowModel.get_optimiser` builds the optimiser over `self.model.parameters()`.  Whenever a function changes what
`self.model` denotes - a store to `self.model`, or (importance flow model, where `model` is `self.models[-1]`) an
append to / re-creation of `self.models` - every path from that statement to the function's normal exit must pass
through `self._optimiser = self.get_optimiser()`, directly or through a method that does so on every one of its own
paths.  Otherwise the next `_optimiser.step()` moves the parameters of an earlier, already *saved* flow whose
densities are stored in the samplers' tables, and the flow that is meant to be trained never changes.
"""

import ast

from ..pm import src
from ..q import FA, call_name, walk_no_nested
from ..resolve import resolver


def _is_rebind_stmt(s):
    return isinstance(s, ast.Assign) and any(src(t) == "self._optimiser" for t in s.targets) and isinstance(s.value, ast.Call) and (call_name(s.value) or "") == "self.get_optimiser"


def always_rebinds(prog, f, _seen=None):
    """Every normal path of method f assigns self._optimiser = self.get_optimiser(...)."""
    _seen = _seen or set()
    if f.qual in _seen:
        return False
    fa = FA(f)
    via = rebind_nodes(prog, f, fa, _seen | {f.qual})
    return bool(via) and fa.cfg.every_exit_path_passes(fa.cfg.entry, via)


def rebind_nodes(prog, f, fa, _seen=None):
    res = resolver(prog)
    out = list(fa.find(_is_rebind_stmt))
    for nid, c in fa.find_expr(lambda e: isinstance(e, ast.Call) and isinstance(e.func, ast.Attribute) and isinstance(e.func.value, ast.Name) and e.func.value.id == "self"):
        callees = [g for g in (res.resolve_call(f, c, count=False) or []) if g.cls is not None]
        if callees and all(always_rebinds(prog, g, _seen or {f.qual}) for g in callees):
            out.append(nid)
    return sorted(set(out))


def model_changes(f):
    """Statements of f after which `self.model` denotes a different module."""
    out = []
    for s in walk_no_nested(f.node):
        if isinstance(s, ast.Assign) and any(src(t) in ("self.model", "self.models") for t in s.targets):
            out.append((s, f"`{src(s)[:70]}`"))
        elif isinstance(s, ast.Expr) and isinstance(s.value, ast.Call) and (call_name(s.value) or "") in ("self.models.append", "self.models.insert", "self.models.extend"):
            out.append((s, f"`{src(s)[:70]}`"))
    return out


def passing_nodes(prog, K, f, fa, pred, _seen=None):
    """CFG nodes of f (a method executed on an instance of class K) that satisfy `pred(stmt)` themselves, or call a
    method `self.m(...)` whose implementation *for K* (resolved through K's MRO, so overrides count) passes such a
    statement on every one of its normal paths."""
    _seen = _seen or {f.qual}
    out = list(fa.find(pred))
    for nid, c in fa.find_expr(lambda e: isinstance(e, ast.Call) and isinstance(e.func, ast.Attribute) and isinstance(e.func.value, ast.Name) and e.func.value.id == "self"):
        g = prog.find_method(K, c.func.attr)
        if g is None or g.qual in _seen or g.is_property:
            continue
        ga = FA(g)
        via = passing_nodes(prog, K, g, ga, pred, _seen | {g.qual})
        if via and ga.cfg.every_exit_path_passes(ga.cfg.entry, via):
            out.append(nid)
    for nid, c in fa.find_expr(lambda e: isinstance(e, ast.Call) and isinstance(e.func, ast.Attribute) and isinstance(e.func.value, ast.Call) and isinstance(e.func.value.func, ast.Name) and e.func.value.func.id == "super"):
        g = prog.find_method(K, c.func.attr, after=f.cls) if f.cls is not None else None
        if g is None or g.qual in _seen:
            continue
        ga = FA(g)
        via = passing_nodes(prog, K, g, ga, pred, _seen | {g.qual})
        if via and ga.cfg.every_exit_path_passes(ga.cfg.entry, via):
            out.append(nid)
    return sorted(set(out))
