"""R-SIGN: Jacobian-direction typing.

A map from the data side to the latent / prime side (forward) returns
log|d latent / d data|, which is *added* to a latent-side log-density to give
the data-side density; a map from the latent / prime side to the data side
(inverse) returns log|d data / d latent|, which is *subtracted*.  The rule
tags the Jacobian result of every directional call and checks the sign with
which it enters every additive expression (directly, through `+=`/`-=`
accumulators, or as an argument of a callee whose parameter is then checked).
"""

import ast

from ..pm import dotted, src
from ..q import call_name, walk_no_nested

_SHAPE_FUNCS = ("sum", "copy", "squeeze", "flatten", "astype", "expand_dims", "atleast_1d", "atleast_2d", "asarray", "reshape", "ravel")

FWD = "forward (data -> latent/prime): enters with +"
INV = "inverse (latent/prime -> data): enters with -"

FORWARD_NAMES = {"forward", "rescale", "to_prime", "_transform", "_base_rescale", "_augmented_rescale"}
INVERSE_NAMES = {"inverse", "inverse_rescale", "from_prime"}


def direction_of(call):
    f = call.func
    if isinstance(f, ast.Attribute):
        if f.attr in FORWARD_NAMES:
            return FWD
        if f.attr in INVERSE_NAMES:
            return INV
        # self._transform.forward / .inverse
        return None
    return None


class SignResult:
    def __init__(self):
        self.sources = []  # (node, var, tag)
        self.uses = []  # (node, var, tag, sign, text)
        self.passed = []  # (call, kw/pos, var, tag)
        self.mask_only = []  # (var, tag)
        self.unused = []  # (var, tag, node)
        self.bad = []  # (node, message)
        self.origin = {}  # var -> text of the directional call it came from


def analyse(fi, param_tags=None):
    """param_tags: {param name: tag} for Jacobian parameters tagged from the call sites."""
    res = SignResult()
    tags = dict(param_tags or {})
    for k_ in tags:
        res.origin[k_] = f"parameter {k_}"
    stmts = sorted([s for s in walk_no_nested(fi.node) if isinstance(s, ast.stmt)], key=lambda s: (s.lineno, s.col_offset))
    # 1. sources
    for s in stmts:
        if isinstance(s, ast.Assign) and len(s.targets) == 1 and isinstance(s.targets[0], ast.Tuple) and len(s.targets[0].elts) == 2 and isinstance(s.value, ast.Call):
            d = direction_of(s.value)
            j = s.targets[0].elts[1]
            if d is not None:
                if isinstance(j, ast.Name):
                    if j.id == "_":
                        res.sources.append((s, "_", d))
                        res.unused.append(("_", d, s))
                    else:
                        tags[j.id] = d
                        res.origin[j.id] = src(s.value.func)
                        res.sources.append((s, j.id, d))
    if not tags:
        return res
    # 2. propagate through accumulators and reshapes:  acc += j ; j = j.sum(axis=1)
    changed = True
    while changed:
        changed = False
        for s in stmts:
            if isinstance(s, ast.AugAssign) and isinstance(s.op, ast.Add) and isinstance(s.target, ast.Name) and isinstance(s.value, ast.Name) and s.value.id in tags and s.target.id not in tags:
                # an accumulator initialised to the constant 0 collects Jacobians of one direction
                inits = [a for a in stmts if isinstance(a, ast.Assign) and len(a.targets) == 1 and isinstance(a.targets[0], ast.Name) and a.targets[0].id == s.target.id]
                if len(inits) == 1 and isinstance(inits[0].value, ast.Constant) and inits[0].value.value == 0:
                    tags[s.target.id] = tags[s.value.id]
                    res.origin[s.target.id] = res.origin.get(s.value.id, "?")
                    changed = True
            if isinstance(s, ast.Assign) and len(s.targets) == 1 and isinstance(s.targets[0], ast.Name):
                v = s.value
                base = v
                while isinstance(base, (ast.Call, ast.Subscript, ast.Attribute)):
                    if isinstance(base, ast.Call):
                        base = base.func.value if isinstance(base.func, ast.Attribute) else None
                    elif isinstance(base, ast.Subscript):
                        base = base.value
                    else:
                        base = base.value
                    if base is None:
                        break
                # function spelling of the same reductions / reshapes: np.sum(J, axis=1), np.expand_dims(J, 1), ...
                if isinstance(v, ast.Call) and (call_name(v) or "").split(".")[-1] in _SHAPE_FUNCS and v.args:
                    b0 = v.args[0]
                    while isinstance(b0, ast.Subscript):
                        b0 = b0.value
                    if isinstance(b0, ast.Name) and b0.id in tags and s.targets[0].id not in tags:
                        tags[s.targets[0].id] = tags[b0.id]
                        res.origin[s.targets[0].id] = res.origin.get(b0.id, "?")
                        changed = True
                        continue
                if isinstance(base, ast.Name) and base.id in tags and s.targets[0].id not in tags and isinstance(v, (ast.Call, ast.Subscript)) and not isinstance(v, ast.BinOp):
                    name = call_name(v) if isinstance(v, ast.Call) else None
                    if name is None or name.split(".")[-1] in ("sum", "copy", "squeeze", "flatten", "astype"):
                        tags[s.targets[0].id] = tags[base.id]
                        res.origin[s.targets[0].id] = res.origin.get(base.id, "?")
                        changed = True
    # 3. uses
    used = set()

    def tagged_operand(e):
        """(var, node) if e is a tagged name possibly subscripted / reshaped"""
        x = e
        for _ in range(4):
            while isinstance(x, ast.Subscript):
                x = x.value
            if isinstance(x, ast.Call) and isinstance(x.func, ast.Attribute) and x.func.attr in ("sum", "copy", "squeeze", "flatten", "reshape", "ravel") and isinstance(x.func.value, (ast.Name, ast.Subscript)) and not (isinstance(x.func.value, ast.Name) and x.func.value.id in ("np", "numpy", "torch")):
                x = x.func.value
            elif isinstance(x, ast.Call) and (call_name(x) or "").split(".")[-1] in _SHAPE_FUNCS and (call_name(x) or "").split(".")[0] in ("np", "numpy") and x.args:
                x = x.args[0]
            else:
                break
        if isinstance(x, ast.Name) and x.id in tags:
            return x.id
        return None

    def signed_terms(e, sign, out):
        if isinstance(e, ast.BinOp) and isinstance(e.op, (ast.Add, ast.Sub)):
            signed_terms(e.left, sign, out)
            signed_terms(e.right, sign if isinstance(e.op, ast.Add) else -sign, out)
        elif isinstance(e, ast.UnaryOp) and isinstance(e.op, ast.USub):
            signed_terms(e.operand, -sign, out)
        else:
            out.append((e, sign))

    for s in stmts:
        exprs = []
        if isinstance(s, ast.AugAssign) and isinstance(s.op, (ast.Add, ast.Sub)):
            sg = 1 if isinstance(s.op, ast.Add) else -1
            terms = []
            signed_terms(s.value, sg, terms)
            tgt = s.target.id if isinstance(s.target, ast.Name) else None
            for e, sign in terms:
                v = tagged_operand(e)
                if v is not None and not (tgt in tags and tags.get(tgt) == tags[v] and sign == 1 and tgt != v):
                    res.uses.append((s, v, tags[v], sign, src(s)[:90]))
                    used.add(v)
                elif v is not None:
                    used.add(v)  # accumulation into a same-direction accumulator
        for e in walk_no_nested(s):
            if isinstance(e, ast.BinOp) and isinstance(e.op, (ast.Add, ast.Sub)):
                # only top-level additive expressions
                terms = []
                signed_terms(e, 1, terms)
                if any(tagged_operand(t) for t, _ in terms) and len(terms) >= 2:
                    exprs.append((e, terms))
        seen_sub = set()
        for e, terms in exprs:
            if id(e) in seen_sub:
                continue
            for sub in ast.walk(e):
                if sub is not e and isinstance(sub, ast.BinOp):
                    seen_sub.add(id(sub))
            for t, sign in terms:
                v = tagged_operand(t)
                if v is not None:
                    # `log_j == -log_j_inv` style comparisons are not density arithmetic
                    res.uses.append((s, v, tags[v], sign, src(e)[:90]))
                    used.add(v)
        # passed to callees
        for c in walk_no_nested(s):
            if isinstance(c, ast.Call):
                for k in c.keywords:
                    v = tagged_operand(k.value) if k.value is not None else None
                    if v is not None and k.arg is not None:
                        res.passed.append((c, k.arg, v, tags[v]))
                        used.add(v)
                nm = call_name(c) or ""
                if nm.split(".")[-1] in ("isfinite", "isnan", "allclose", "all", "any"):
                    for a in c.args:
                        for x in ast.walk(a):
                            if isinstance(x, ast.Name) and x.id in tags:
                                res.mask_only.append((x.id, tags[x.id]))
    # returned to the caller counts as used
    for s in stmts:
        if isinstance(s, ast.Return) and s.value is not None:
            for x in ast.walk(s.value):
                if isinstance(x, ast.Name) and x.id in tags:
                    used.add(x.id)
    # de-duplicate uses
    seen = set()
    uniq = []
    for u in res.uses:
        k = (id(u[0]), u[1], u[3], u[4])
        if k not in seen:
            seen.add(k)
            uniq.append(u)
    res.uses = uniq
    for s_, v, d in res.sources:
        if v != "_" and v not in used:
            if v in {m[0] for m in res.mask_only}:
                continue
            res.unused.append((v, d, s_))
    # accumulators must themselves reach a density expression / the caller
    src_names = {v for _, v, _ in res.sources}
    for s in stmts:
        if isinstance(s, ast.AugAssign) and isinstance(s.target, ast.Name) and s.target.id in tags and s.target.id not in src_names and s.target.id not in (param_tags or {}):
            acc = s.target.id
            if acc not in {u[1] for u in res.uses} and acc not in {p_[2] for p_ in res.passed} and not any(isinstance(r, ast.Return) and r.value is not None and any(isinstance(x, ast.Name) and x.id == acc for x in ast.walk(r.value)) for r in stmts):
                if (acc, tags[acc]) not in [(a, b) for a, b, _ in res.unused]:
                    res.unused.append((acc, tags[acc], s))
    for s, v, tag, sign, text in res.uses:
        want = 1 if tag == FWD else -1
        if sign != want:
            res.bad.append((s, f"`{text}`: Jacobian `{v}` of a {tag.split(':')[0]} map enters with {'+' if sign > 0 else '-'}"))
    res.tags = tags
    return res
