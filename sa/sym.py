"""Computer-algebra normalisation of *extracted source expressions* (sympy).

Used only to decide identities between straight-line arithmetic expressions
taken from the source (a Jacobian formula vs. the derivative of the map
formula next to it; an inverse formula composed with its forward formula).
No repository code is executed, no paths are explored, no solver is queried:
this is the same kind of syntactic algebra as the linear forms in lin.py, with
a stronger normaliser.
"""

import ast

from . import AnalysisError
from .pm import src

try:
    import sympy as sp
except Exception:  # pragma: no cover
    sp = None

_FUNCS = {
    "log": lambda a: sp.log(a), "log1p": lambda a: sp.log(1 + a), "exp": lambda a: sp.exp(a), "abs": lambda a: sp.Abs(a), "sqrt": lambda a: sp.sqrt(a),
    "cbrt": lambda a: a ** sp.Rational(1, 3), "sin": lambda a: sp.sin(a), "cos": lambda a: sp.cos(a), "arctan2": lambda a, b: sp.atan2(a, b),
    "divide": lambda a, b: a / b, "ptp": None, "zeros_like": lambda a: sp.Integer(0), "float": lambda a: a,
}


def require_sympy():
    if sp is None:
        raise AnalysisError("sympy is not importable in the repository's environment: the algebraic Jacobian rules cannot run")


class Sym:
    """Converts AST expressions to sympy, mapping unknown leaves to positive symbols keyed by source text."""

    def __init__(self, subst=None, positive=True):
        require_sympy()
        self.subst = subst or {}  # source text -> sympy expression
        self.syms = {}
        self.positive = positive

    def symbol(self, name):
        if name not in self.syms:
            self.syms[name] = sp.Symbol(name.replace("[", "_").replace("]", "").replace(".", "_").replace("'", "").replace('"', ""), positive=self.positive, real=True)
        return self.syms[name]

    def conv(self, e):
        text = src(e)
        if text in self.subst:
            return self.subst[text]
        hook = getattr(self, "hook", None)
        if hook is not None:
            h = hook(e)
            if h is not None:
                return h
        if isinstance(e, ast.Constant) and isinstance(e.value, (int, float)) and not isinstance(e.value, bool):
            return sp.nsimplify(e.value)
        if isinstance(e, ast.Name):
            return self.symbol(e.id)
        if isinstance(e, (ast.Attribute, ast.Subscript)):
            if text in ("np.pi", "numpy.pi", "math.pi"):
                return sp.pi
            return self.symbol(text)
        if isinstance(e, ast.UnaryOp):
            v = self.conv(e.operand)
            return -v if isinstance(e.op, ast.USub) else v
        if isinstance(e, ast.BinOp):
            l, r = self.conv(e.left), self.conv(e.right)
            if isinstance(e.op, ast.Add):
                return l + r
            if isinstance(e.op, ast.Sub):
                return l - r
            if isinstance(e.op, ast.Mult):
                return l * r
            if isinstance(e.op, ast.Div):
                return l / r
            if isinstance(e.op, ast.Pow):
                return l ** r
            if isinstance(e.op, ast.Mod):
                return l  # angle wrapped into its principal range: same point
        if isinstance(e, ast.Call):
            f = e.func
            name = f.attr if isinstance(f, ast.Attribute) else (f.id if isinstance(f, ast.Name) else None)
            if isinstance(f, ast.Attribute) and f.attr == "copy" and not e.args:
                return self.conv(f.value)
            if name in _FUNCS and _FUNCS[name] is not None:
                return _FUNCS[name](*[self.conv(a) for a in e.args])
        raise AnalysisError(f"expression `{text[:80]}` is outside the algebraic fragment (ANALYSIS-INCOMPLETE)")


def is_zero(expr):
    require_sympy()
    e = sp.simplify(sp.expand_log(sp.powdenest(sp.expand(expr), force=True), force=True))
    if e == 0:
        return True
    e2 = sp.simplify(sp.logcombine(e, force=True))
    if e2 == 0:
        return True
    e3 = sp.simplify(sp.expand_log(sp.powsimp(sp.powdenest(e2, force=True), force=True), force=True))
    return e3 == 0


def independent_of(expr, symbols):
    """expr does not depend on any of the symbols (its derivative simplifies to 0)."""
    require_sympy()
    for s in symbols:
        d = sp.diff(expr, s)
        if not is_zero(d):
            return False
    return True


def det_jacobian(outputs, inputs):
    require_sympy()
    J = sp.Matrix(outputs).jacobian(sp.Matrix(inputs))
    return sp.simplify(J.det())


def differs_from_log_abs_by_constant(J, det, variables):
    """J - log|det| does not depend on any variable: d/dv J == (d det / dv) / det for every v
    (the logarithmic derivative is the same whatever the sign of det)."""
    require_sympy()
    for v in variables:
        if not is_zero(sp.diff(J, v) - sp.diff(det, v) / det):
            return False
    return True
