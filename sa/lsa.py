"""Log-space algebra: abstract evaluation of expressions over ONE vector of log-weights w.

Every log-weight expression in the resampling / effective-sample-size code is `a*w + c` for a rational a and a scalar c
that is itself a rational combination of the reductions L_k = logsumexp(k*w) and M = max(w):

    logsumexp(a*w + c) = L_a + c        max(a*w + c) = a*M + c  (a > 0)

so two spellings of one quantity (normalise first and then square, or square first and subtract twice the normaliser,
in place or into a new local, through `np.array(..)` copies ...) evaluate to the same value here.  Shifting every
log-weight by s changes L_k by k*s and M by s: the *shift degree* of a value is read off its normal form, and `exp` of a
value whose degree is not 0 is reported (it overflows under a likelihood offset).

Values: ("vec", a, lin) | ("sca", lin) | ("exp", value) | ("int", value) | ("opaque", text)
lin: {symbol: Fraction}, symbols ("L", k), ("M",), ("1",).
"""

import ast
from fractions import Fraction

from .pm import src

ONE = ("1",)


def _ladd(x, y, s=1):
    out = dict(x)
    for k, v in y.items():
        out[k] = out.get(k, Fraction(0)) + s * v
        if out[k] == 0:
            del out[k]
    return out


def _lscale(x, f):
    return {k: v * f for k, v in x.items() if v * f != 0}


def degree(v):
    """Shift degree of a value (None if it has none)."""
    def dlin(lin):
        return sum((c * (Fraction(k[1]) if k[0] == "L" else Fraction(1) if k[0] == "M" else Fraction(0)) for k, c in lin.items()), Fraction(0))

    if v[0] == "vec":
        return v[1] + dlin(v[2])
    if v[0] == "sca":
        return dlin(v[1])
    if v[0] in ("exp", "int"):
        return Fraction(0) if degree(v[1]) == 0 else None
    return None


_IDENT = {"array", "asarray", "asanyarray", "copy", "atleast_1d", "squeeze", "ravel", "flatten", "astype", "float", "double"}
_LSE = {"logsumexp"}
_MAX = {"max", "amax", "nanmax"}


class Eval:
    def __init__(self, vectors, is_vector=None):
        """vectors: source texts that denote the weight vector w itself; is_vector(expr) may add more."""
        self.vectors = set(vectors)
        self.is_vector = is_vector
        self.reports = []

    def ev(self, e):
        t = src(e)
        if t in self.vectors or (self.is_vector is not None and self.is_vector(e)):
            return ("vec", Fraction(1), {})
        if isinstance(e, ast.Subscript) and isinstance(e.slice, (ast.Name, ast.Call)):
            # the same weights in another order (`w[idx]` for a sorting index): every reduction is unchanged
            v0 = self.ev(e.value)
            if v0[0] == "vec":
                return v0
        if isinstance(e, ast.Call) and (src(e.func).split(".")[-1] in ("effective_sample_size",)) and (e.args or e.keywords):
            v0 = self.ev(e.args[0] if e.args else e.keywords[0].value)
            if v0[0] == "vec" and v0[1] == 1:
                return KISH
        if isinstance(e, ast.Constant) and isinstance(e.value, (int, float)) and not isinstance(e.value, bool):
            return ("sca", {ONE: Fraction(e.value).limit_denominator(10**6)} if e.value != 0 else {})
        if isinstance(e, ast.UnaryOp) and isinstance(e.op, (ast.USub, ast.UAdd)):
            v = self.ev(e.operand)
            return self._scale(v, Fraction(-1 if isinstance(e.op, ast.USub) else 1))
        if isinstance(e, ast.BinOp):
            l, r = self.ev(e.left), self.ev(e.right)
            if isinstance(e.op, (ast.Add, ast.Sub)):
                s = 1 if isinstance(e.op, ast.Add) else -1
                if l[0] == "vec" and r[0] == "vec":
                    return ("vec", l[1] + s * r[1], _ladd(l[2], r[2], s))
                if l[0] == "vec" and r[0] == "sca":
                    return ("vec", l[1], _ladd(l[2], r[1], s))
                if l[0] == "sca" and r[0] == "vec":
                    return ("vec", s * r[1], _ladd(l[1], r[2], s))
                if l[0] == "sca" and r[0] == "sca":
                    return ("sca", _ladd(l[1], r[1], s))
            if isinstance(e.op, ast.Mult):
                for a, b in ((l, r), (r, l)):
                    if a[0] == "sca" and set(a[1]) <= {ONE}:
                        return self._scale(b, a[1].get(ONE, Fraction(0)))
            if isinstance(e.op, ast.Div) and r[0] == "sca" and set(r[1]) == {ONE}:
                return self._scale(l, 1 / r[1][ONE])
            if isinstance(e.op, ast.Pow) and l[0] == "exp" and r[0] == "sca" and set(r[1]) == {ONE}:
                return ("exp", self._scale(l[1], r[1][ONE]))
            return ("opaque", t)
        if isinstance(e, ast.Call):
            f = e.func
            name = f.attr if isinstance(f, ast.Attribute) else (f.id if isinstance(f, ast.Name) else None)
            args = list(e.args)
            # method spelling: w.max(), w.copy(), w.astype(..)
            if isinstance(f, ast.Attribute) and not (isinstance(f.value, ast.Name) and f.value.id in ("np", "numpy", "scipy", "special", "math")) and not (isinstance(f.value, ast.Attribute) and src(f.value) in ("scipy.special", "np.random", "numpy.random")):
                args = [f.value] + args
            first = args[0] if args else next((k.value for k in e.keywords if k.arg in ("a", "x", "object")), None)
            if first is None:
                return ("opaque", t)
            if name in _IDENT:
                return self.ev(first)
            v = self.ev(first)
            if name in _LSE and v[0] == "vec" and not any(k.arg in ("b", "axis") and not (isinstance(k.value, ast.Constant) and k.value.value in (None, 0)) for k in e.keywords):
                return ("sca", _ladd({("L", v[1]): Fraction(1)}, v[2]))
            if name in _MAX and v[0] == "vec" and v[1] > 0:
                return ("sca", _ladd({("M",): v[1]}, v[2]))
            if name == "exp":
                if v[0] in ("vec", "sca"):
                    if degree(v) != 0:
                        self.reports.append(f"`{t[:70]}` exponentiates a value that changes when all log-weights are shifted (degree {degree(v)})")
                    return ("exp", v)
            if name == "log" and v[0] == "exp":
                return v[1]
            if name == "int" and v[0] == "exp":
                return ("int", v)
            return ("opaque", t)
        return ("opaque", t)

    def _scale(self, v, f):
        if v[0] == "vec":
            return ("vec", v[1] * f, _lscale(v[2], f))
        if v[0] == "sca":
            return ("sca", _lscale(v[1], f))
        return ("opaque", "scaled")


KISH = ("exp", ("sca", {("L", Fraction(1)): Fraction(2), ("L", Fraction(2)): Fraction(-1)}))


def is_kish(v):
    """v is exp(2 logsumexp(w) - logsumexp(2 w)) = (sum w)^2 / sum w^2."""
    return v[0] == "exp" and v[1][0] == "sca" and v[1][1] == KISH[1][1]


def show(v):
    def lin(l):
        return " + ".join(f"{c}*{'L%s' % k[1] if k[0] == 'L' else 'M' if k[0] == 'M' else '1'}" for k, c in sorted(l.items(), key=str)) or "0"

    if v[0] == "vec":
        return f"{v[1]}*w + ({lin(v[2])})"
    if v[0] == "sca":
        return lin(v[1])
    if v[0] in ("exp", "int"):
        return f"{v[0]}({show(v[1])})"
    return f"?{v[1][:40]}"
