"""Statement-level control-flow graph for one function.

Node kinds
    entry, exit (normal return / fall off the end), raise (exception leaves
    the function), stmt (simple statement), if / while (test), for (iterator
    head), with, try, handler, branch (pseudo node standing for a labelled edge
    of a test: its ``label`` is True / False / 'iter' / 'exhausted').

Exceptions are modelled only where the source says so: ``raise`` statements,
and every statement inside a ``try`` body may transfer to each handler of
that ``try`` (conservative).  ``finally`` bodies are inlined on every way out.
"""

from __future__ import annotations

import ast
from dataclasses import dataclass
from typing import Dict, Iterable, List, Optional, Set, Tuple

import networkx as nx

from . import AnalysisError


@dataclass
class Node:
    id: int
    kind: str
    ast: Optional[ast.AST] = None
    label: object = None  # for branch nodes
    test: Optional[ast.AST] = None  # for branch nodes: the test expression / For node

    def __repr__(self):
        t = ""
        if self.ast is not None:
            try:
                t = ast.unparse(self.ast).split("\n")[0][:60]
            except Exception:
                t = type(self.ast).__name__
        return f"<{self.id}:{self.kind}:{self.label if self.kind == 'branch' else ''}{t}>"


class _Ctx:
    def __init__(self, loop_head=None, loop_after=None, handlers=None, finals=None, final_depth=0):
        self.loop_head = loop_head
        self.loop_after = loop_after
        self.handlers = handlers or []  # handler-entry node ids of the innermost try
        self.finals = finals or []  # stack of (finalbody, outer ctx), outer..inner
        self.final_depth = final_depth  # len(finals) when the innermost loop was entered


class CFG:
    def __init__(self, fnode: ast.FunctionDef):
        self.fnode = fnode
        self.g = nx.DiGraph()
        self.nodes: Dict[int, Node] = {}
        self._by_ast: Dict[int, List[int]] = {}
        self._n = 0
        self.loop_after: Dict[int, int] = {}
        self.entry = self._new("entry")
        self.exit = self._new("exit")
        self.raise_exit = self._new("raise")
        ends = self._block(fnode.body, [self.entry], _Ctx())
        for e in ends:
            self.g.add_edge(e, self.exit)
        self._dom = None
        self._pdom = None

    # -- construction --------------------------------------------------
    def _new(self, kind, node=None, label=None, test=None) -> int:
        i = self._n
        self._n += 1
        self.nodes[i] = Node(i, kind, node, label, test)
        self.g.add_node(i)
        if node is not None and kind != "branch":
            self._by_ast.setdefault(id(node), []).append(i)
        return i

    def _link(self, preds: Iterable[int], n: int):
        for p in preds:
            self.g.add_edge(p, n)

    def _branch(self, src: int, label, test) -> int:
        b = self._new("branch", self.nodes[src].ast, label, test)
        self.g.add_edge(src, b)
        return b

    def _run_finals(self, preds: List[int], ctx: _Ctx, upto: int = 0) -> List[int]:
        """Inline finally bodies (innermost first) for a jump out of them."""
        for i in range(len(ctx.finals) - 1, upto - 1, -1):
            fb, fctx = ctx.finals[i]
            preds = self._block(fb, preds, fctx)
        return preds

    def _block(self, stmts: List[ast.stmt], preds: List[int], ctx: _Ctx) -> List[int]:
        for s in stmts:
            preds = self._stmt(s, preds, ctx)
        return preds

    def _stmt(self, s: ast.stmt, preds: List[int], ctx: _Ctx) -> List[int]:
        if isinstance(s, ast.If):
            t = self._new("if", s)
            self._link(preds, t)
            self._exc_edges(t, ctx)
            bt = self._branch(t, True, s.test)
            bf = self._branch(t, False, s.test)
            e1 = self._block(s.body, [bt], ctx)
            e2 = self._block(s.orelse, [bf], ctx)
            return e1 + e2
        if isinstance(s, ast.While):
            t = self._new("while", s)
            self._link(preds, t)
            self._exc_edges(t, ctx)
            bt = self._branch(t, True, s.test)
            bf = self._branch(t, False, s.test)
            after = self._new("join", s)
            inner = _Ctx(t, after, ctx.handlers, ctx.finals, len(ctx.finals))
            self.loop_after[t] = after
            e = self._block(s.body, [bt], inner)
            self._link(e, t)
            const_true = isinstance(s.test, ast.Constant) and bool(s.test.value)
            if const_true:
                # `while True`: the false edge is infeasible
                self.g.remove_node(bf)
                del self.nodes[bf]
                e2 = []
            else:
                e2 = self._block(s.orelse, [bf], ctx)
            self._link(e2, after)
            return [after]
        if isinstance(s, ast.For):
            t = self._new("for", s)
            self._link(preds, t)
            self._exc_edges(t, ctx)
            bt = self._branch(t, "iter", s)
            bf = self._branch(t, "exhausted", s)
            after = self._new("join", s)
            inner = _Ctx(t, after, ctx.handlers, ctx.finals, len(ctx.finals))
            self.loop_after[t] = after
            e = self._block(s.body, [bt], inner)
            self._link(e, t)
            e2 = self._block(s.orelse, [bf], ctx)
            self._link(e2, after)
            return [after]
        if isinstance(s, ast.With):
            t = self._new("with", s)
            self._link(preds, t)
            self._exc_edges(t, ctx)
            return self._block(s.body, [t], ctx)
        if isinstance(s, ast.Try):
            t = self._new("try", s)
            self._link(preds, t)
            has_final = bool(s.finalbody)
            outer_finals = ctx.finals
            finals = outer_finals + [(s.finalbody, ctx)] if has_final else outer_finals
            hentries = []
            for h in s.handlers:
                hn = self._new("handler", h)
                hentries.append(hn)
            # context for the body: exceptions go to these handlers
            bctx = _Ctx(ctx.loop_head, ctx.loop_after, hentries or ctx.handlers, finals, ctx.final_depth)
            self._exc_edges(t, bctx)
            e = self._block(s.body, [t], bctx)
            ectx = _Ctx(ctx.loop_head, ctx.loop_after, ctx.handlers, finals, ctx.final_depth)
            e = self._block(s.orelse, e, ectx)
            outs = list(e)
            for h, hn in zip(s.handlers, hentries):
                outs += self._block(h.body, [hn], ectx)
            if has_final:
                outs = self._block(s.finalbody, outs, ctx)
            return outs
        if isinstance(s, ast.Return):
            n = self._new("stmt", s)
            self._link(preds, n)
            self._exc_edges(n, ctx)
            out = self._run_finals([n], ctx)
            self._link(out, self.exit)
            return []
        if isinstance(s, ast.Raise):
            n = self._new("stmt", s)
            self._link(preds, n)
            if ctx.handlers:
                for h in ctx.handlers:
                    self.g.add_edge(n, h)
                # a raise inside try may also escape if no handler matches
                out = self._run_finals([n], ctx)
                self._link(out, self.raise_exit)
            else:
                out = self._run_finals([n], ctx)
                self._link(out, self.raise_exit)
            return []
        if isinstance(s, ast.Break):
            n = self._new("stmt", s)
            self._link(preds, n)
            if ctx.loop_after is None:
                raise AnalysisError("break outside loop")
            out = self._run_finals([n], ctx, ctx.final_depth)
            self._link(out, ctx.loop_after)
            return []
        if isinstance(s, ast.Continue):
            n = self._new("stmt", s)
            self._link(preds, n)
            if ctx.loop_head is None:
                raise AnalysisError("continue outside loop")
            out = self._run_finals([n], ctx, ctx.final_depth)
            self._link(out, ctx.loop_head)
            return []
        if isinstance(s, (ast.FunctionDef, ast.AsyncFunctionDef, ast.ClassDef)):
            n = self._new("stmt", s)
            self._link(preds, n)
            return [n]
        if isinstance(s, ast.Match):
            raise AnalysisError("match statement not supported by the CFG builder")
        # simple statement
        n = self._new("stmt", s)
        self._link(preds, n)
        self._exc_edges(n, ctx)
        return [n]

    def _exc_edges(self, n: int, ctx: _Ctx):
        for h in ctx.handlers:
            self.g.add_edge(n, h)

    # -- queries -------------------------------------------------------
    def ids_of(self, node: ast.AST) -> List[int]:
        return self._by_ast.get(id(node), [])

    def id_of(self, node: ast.AST) -> int:
        ids = self.ids_of(node)
        if not ids:
            # the node may be an expression: find the enclosing statement
            st = self.stmt_of(node)
            if st is not None:
                ids = self.ids_of(st)
        if not ids:
            raise AnalysisError(
                f"statement not in CFG: {ast.unparse(node)[:80]}"
            )
        return ids[0]

    def stmt_of(self, expr: ast.AST) -> Optional[ast.AST]:
        """Innermost CFG statement whose own (non-body) expressions contain expr."""
        best = None
        for n in self.nodes.values():
            if n.ast is None or n.kind in ("branch", "join", "entry", "exit", "raise"):
                continue
            for part in self._own_exprs(n):
                for sub in ast.walk(part):
                    if sub is expr:
                        best = n.ast
        return best

    def _own_exprs(self, n: Node) -> List[ast.AST]:
        s = n.ast
        if n.kind in ("if", "while"):
            return [s.test]
        if n.kind == "for":
            return [s.target, s.iter]
        if n.kind == "with":
            out = []
            for it in s.items:
                out.append(it.context_expr)
                if it.optional_vars is not None:
                    out.append(it.optional_vars)
            return out
        if n.kind == "handler":
            return [s.type] if s.type is not None else []
        if n.kind == "try":
            return []
        if n.kind == "stmt":
            if isinstance(s, (ast.FunctionDef, ast.AsyncFunctionDef, ast.ClassDef)):
                return []
            return [s]
        return []

    def own_exprs(self, nid: int) -> List[ast.AST]:
        return self._own_exprs(self.nodes[nid])

    def statement_nodes(self) -> List[Node]:
        return [
            n
            for n in self.nodes.values()
            if n.kind in ("stmt", "if", "while", "for", "with", "handler")
        ]

    def reachable(self, src: int, without: Iterable[int] = ()) -> Set[int]:
        without = set(without)
        if src in without:
            return set()
        seen = {src}
        stack = [src]
        while stack:
            x = stack.pop()
            for y in self.g.successors(x):
                if y not in seen and y not in without:
                    seen.add(y)
                    stack.append(y)
        return seen

    def dominators(self) -> Dict[int, int]:
        if self._dom is None:
            self._dom = nx.immediate_dominators(self.g, self.entry)
        return self._dom

    def dominates(self, a: int, b: int) -> bool:
        """Every path entry -> b passes through a (b reachable)."""
        if a == b:
            return True
        return b not in self.reachable(self.entry, without=[a]) and b in self.reachable(self.entry)

    def must_pass(self, src: int, dst: int, via: Iterable[int]) -> bool:
        """Every path src -> dst passes through one of `via`."""
        return dst not in self.reachable(src, without=via)

    def every_exit_path_passes(self, src: int, via: Iterable[int], include_raise=False) -> bool:
        r = self.reachable(src, without=via)
        if self.exit in r:
            return False
        if include_raise and self.raise_exit in r:
            return False
        return True

    def in_loop(self, n: int) -> bool:
        return any(n in self.reachable(s) for s in self.g.successors(n))

    def can_follow(self, a: int, b: int) -> bool:
        """b reachable strictly after a."""
        return any(b in self.reachable(s) for s in self.g.successors(a))

    def guards(self, n: int) -> List[Tuple[ast.AST, object]]:
        """Branch edges (test, label) that dominate n."""
        out = []
        for b in self.nodes.values():
            if b.kind == "branch" and b.id != n and self.dominates(b.id, n):
                out.append((b.test, b.label))
        return out

    def loop_body(self, head: int) -> Set[int]:
        """Nodes executed as part of an iteration of the loop headed by `head`."""
        after = self.loop_after[head]
        out: Set[int] = set()
        for s in self.g.successors(head):
            sn = self.nodes[s]
            if sn.kind == "branch" and sn.label in (True, "iter"):
                out |= self.reachable(s, without=[head, after])
        out -= {self.exit, self.raise_exit}
        return out

    def loops_containing(self, n: int) -> List[Node]:
        return [
            self.nodes[h]
            for h in self.loop_after
            if h in self.nodes and n in self.loop_body(h)
        ]


def build(fnode) -> CFG:
    return CFG(fnode)
