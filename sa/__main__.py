"""CLI: python -m sa Cxx [--tier quick|thorough] [--repo PATH] [--replay FILE]
        python -m sa selftest [--property Cxx]
        python -m sa all [--tier ...]
"""
import argparse
import json
import os
import sys


def main(argv=None):
    ap = argparse.ArgumentParser(prog="check")
    ap.add_argument("target", help="property id (C01..C20), 'all' or 'selftest'")
    ap.add_argument("--tier", default=os.environ.get("VERIF_TIER", "quick"), choices=["quick", "thorough"])
    ap.add_argument("--repo", default=os.environ.get("VERIF_REPO", "/repo"))
    ap.add_argument("--replay", default=None, help="violation report to re-examine on the current tree")
    ap.add_argument("--property", default=None)
    ap.add_argument("--list", action="store_true", help="print every obligation")
    args = ap.parse_args(argv)
    try:
        seed = int(os.environ.get("VERIF_SEED", "0"))
    except ValueError:
        seed = 0
    from sa import core

    if args.list:
        ctx = core.analyse(args.target, args.repo, args.tier)
        for o in ctx.obs:
            print(("ok  " if o.ok else "FAIL"), o.clause, o.rule, o.where.split(":")[-1], "|", o.construct, "|", o.detail[:150])
        return 0
    if args.target == "selftest":
        from sa import selftest

        return selftest.main(args.repo, args.property)
    if args.target == "all":
        rc = 0
        from sa.props import ALL

        for p in ALL:
            rc = max(rc, core.run_check(p, args.repo, args.tier, seed))
        return rc
    if args.replay:
        with open(args.replay) as fh:
            rep = json.load(fh)
        print(f"replaying {len(rep['violations'])} reported construct(s) against {args.repo}")
        for v in rep["violations"]:
            print(f"  reported: {v['loc']} [{v['rule']} {v['clause']}] {v['where']}: {v['construct']} -- {v['detail']}")
    return core.run_check(args.target, args.repo, args.tier, seed)


if __name__ == "__main__":
    try:
        rc = main()
    except SystemExit:
        raise
    except BaseException as e:  # never let a traceback look like a violation
        import traceback

        traceback.print_exc()
        print(f"ANALYSIS-ERROR internal: {e!r}")
        rc = 2
    sys.stdout.flush()
    sys.exit(rc)
