"""Path summaries: for every syntactic path through a function, the guards it takes, the final symbolic value of every
local / attribute it assigns (earlier assignments substituted into later ones), its ordered side effects and what it
returns.  Pure forward substitution over the statement tree - no path conditions are solved, nothing is executed; loops
are summarised by marking what they assign as opaque.  Two spellings of one computation (temporaries, early returns,
if / else versus guard clauses, helpers already inlined by the program model) give the same summaries, which is what the
rules compare with `canon`."""

import ast
import copy
from typing import Dict, List, Optional

from .pm import src


class Path:
    def __init__(self):
        self.guards: List = []  # (test expr with substitutions, truth)
        self.env: Dict[str, ast.expr] = {}  # 'name' / 'self.attr' -> expression
        self.effects: List = []  # (kind, expr[, value]) in program order; kind in call / store / del
        self.ret: Optional[ast.expr] = None
        self.end = "fall"  # return / raise / fall
        self.loops = 0

    def clone(self):
        p = Path()
        p.guards = list(self.guards)
        p.env = dict(self.env)
        p.effects = list(self.effects)
        p.ret, p.end, p.loops = self.ret, self.end, self.loops
        return p

    def value(self, key, default=None):
        return self.env.get(key, default)


def _key(t):
    if isinstance(t, ast.Name):
        return t.id
    if isinstance(t, ast.Attribute):
        s = src(t)
        return s
    return None


class _Subst(ast.NodeTransformer):
    def __init__(self, env):
        self.env = env

    def visit_Name(self, n):
        if isinstance(n.ctx, ast.Load) and n.id in self.env:
            return copy.deepcopy(self.env[n.id])
        return n

    def visit_Attribute(self, n):
        if isinstance(n.ctx, ast.Load):
            k = src(n)
            if k in self.env:
                return copy.deepcopy(self.env[k])
        self.generic_visit(n)
        return n

    def visit_Lambda(self, n):
        return n


def subst(e, env):
    if e is None:
        return None
    return _Subst(env).visit(copy.deepcopy(e))


def _opaque(name, tag):
    return ast.Call(func=ast.Name(id=tag, ctx=ast.Load()), args=[ast.Constant(value=name)], keywords=[])


def summarise(fnode, max_paths=96) -> List[Path]:
    """Path summaries of a function node (docstring skipped). Raises ValueError if there are more than max_paths paths."""
    body = [s for s in fnode.body if not (isinstance(s, ast.Expr) and isinstance(s.value, ast.Constant) and isinstance(s.value.value, str))]
    done: List[Path] = []
    live = _block(body, [Path()], done, max_paths)
    for p in live:
        p.end = "fall"
        done.append(p)
    return done


def _assigned_names(stmts):
    out = set()
    for s in stmts:
        for x in ast.walk(s):
            if isinstance(x, ast.Name) and not isinstance(x.ctx, ast.Load):
                out.add(x.id)
            elif isinstance(x, ast.Attribute) and not isinstance(x.ctx, ast.Load):
                out.add(src(x))
            elif isinstance(x, ast.AugAssign):
                k = _key(x.target)
                if k:
                    out.add(k)
    return out


def _block(stmts, paths, done, max_paths):
    for s in stmts:
        if not paths:
            break
        paths = _stmt(s, paths, done, max_paths)
        if len(paths) + len(done) > max_paths:
            raise ValueError("too many paths")
    return paths


def _stmt(s, paths, done, max_paths):
    out = []
    if isinstance(s, ast.Assign):
        for p in paths:
            v = subst(s.value, p.env)
            for t in s.targets:
                _store(p, t, v)
            out.append(p)
        return out
    if isinstance(s, ast.AnnAssign):
        for p in paths:
            if s.value is not None:
                _store(p, s.target, subst(s.value, p.env))
            out.append(p)
        return out
    if isinstance(s, ast.AugAssign):
        for p in paths:
            k = _key(s.target)
            v = subst(s.value, p.env)
            if k is not None:
                cur = p.env.get(k)
                if cur is None:
                    cur = copy.deepcopy(s.target)
                    for x in ast.walk(cur):
                        if hasattr(x, "ctx"):
                            x.ctx = ast.Load()
                p.env[k] = ast.BinOp(left=copy.deepcopy(cur), op=s.op, right=v)
            else:
                p.effects.append(("store", subst(s.target, p.env), ast.BinOp(left=subst(s.target, p.env), op=s.op, right=v)))
            out.append(p)
        return out
    if isinstance(s, ast.Expr):
        for p in paths:
            if isinstance(s.value, ast.Call):
                p.effects.append(("call", subst(s.value, p.env)))
            out.append(p)
        return out
    if isinstance(s, ast.Return):
        for p in paths:
            p.ret = subst(s.value, p.env) if s.value is not None else ast.Constant(value=None)
            p.end = "return"
            done.append(p)
        return []
    if isinstance(s, ast.Raise):
        for p in paths:
            p.end = "raise"
            p.effects.append(("raise", subst(s.exc, p.env) if s.exc is not None else None))
            done.append(p)
        return []
    if isinstance(s, ast.If):
        for p in paths:
            t = subst(s.test, p.env)
            p1, p2 = p, p.clone()
            p1.guards.append((t, True))
            p2.guards.append((copy.deepcopy(t), False))
            out += _block(s.body, [p1], done, max_paths)
            out += _block(s.orelse, [p2], done, max_paths)
        return out
    if isinstance(s, (ast.For, ast.While)):
        names = _assigned_names([s])
        for p in paths:
            p.loops += 1
            p.effects.append(("loop", subst(s.iter, p.env) if isinstance(s, ast.For) else subst(s.test, p.env)))
            for k in names:
                p.env[k] = _opaque(k, "LOOP")
            out.append(p)
        return out
    if isinstance(s, ast.With):
        return _block(s.body, paths, done, max_paths)
    if isinstance(s, ast.Try):
        res = _block(s.body, paths, done, max_paths)
        res = _block(s.orelse, res, done, max_paths)
        return _block(s.finalbody, res, done, max_paths)
    if isinstance(s, ast.Delete):
        for p in paths:
            for t in s.targets:
                p.effects.append(("del", subst(t, p.env)))
            out.append(p)
        return out
    if isinstance(s, (ast.Break, ast.Continue, ast.Pass, ast.Import, ast.ImportFrom, ast.Global, ast.Nonlocal, ast.Assert)):
        return paths
    # anything else: opaque effect
    for p in paths:
        p.effects.append(("other", s))
        out.append(p)
    return out


def _store(p, t, v):
    if isinstance(t, (ast.Name, ast.Attribute)):
        k = _key(t)
        if isinstance(t, ast.Attribute):
            # a store through a substituted base (`obj.x = v` where obj is a local) keeps the written text
            pass
        p.env[k] = v
    elif isinstance(t, (ast.Tuple, ast.List)):
        if isinstance(v, (ast.Tuple, ast.List)) and len(v.elts) == len(t.elts):
            for a, b in zip(t.elts, v.elts):
                _store(p, a, b)
        else:
            for i, a in enumerate(t.elts):
                _store(p, a, ast.Subscript(value=copy.deepcopy(v), slice=ast.Constant(value=i), ctx=ast.Load()))
    elif isinstance(t, ast.Subscript):
        p.effects.append(("store", subst(t, p.env), v))


def guard_texts(p, canon):
    """[(canonical test text, truth)] with conjunctions split."""
    from .q import conjuncts

    out = []
    for t, truth in p.guards:
        for e, tr in conjuncts(t, truth):
            out.append((canon(e), tr))
    return out


# ---------------------------------------------------------------------------------------------------------------
# canonical path signatures: compare a function with a reference implementation of the documented behaviour

def _lit_text(e, truth, canon):
    """Canonical text of an atomic literal; comparisons of linear expressions are moved to one side
    (`a - n < m` and `n > a - m` are the same literal)."""
    from .lin import linear

    negate = {ast.Lt: ast.GtE, ast.GtE: ast.Lt, ast.Gt: ast.LtE, ast.LtE: ast.Gt, ast.Eq: ast.NotEq, ast.NotEq: ast.Eq, ast.Is: ast.IsNot, ast.IsNot: ast.Is, ast.In: ast.NotIn, ast.NotIn: ast.In}
    if isinstance(e, ast.Compare) and len(e.ops) == 1:
        op = type(e.ops[0])
        if not truth and op in negate:
            op, truth = negate[op], True
        if op in (ast.Lt, ast.LtE, ast.Gt, ast.GtE, ast.Eq, ast.NotEq):
            try:
                cn = lambda x: canon(x)
                import ast as _a
                lhs = linear(_a.parse(cn(e.left), mode="eval").body)
                rhs = linear(_a.parse(cn(e.comparators[0]), mode="eval").body)
            except Exception:
                lhs = rhs = None
            if lhs is not None and rhs is not None:
                d = dict(lhs)
                for k, v in rhs.items():
                    d[k] = d.get(k, 0) - v
                d = {k: v for k, v in d.items() if v != 0}
                if d:
                    # orientation: the lexicographically first non-constant atom gets a positive coefficient
                    keys = sorted(k for k in d if k != "1") or ["1"]
                    if d[keys[0]] < 0:
                        d = {k: -v for k, v in d.items()}
                        op = {ast.Lt: ast.Gt, ast.Gt: ast.Lt, ast.LtE: ast.GtE, ast.GtE: ast.LtE}.get(op, op)
                    sym = {ast.Lt: "<", ast.LtE: "<=", ast.Gt: ">", ast.GtE: ">=", ast.Eq: "==", ast.NotEq: "!="}[op]
                    body = " + ".join(f"{v}*{k}" for k, v in sorted(d.items()))
                    return f"{'' if truth else 'not '}({body} {sym} 0)"
        # one polarity for identity / membership tests: `a is not b` is `not (a is b)`
        pos = {ast.IsNot: ast.Is, ast.NotIn: ast.In}
        if op in pos:
            op, truth = pos[op], not truth
        e = ast.Compare(left=e.left, ops=[op()], comparators=e.comparators)
    return f"{'' if truth else 'not '}{canon(e)}"


def _const_truth(e):
    """True / False if the truth value of e is known syntactically, else None."""
    if isinstance(e, ast.Constant):
        return bool(e.value)
    if isinstance(e, ast.Compare) and len(e.ops) == 1 and isinstance(e.left, ast.Constant) and isinstance(e.comparators[0], ast.Constant):
        a, b = e.left.value, e.comparators[0].value
        op = e.ops[0]
        if isinstance(op, ast.Is):
            return a is b
        if isinstance(op, ast.IsNot):
            return a is not b
        if isinstance(op, ast.Eq):
            return a == b
        if isinstance(op, ast.NotEq):
            return a != b
    return None


def _expand(e, truth):
    """Short-circuit expansion of a test into alternatives, each a list of atomic (expr, truth) literals."""
    if isinstance(e, ast.UnaryOp) and isinstance(e.op, ast.Not):
        return _expand(e.operand, not truth)
    if isinstance(e, ast.BoolOp):
        is_and = isinstance(e.op, ast.And)
        if is_and == truth:
            # all operands have `truth`: the cartesian combination of their expansions
            alts = [[]]
            for v in e.values:
                alts = [a + b for a in alts for b in _expand(v, truth)]
            return alts
        # the first operand that decides: earlier ones have the opposite outcome
        out = []
        prefix = [[]]
        for v in e.values:
            for a in prefix:
                for b in _expand(v, truth):
                    out.append(a + b)
            prefix = [a + b for a in prefix for b in _expand(v, not truth)]
        return out
    return [[(e, truth)]]


def signatures(fnode, canon, track=(), abstract=None, drop=None, max_paths=200):
    """Set of canonical path signatures of a function: (frozenset of atomic literals, tracked final values, returned
    value, how the path ends).  `abstract(expr)` may replace sub-expressions (e.g. the result of a dispatched method)
    by a symbol before canonicalisation; literals for which `drop(text)` is true are removed (dispatch tests)."""
    out = set()
    for pa in summarise(fnode, max_paths=max_paths):
        alts = [[]]
        for t, truth in pa.guards:
            t = abstract(t) if abstract else t
            alts = [a + b for a in alts for b in _expand(t, truth)]
        for lits in alts:
            texts = []
            feasible = True
            for e, tr in lits:
                ct = _const_truth(e)
                if ct is not None:
                    if ct != tr:
                        feasible = False
                        break
                    continue
                texts.append(_lit_text(e, tr, canon))
            if not feasible:
                continue
            # a literal and its negation: infeasible
            if any(("not " + x) in texts for x in texts if not x.startswith("not ")):
                continue
            comp = {"==": "!=", "!=": "==", "<": ">=", ">=": "<", ">": "<=", "<=": ">"}
            bad = False
            for x in texts:
                if x.startswith("(") and x.endswith(" 0)"):
                    body, op = x[1:-3].rsplit(" ", 1)
                    if op in comp and f"({body} {comp[op]} 0)" in texts:
                        bad = True
                    # x == 0 contradicts x < 0 and x > 0; x < 0 contradicts x > 0
                    if op == "==" and (f"({body} < 0)" in texts or f"({body} > 0)" in texts):
                        bad = True
                    if op == "<" and f"({body} > 0)" in texts:
                        bad = True
            if bad:
                continue
            # implied literals carry no information: drop `!=`, `<=`, `>=` next to a stronger literal on the same form
            def _implied(x):
                if x.startswith("(") and x.endswith(" 0)"):
                    body, op = x[1:-3].rsplit(" ", 1)
                    if op == "!=" and (f"({body} < 0)" in texts or f"({body} > 0)" in texts):
                        return True
                    if op == "<=" and (f"({body} < 0)" in texts or f"({body} == 0)" in texts):
                        return True
                    if op == ">=" and (f"({body} > 0)" in texts or f"({body} == 0)" in texts):
                        return True
                return False
            texts = [x for x in texts if not _implied(x)]
            if drop:
                texts = [x for x in texts if not drop(x)]
            vals = tuple((k, canon(abstract(pa.env[k]) if abstract else pa.env[k]) if k in pa.env else None) for k in track)
            ret = canon(abstract(pa.ret) if abstract else pa.ret) if pa.ret is not None else None
            out.add((frozenset(texts), vals, ret, pa.end))
    return out
