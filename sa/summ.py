"""Path summaries: for every syntactic path through a function, the guards it takes, the final symbolic value of every
local / attribute it assigns (earlier assignments substituted into later ones), its ordered side effects and what it
returns.  Pure forward substitution over the statement tree - no path conditions are solved, nothing is executed; loops
are summarised by marking what they assign as opaque.  Two spellings of one computation (temporaries, early returns,
if / else versus guard clauses, helpers already inlined by the program model) give the same summaries, which is what the
rules compare with `canon`."""

import ast
import copy
from typing import Dict, List, Optional

from .pm import src


class Path:
    def __init__(self):
        self.guards: List = []  # (test expr with substitutions, truth)
        self.env: Dict[str, ast.expr] = {}  # 'name' / 'self.attr' -> expression
        self.effects: List = []  # (kind, expr[, value]) in program order; kind in call / store / del
        self.ret: Optional[ast.expr] = None
        self.end = "fall"  # return / raise / fall
        self.loops = 0

    def clone(self):
        p = Path()
        p.guards = list(self.guards)
        p.env = dict(self.env)
        p.effects = list(self.effects)
        p.ret, p.end, p.loops = self.ret, self.end, self.loops
        return p

    def value(self, key, default=None):
        return self.env.get(key, default)


def _key(t):
    if isinstance(t, ast.Name):
        return t.id
    if isinstance(t, ast.Attribute):
        s = src(t)
        return s
    return None


class _Subst(ast.NodeTransformer):
    def __init__(self, env):
        self.env = env

    def visit_Name(self, n):
        if isinstance(n.ctx, ast.Load) and n.id in self.env:
            return copy.deepcopy(self.env[n.id])
        return n

    def visit_Attribute(self, n):
        if isinstance(n.ctx, ast.Load):
            k = src(n)
            if k in self.env:
                return copy.deepcopy(self.env[k])
        self.generic_visit(n)
        return n

    def visit_Lambda(self, n):
        return n


def subst(e, env):
    if e is None:
        return None
    return _Subst(env).visit(copy.deepcopy(e))


def _opaque(name, tag):
    return ast.Call(func=ast.Name(id=tag, ctx=ast.Load()), args=[ast.Constant(value=name)], keywords=[])


def summarise(fnode, max_paths=96) -> List[Path]:
    """Path summaries of a function node (docstring skipped). Raises ValueError if there are more than max_paths paths."""
    body = [s for s in fnode.body if not (isinstance(s, ast.Expr) and isinstance(s.value, ast.Constant) and isinstance(s.value.value, str))]
    done: List[Path] = []
    live = _block(body, [Path()], done, max_paths)
    for p in live:
        p.end = "fall"
        done.append(p)
    return done


def _assigned_names(stmts):
    out = set()
    for s in stmts:
        for x in ast.walk(s):
            if isinstance(x, ast.Name) and not isinstance(x.ctx, ast.Load):
                out.add(x.id)
            elif isinstance(x, ast.Attribute) and not isinstance(x.ctx, ast.Load):
                out.add(src(x))
            elif isinstance(x, ast.AugAssign):
                k = _key(x.target)
                if k:
                    out.add(k)
    return out


def _block(stmts, paths, done, max_paths):
    for s in stmts:
        if not paths:
            break
        paths = _stmt(s, paths, done, max_paths)
        if len(paths) + len(done) > max_paths:
            raise ValueError("too many paths")
    return paths


def _stmt(s, paths, done, max_paths):
    out = []
    if isinstance(s, ast.Assign):
        for p in paths:
            v = subst(s.value, p.env)
            for t in s.targets:
                _store(p, t, v)
            out.append(p)
        return out
    if isinstance(s, ast.AnnAssign):
        for p in paths:
            if s.value is not None:
                _store(p, s.target, subst(s.value, p.env))
            out.append(p)
        return out
    if isinstance(s, ast.AugAssign):
        for p in paths:
            k = _key(s.target)
            v = subst(s.value, p.env)
            if k is not None:
                cur = p.env.get(k)
                if cur is None:
                    cur = copy.deepcopy(s.target)
                    for x in ast.walk(cur):
                        if hasattr(x, "ctx"):
                            x.ctx = ast.Load()
                p.env[k] = ast.BinOp(left=copy.deepcopy(cur), op=s.op, right=v)
            else:
                p.effects.append(("store", subst(s.target, p.env), ast.BinOp(left=subst(s.target, p.env), op=s.op, right=v)))
            out.append(p)
        return out
    if isinstance(s, ast.Expr):
        for p in paths:
            if isinstance(s.value, ast.Call):
                p.effects.append(("call", subst(s.value, p.env)))
            out.append(p)
        return out
    if isinstance(s, ast.Return):
        for p in paths:
            p.ret = subst(s.value, p.env) if s.value is not None else ast.Constant(value=None)
            p.end = "return"
            done.append(p)
        return []
    if isinstance(s, ast.Raise):
        for p in paths:
            p.end = "raise"
            p.effects.append(("raise", subst(s.exc, p.env) if s.exc is not None else None))
            done.append(p)
        return []
    if isinstance(s, ast.If):
        for p in paths:
            t = subst(s.test, p.env)
            p1, p2 = p, p.clone()
            p1.guards.append((t, True))
            p2.guards.append((copy.deepcopy(t), False))
            out += _block(s.body, [p1], done, max_paths)
            out += _block(s.orelse, [p2], done, max_paths)
        return out
    if isinstance(s, (ast.For, ast.While)):
        names = _assigned_names([s])
        for p in paths:
            p.loops += 1
            p.effects.append(("loop", subst(s.iter, p.env) if isinstance(s, ast.For) else subst(s.test, p.env)))
            for k in names:
                p.env[k] = _opaque(k, "LOOP")
            out.append(p)
        return out
    if isinstance(s, ast.With):
        return _block(s.body, paths, done, max_paths)
    if isinstance(s, ast.Try):
        res = _block(s.body, paths, done, max_paths)
        res = _block(s.orelse, res, done, max_paths)
        return _block(s.finalbody, res, done, max_paths)
    if isinstance(s, ast.Delete):
        for p in paths:
            for t in s.targets:
                p.effects.append(("del", subst(t, p.env)))
            out.append(p)
        return out
    if isinstance(s, (ast.Break, ast.Continue, ast.Pass, ast.Import, ast.ImportFrom, ast.Global, ast.Nonlocal, ast.Assert)):
        return paths
    # anything else: opaque effect
    for p in paths:
        p.effects.append(("other", s))
        out.append(p)
    return out


def _store(p, t, v):
    if isinstance(t, (ast.Name, ast.Attribute)):
        k = _key(t)
        if isinstance(t, ast.Attribute):
            # a store through a substituted base (`obj.x = v` where obj is a local) keeps the written text
            pass
        p.env[k] = v
    elif isinstance(t, (ast.Tuple, ast.List)):
        if isinstance(v, (ast.Tuple, ast.List)) and len(v.elts) == len(t.elts):
            for a, b in zip(t.elts, v.elts):
                _store(p, a, b)
        else:
            for i, a in enumerate(t.elts):
                _store(p, a, ast.Subscript(value=copy.deepcopy(v), slice=ast.Constant(value=i), ctx=ast.Load()))
    elif isinstance(t, ast.Subscript):
        p.effects.append(("store", subst(t, p.env), v))


def guard_texts(p, canon):
    """[(canonical test text, truth)] with conjunctions split."""
    from .q import conjuncts

    out = []
    for t, truth in p.guards:
        for e, tr in conjuncts(t, truth):
            out.append((canon(e), tr))
    return out
