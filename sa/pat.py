"""Structural patterns with metavariables.

A pattern is Python source in which `$x` stands for any expression (the same
expression at every occurrence); `$$x` stands for any *name* (identifier).
Both sides are canonicalised first (module prefixes stripped, integral floats
folded, commutative arguments sorted), so matching is insensitive to local
variable names, formatting, and `np.`/`numpy.` spelling, but sensitive to the
operators, callees, literals and data flow that carry the behaviour."""

import ast
import re

from .canon import canon_node, is_noise

_MV = "_MV_"
_NV = "_NV_"
_cache = {}


def _parse(pattern: str, mode: str):
    key = (pattern, mode)
    if key not in _cache:
        s = re.sub(r"\$\$(\w+)", _NV + r"\1", pattern)
        s = re.sub(r"\$(\w+)", _MV + r"\1", s)
        if mode == "expr":
            t = ast.parse(s, mode="eval").body
        else:
            t = ast.parse(s).body
            t = t[0] if len(t) == 1 else t
        _cache[key] = canon_node(t) if not isinstance(t, list) else [canon_node(x) for x in t]
    return _cache[key]


def _eq(a, b):
    return ast.dump(a) == ast.dump(b)


def _match(p, n, b):
    if isinstance(p, ast.Name) and p.id.startswith(_MV):
        k = p.id[len(_MV):]
        if k == "_":
            return True
        if k in b:
            return _eq(b[k], n)
        if not isinstance(n, ast.AST):
            return False
        b[k] = n
        return True
    if isinstance(p, ast.Name) and p.id.startswith(_NV):
        k = p.id[len(_NV):]
        if not isinstance(n, ast.Name):
            return False
        if k in b:
            return isinstance(b[k], ast.Name) and b[k].id == n.id
        b[k] = n
        return True
    # a metavariable standing alone as a statement matches any single statement
    if isinstance(p, ast.Expr) and isinstance(p.value, ast.Name) and p.value.id.startswith(_MV) and isinstance(n, ast.stmt):
        k = p.value.id[len(_MV):]
        if k.startswith("_"):
            return True
        if k in b:
            return _eq(b[k], n)
        b[k] = n
        return True
    if isinstance(p, ast.arg) and p.arg.startswith(_NV):
        if not isinstance(n, ast.arg):
            return False
        k = p.arg[len(_NV):]
        if k in b:
            return isinstance(b[k], ast.Name) and b[k].id == n.arg
        b[k] = ast.Name(id=n.arg, ctx=ast.Load())
        return True
    if isinstance(p, ast.AST):
        if type(p) is not type(n):
            return False
        for f in p._fields:
            if f in ("ctx", "type_comment", "kind"):
                continue
            if not _match(getattr(p, f, None), getattr(n, f, None), b):
                return False
        return True
    if isinstance(p, list):
        if not isinstance(n, list):
            return False
        # logging calls / `pass` / bare strings in the source never take part in a statement-list match
        if n and all(isinstance(x, ast.stmt) for x in n) and not any(isinstance(x, ast.stmt) and is_noise(x) for x in p):
            n = [x for x in n if not is_noise(x)]
        # `$_rest` as the last statement of a block matches any (possibly empty) remainder
        if p and isinstance(p[-1], ast.Expr) and isinstance(p[-1].value, ast.Name) and p[-1].value.id == _MV + "_rest":
            if len(n) < len(p) - 1:
                return False
            return all(_match(x, y, b) for x, y in zip(p[:-1], n))
        if len(p) != len(n):
            return False
        return all(_match(x, y, b) for x, y in zip(p, n))
    return p == n


def match_expr(pattern: str, node, binds=None, rename=None, inline=None):
    """Bindings dict if `node` matches the expression pattern, else None."""
    b = dict(binds or {})
    if node is None:
        return None
    n = canon_node(node, rename=rename, inline=inline)
    return b if _match(_parse(pattern, "expr"), n, b) else None


def match_stmt(pattern: str, node, binds=None):
    b = dict(binds or {})
    if node is None:
        return None
    n = canon_node(node)
    return b if _match(_parse(pattern, "stmt"), n, b) else None


def find_expr(pattern: str, root, binds=None):
    """All (node, bindings) sub-expressions of root matching the pattern."""
    out = []
    for n in ast.walk(root):
        if isinstance(n, ast.expr):
            b = match_expr(pattern, n, binds)
            if b is not None:
                out.append((n, b))
    return out


def find_stmt(pattern: str, root, binds=None):
    out = []
    for n in ast.walk(root):
        if isinstance(n, ast.stmt):
            b = match_stmt(pattern, n, binds)
            if b is not None:
                out.append((n, b))
    return out


def bound_src(b, k):
    return ast.unparse(b[k]) if k in b else None
