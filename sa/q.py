"""Query helpers on top of the program model and CFG: per-function analysis
objects, pattern finders, ordering / dominance / guard queries, writers."""

from __future__ import annotations

import ast
from typing import Callable, Dict, Iterable, List, Optional, Sequence, Set, Tuple

from . import AnalysisError
from .cfg import CFG
from .pm import FunctionInfo, Program, dotted, src

_CFG_CACHE: Dict[int, CFG] = {}


def cfg_of(fi: FunctionInfo) -> CFG:
    k = id(fi.node)
    if k not in _CFG_CACHE:
        _CFG_CACHE[k] = CFG(fi.node)
    return _CFG_CACHE[k]


def walk_no_nested(node: ast.AST):
    """ast.walk that does not descend into nested function / class / lambda bodies."""
    stack = [node]
    first = True
    while stack:
        n = stack.pop()
        if not first and isinstance(n, (ast.FunctionDef, ast.AsyncFunctionDef, ast.ClassDef, ast.Lambda)):
            continue
        first = False
        yield n
        stack.extend(ast.iter_child_nodes(n))


def calls_in(node: ast.AST, nested=False) -> List[ast.Call]:
    it = ast.walk(node) if nested else walk_no_nested(node)
    return [n for n in it if isinstance(n, ast.Call)]


def call_name(c: ast.Call) -> Optional[str]:
    return dotted(c.func)


def is_self_attr(node, attr=None, selfname="self") -> bool:
    return (
        isinstance(node, ast.Attribute)
        and isinstance(node.value, ast.Name)
        and node.value.id == selfname
        and (attr is None or node.attr == attr)
    )


def const(node, value=None) -> bool:
    if not isinstance(node, ast.Constant):
        return False
    return value is None or (node.value == value and type(node.value) is type(value))


def is_neg_inf(node) -> bool:
    """-np.inf / -inf / float('-inf') / -numpy.inf"""
    if isinstance(node, ast.UnaryOp) and isinstance(node.op, ast.USub):
        d = dotted(node.operand)
        return d in ("np.inf", "numpy.inf", "inf", "math.inf", "np.Inf")
    if isinstance(node, ast.Call) and call_name(node) == "float" and node.args:
        return const(node.args[0], "-inf")
    return False


def subscript_key(node) -> Optional[object]:
    """x["k"] -> "k";  x[0] -> 0"""
    if isinstance(node, ast.Subscript) and isinstance(node.slice, ast.Constant):
        return node.slice.value
    return None


def norm_args(call):
    """Positional arguments of a call with the leading keyword arguments of a uniquely named package callee moved into
    place (same normal form as canon's): `f(a, log_support=b)` -> [a, b]."""
    from .canon import SIGNATURES

    f = call.func
    callee = f.id if isinstance(f, ast.Name) else (f.attr if isinstance(f, ast.Attribute) else None)
    sig = SIGNATURES.get(callee)
    args = list(call.args)
    if sig and all(k.arg for k in call.keywords):
        kws = {k.arg: k.value for k in call.keywords}
        while len(args) < len(sig) and sig[len(args)] in kws:
            args.append(kws.pop(sig[len(args)]))
    return args


def stored_value(st):
    """The expression a store statement assigns: `t = e` -> e ; `t op= e` -> the BinOp `t op e` (which is what the
    normal form turned `t = t op e` into), so that a rule reads both spellings the same way."""
    import copy as _copy
    if isinstance(st, ast.Assign):
        return st.value
    if isinstance(st, ast.AugAssign):
        t = _copy.deepcopy(st.target)
        for x in ast.walk(t):
            if hasattr(x, "ctx"):
                x.ctx = ast.Load()
        return ast.copy_location(ast.BinOp(left=t, op=st.op, right=st.value), st)
    return None


def store_target(st):
    if isinstance(st, ast.Assign) and len(st.targets) == 1:
        return st.targets[0]
    if isinstance(st, (ast.AugAssign, ast.AnnAssign)):
        return st.target
    return None


def field_of(node, name: Optional[str] = None):
    """If node is `<base>["field"]` return (base_src, field) (optionally require base name)."""
    if isinstance(node, ast.Subscript) and isinstance(node.slice, ast.Constant) and isinstance(node.slice.value, str):
        b = src(node.value)
        if name is None or b == name:
            return (b, node.slice.value)
    return None


class FA:
    """Analysis of one function: CFG + statement finders."""

    def __init__(self, fi: FunctionInfo):
        self.fi = fi
        self.cfg = cfg_of(fi)
        args = fi.node.args.posonlyargs + fi.node.args.args
        self.selfname = args[0].arg if (fi.cls is not None and args and not fi.is_static) else None

    # -- finders -------------------------------------------------------
    def nodes(self):
        return self.cfg.statement_nodes()

    def find(self, pred: Callable[[ast.AST], bool], kinds=("stmt",)) -> List[int]:
        """CFG nodes (ids) whose own statement satisfies pred."""
        out = []
        for n in self.nodes():
            if n.kind in kinds and pred(n.ast):
                out.append(n.id)
        return sorted(out)

    def find_expr(self, pred: Callable[[ast.AST], bool]) -> List[Tuple[int, ast.AST]]:
        """(node id, sub-expression) for every own sub-expression satisfying pred."""
        out = []
        for n in self.nodes():
            for part in self.cfg.own_exprs(n.id):
                for sub in walk_no_nested(part):
                    if pred(sub):
                        out.append((n.id, sub))
        out.sort(key=lambda t: (getattr(t[1], "lineno", 0), getattr(t[1], "col_offset", 0)))
        return out

    def returns(self) -> List[Tuple[int, ast.Return]]:
        """(node id, return statement) for every return of the function itself."""
        return [(n.id, n.ast) for n in self.nodes() if n.kind == "stmt" and isinstance(n.ast, ast.Return)]

    def find_calls(self, name: str) -> List[Tuple[int, ast.Call]]:
        """Calls whose dotted callee equals `name` (e.g. 'self.state.increment')."""
        return self.find_expr(lambda e: isinstance(e, ast.Call) and call_name(e) == name)

    def find_calls_suffix(self, suffix: str) -> List[Tuple[int, ast.Call]]:
        def p(e):
            if not isinstance(e, ast.Call):
                return False
            n = call_name(e)
            if n is None and isinstance(e.func, ast.Attribute):
                return e.func.attr == suffix.lstrip(".")
            return n is not None and (n == suffix.lstrip(".") or n.endswith(suffix if suffix.startswith(".") else "." + suffix))

        return self.find_expr(p)

    def one(self, items: list, what: str):
        if len(items) != 1:
            raise AnalysisError(
                f"{self.fi.qual}: expected exactly one {what}, found {len(items)} "
                "(construct outside the fragment this rule understands)"
            )
        return items[0]

    def assigns_to_attr(self, attr: str) -> List[Tuple[int, ast.AST]]:
        """Statements that store to self.<attr> (plain, augmented, subscript/slice store, del)."""
        out = []
        for n in self.nodes():
            for part in self.cfg.own_exprs(n.id):
                for sub in walk_no_nested(part):
                    if isinstance(sub, ast.Attribute) and sub.attr == attr and isinstance(sub.value, ast.Name) and sub.value.id == self.selfname:
                        if isinstance(sub.ctx, (ast.Store, ast.Del)):
                            out.append((n.id, n.ast))
                    if isinstance(sub, ast.Subscript) and isinstance(sub.ctx, (ast.Store, ast.Del)):
                        b = sub.value
                        while isinstance(b, ast.Subscript):
                            b = b.value
                        if is_self_attr(b, attr, self.selfname):
                            out.append((n.id, n.ast))
        return out

    # -- order ---------------------------------------------------------
    def stmt(self, nid: int) -> ast.AST:
        return self.cfg.nodes[nid].ast

    def text(self, nid: int) -> str:
        n = self.cfg.nodes[nid]
        if n.kind in ("if", "while"):
            return f"{n.kind} {src(n.ast.test)}"
        if n.kind == "for":
            return f"for {src(n.ast.target)} in {src(n.ast.iter)}"
        if n.kind == "with":
            return "with " + ", ".join(src(i) for i in n.ast.items)
        return " ".join(src(n.ast).split())

    def dominates(self, a: int, b: int) -> bool:
        return self.cfg.dominates(a, b)

    def precedes_on_all_paths(self, a: int, b: int) -> bool:
        """b reachable, every path entry->b passes a, and a cannot re-execute after b... (a dominates b)."""
        return a != b and self.cfg.dominates(a, b)

    def never_after(self, a: int, b: int) -> bool:
        """a is never executed after b on any path."""
        return not self.cfg.can_follow(b, a)

    def once(self, a: int) -> bool:
        return not self.cfg.in_loop(a)

    def on_every_normal_path(self, a: int) -> bool:
        """Every path entry -> normal exit executes a."""
        return self.cfg.every_exit_path_passes(self.cfg.entry, [a])

    def every_path_from_passes(self, start: int, via: Iterable[int]) -> bool:
        """Every path from just after `start` to a normal exit passes through `via`."""
        via = list(via)
        for s in self.cfg.g.successors(start):
            if s in via:
                continue
            if not self.cfg.every_exit_path_passes(s, via):
                return False
        return True

    def guards(self, nid: int) -> List[Tuple[ast.AST, object]]:
        return self.cfg.guards(nid)


def compare_parts(test: ast.AST):
    """Single binary comparison -> (left, op class name, right) else None."""
    if isinstance(test, ast.Compare) and len(test.ops) == 1:
        return test.left, type(test.ops[0]).__name__, test.comparators[0]
    return None


def conjuncts(test: ast.AST, polarity=True) -> List[Tuple[ast.AST, bool]]:
    """Facts implied by `test` evaluating to `polarity`.

    (a and b) True -> a True, b True ; (a or b) False -> a False, b False ;
    not a -> flipped.
    """
    if isinstance(test, ast.UnaryOp) and isinstance(test.op, ast.Not):
        return conjuncts(test.operand, not polarity)
    if isinstance(test, ast.BoolOp):
        if isinstance(test.op, ast.And) and polarity:
            out = []
            for v in test.values:
                out += conjuncts(v, True)
            return out
        if isinstance(test.op, ast.Or) and not polarity:
            out = []
            for v in test.values:
                out += conjuncts(v, False)
            return out
    # one spelling per atomic comparison: `a is not b` True == `a is b` False (likewise in / ==)
    if isinstance(test, ast.Compare) and len(test.ops) == 1 and type(test.ops[0]) in _POS_OPS:
        test = ast.copy_location(ast.Compare(left=test.left, ops=[_POS_OPS[type(test.ops[0])]()], comparators=test.comparators), test)
        polarity = not polarity
    return [(test, polarity)]


_POS_OPS = {ast.IsNot: ast.Is, ast.NotIn: ast.In, ast.NotEq: ast.Eq}


def guard_facts(fa: FA, nid: int) -> List[Tuple[ast.AST, bool]]:
    """Atomic facts (expr, truth) known to hold whenever nid executes."""
    out = []
    for test, label in fa.guards(nid):
        if label in (True, False) and isinstance(test, ast.expr):
            out += conjuncts(test, label)
    return out


_NEG = {"Gt": "LtE", "GtE": "Lt", "Lt": "GtE", "LtE": "Gt", "Eq": "NotEq", "NotEq": "Eq", "Is": "IsNot", "IsNot": "Is", "In": "NotIn", "NotIn": "In"}
_FLIP = {"Gt": "Lt", "GtE": "LtE", "Lt": "Gt", "LtE": "GtE", "Eq": "Eq", "NotEq": "NotEq"}


def norm_compare(expr: ast.AST, truth: bool):
    """(left_src, op, right_src) with truth folded in; None if not a simple comparison."""
    p = compare_parts(expr)
    if not p:
        return None
    l, op, r = p
    if not truth:
        op = _NEG.get(op)
        if op is None:
            return None
    return src(l), op, src(r)


_NEG_OPS = {ast.Gt: ast.LtE, ast.GtE: ast.Lt, ast.Lt: ast.GtE, ast.LtE: ast.Gt, ast.Eq: ast.NotEq, ast.NotEq: ast.Eq, ast.Is: ast.IsNot, ast.IsNot: ast.Is, ast.In: ast.NotIn, ast.NotIn: ast.In}


def nfact(e: ast.AST, truth: bool = True):
    """One normal form per atomic fact: (canonical text, truth) with the negation of a
    single comparison folded into its operator (`x is None` False == `x is not None` True)."""
    from .canon import canon

    if isinstance(e, str):
        e = ast.parse(e, mode="eval").body
    facts = conjuncts(e, truth)
    if len(facts) != 1:
        return (canon(e), truth)
    e, truth = facts[0]
    if not truth and isinstance(e, ast.Compare) and len(e.ops) == 1 and type(e.ops[0]) in _NEG_OPS:
        e = ast.Compare(left=e.left, ops=[_NEG_OPS[type(e.ops[0])]()], comparators=e.comparators)
        truth = True
    return (canon(e), truth)


def nfacts(facts):
    return [nfact(e, t) for e, t in facts]


def holds(facts, text, truth: bool = True) -> bool:
    """`text` (a Python expression) is known to evaluate to `truth` under `facts`, in whichever spelling."""
    return nfact(text, truth) in nfacts(facts)


def if_arms(ifnode: ast.If, cond):
    """(statements run when `cond` holds, statements run when it does not) if the test of
    `ifnode` is `cond` or its negation (arms swapped), else None. Log statements are not part of an arm."""
    from .canon import strip_noise

    want = nfact(cond, True)
    if nfact(ifnode.test, True) == want:
        return strip_noise(ifnode.body), strip_noise(ifnode.orelse)
    if nfact(ifnode.test, False) == want:
        return strip_noise(ifnode.orelse), strip_noise(ifnode.body)
    return None


def ifs_on(root, cond):
    """[(ifnode, then_arm, else_arm)] for every `if` under root testing `cond` or its negation."""
    out = []
    for n in walk_no_nested(root):
        if isinstance(n, ast.If):
            a = if_arms(n, cond)
            if a is not None:
                out.append((n, a[0], a[1]))
    return out


def returns_under(fi):
    """{canonical text of a returned value: [set of normalised guard facts, one per return site]} - what a
    function returns under which tests, whatever the shape (if/else, early return, swapped arms)."""
    from .canon import canon

    fa = FA(fi)
    out = {}
    for nid, r in fa.returns():
        out.setdefault(canon(r.value) if r.value is not None else None, []).append(set(nfacts(guard_facts(fa, nid))))
    return out


def literal_tests(facts, is_selector):
    """(literals the selector is known to equal, literals it is known to differ from) under `facts`;
    understands ==, !=, in (...), not in (...) in either polarity."""
    pos, neg = set(), set()
    for e, t in facts:
        if not (isinstance(e, ast.Compare) and len(e.ops) == 1):
            continue
        l, r, op = e.left, e.comparators[0], e.ops[0]
        if isinstance(op, (ast.Eq, ast.NotEq)):
            if isinstance(l, ast.Constant):
                l, r = r, l
            if isinstance(r, ast.Constant) and is_selector(l):
                (pos if isinstance(op, ast.Eq) == t else neg).add(r.value)
        elif isinstance(op, (ast.In, ast.NotIn)) and is_selector(l) and isinstance(r, (ast.Tuple, ast.List, ast.Set)) and all(isinstance(x, ast.Constant) for x in r.elts):
            vals = {x.value for x in r.elts}
            if isinstance(op, ast.In) == t:
                if len(vals) == 1:
                    pos |= vals
            else:
                neg |= vals
    return pos, neg


def mode_under(facts, is_selector, universe=None):
    """The single selector value under which a node runs: a positive literal test, or - given the
    universe of legal values - the one value all negative tests leave over. None if undetermined."""
    pos, neg = literal_tests(facts, is_selector)
    if len(pos) == 1:
        return next(iter(pos))
    if not pos and universe is not None:
        left = set(universe) - neg
        if len(left) == 1 and neg:
            return next(iter(left))
    return None


def has_fact(facts, left: str, op: str, right: str) -> bool:
    for e, t in facts:
        n = norm_compare(e, t)
        if not n:
            continue
        if n == (left, op, right):
            return True
        if op in _FLIP and n == (right, _FLIP[op], left):
            return True
    return False


# -- writers across the package ---------------------------------------


def attr_stores(prog: Program, attr: str, classes: Optional[Sequence] = None):
    """All (FunctionInfo, node, kind) storing to `<name>.<attr>` where kind in
    assign / augassign / subscript / del / method:<m> (mutating call on it)."""
    out = []
    for f in prog.all_functions:
        if classes is not None and f.cls not in classes:
            continue
        for n in walk_no_nested(f.node):
            if isinstance(n, ast.Attribute) and n.attr == attr and isinstance(n.ctx, (ast.Store, ast.Del)):
                out.append((f, n, "del" if isinstance(n.ctx, ast.Del) else "assign"))
            elif isinstance(n, ast.Subscript) and isinstance(n.ctx, (ast.Store, ast.Del)):
                b = n.value
                while isinstance(b, ast.Subscript):
                    b = b.value
                if isinstance(b, ast.Attribute) and b.attr == attr:
                    out.append((f, n, "subscript"))
    return out


MUTATORS = {"append", "extend", "insert", "pop", "remove", "clear", "sort", "reverse", "update", "fill", "put", "resize", "setdefault", "popitem", "__setitem__", "setfield", "itemset"}


def attr_mutating_calls(prog: Program, attr: str, classes=None):
    out = []
    for f in prog.all_functions:
        if classes is not None and f.cls not in classes:
            continue
        for n in walk_no_nested(f.node):
            if isinstance(n, ast.Call) and isinstance(n.func, ast.Attribute) and n.func.attr in MUTATORS:
                b = n.func.value
                while isinstance(b, ast.Subscript):
                    b = b.value
                if isinstance(b, ast.Attribute) and b.attr == attr:
                    out.append((f, n, n.func.attr))
    return out
