"""Static-analysis engine for the nessai verification task.

Nothing in this package imports or executes code from the repository under
analysis: sources are parsed with :mod:`ast` and decided on syntax, flow graphs
and the resolved call graph only.
"""


class AnalysisError(Exception):
    """Anchor vanished / construct outside the fragment a rule understands.

    Mapped to exit code 2 (never a VIOLATION).
    """
