"""Obligations, verdicts, evidence, known findings and the check runner."""

from __future__ import annotations

import ast
import importlib
import json
import os
import sys
import time
import traceback
from dataclasses import dataclass, field, asdict
from typing import Callable, Dict, List, Optional

from . import AnalysisError
from .pm import Program, FunctionInfo, src

VERIF = os.path.dirname(os.path.dirname(os.path.abspath(__file__)))
EVIDENCE_DIR = os.path.join(VERIF, "evidence")
REPORT_DIR = os.path.join(EVIDENCE_DIR, "reports")
KNOWN_FINDINGS = os.path.join(VERIF, "known_findings.json")


@dataclass
class Ob:
    rule: str  # rule kind, e.g. R-ORDER
    clause: str  # clause of the property design, e.g. C01.2
    where: str  # qualified function / class / module
    construct: str  # normalised construct (source text, no line numbers)
    ok: bool
    detail: str = ""
    loc: str = ""  # file:line (diagnostic only; never part of the key)

    @property
    def key(self) -> str:
        return f"{self.rule}|{self.where}|{self.construct}"


class Ctx:
    def __init__(self, prop_id: str, prog: Program, tier: str = "quick", seed: int = 0):
        self.prop_id = prop_id
        self.prog = prog
        self.tier = tier
        self.seed = seed
        self.obs: List[Ob] = []
        self.notes: List[str] = []
        self.floors: Dict[str, int] = {}
        self.extra: Dict[str, object] = {}
        self.assumptions: List[str] = []
        self.analysed_functions: set = set()

    # -- recording -----------------------------------------------------
    def ob(self, rule, clause, where, construct, ok, detail="", node=None, fn: FunctionInfo = None) -> bool:
        if isinstance(where, FunctionInfo):
            fn = fn or where
            where = where.qual
        loc = ""
        if fn is not None:
            self.analysed_functions.add(fn.qual)
            loc = fn.loc(node) if node is not None else fn.loc()
        if not isinstance(construct, str):
            construct = src(construct)
        construct = " ".join(construct.split())
        self.obs.append(Ob(rule, clause, where, construct, bool(ok), detail, loc))
        return bool(ok)

    def note(self, msg: str):
        self.notes.append(msg)

    def floor(self, clause: str, n: int):
        """At least n obligations must have been enumerated for this clause."""
        self.floors[clause] = n

    def require(self, cond, msg: str):
        if not cond:
            raise AnalysisError(msg)
        return cond

    def fn(self, qual: str) -> FunctionInfo:
        f = self.prog.fn(qual)
        self.analysed_functions.add(f.qual)
        return f

    def check_floors(self):
        counts: Dict[str, int] = {}
        for o in self.obs:
            counts[o.clause] = counts.get(o.clause, 0) + 1
        for clause, n in self.floors.items():
            if counts.get(clause, 0) < n:
                raise AnalysisError(
                    f"clause {clause}: only {counts.get(clause, 0)} rule instances "
                    f"matched (hand-confirmed floor {n}); the rule would pass vacuously"
                )


def load_known() -> dict:
    if not os.path.exists(KNOWN_FINDINGS):
        return {"findings": [], "fixed": []}
    with open(KNOWN_FINDINGS) as fh:
        return json.load(fh)


def prop_module(prop_id: str):
    return importlib.import_module(f"sa.props.{prop_id}")


def make_program(prop_id: str, repo: str, overrides=None) -> Program:
    """The program model a property is decided on: log statements are stripped
    unless the property's module asks to keep them (KEEP_LOGGING)."""
    mod = prop_module(prop_id)
    keep = bool(getattr(mod, "KEEP_LOGGING", False))
    return Program(repo, overrides=overrides, strip_logging=not keep, inline_temps=not bool(getattr(mod, "KEEP_TEMPS", False)))


def analyse(prop_id: str, repo: str, tier: str = "quick", prog: Program = None, seed: int = 0) -> Ctx:
    """Run the rules of one property against `repo`; returns the context
    (raises AnalysisError for exit-2 conditions)."""
    if prog is None:
        prog = make_program(prop_id, repo)
    ctx = Ctx(prop_id, prog, tier, seed)
    mod = prop_module(prop_id)
    try:
        mod.run(ctx)
        ctx.check_floors()
    except Exception as e:
        # obligations already decided stand on their own: a violation that was
        # established before a later rule lost its anchor (or crashed on the
        # changed construct) is still reported
        listed = {f["key"] for f in load_known().get("findings", []) if f["property"] == prop_id}
        if any(not o.ok and o.key not in listed for o in ctx.obs):
            ctx.note(f"analysis stopped early after a violation was established: {e}")
            ctx.incomplete = str(e)
            return ctx
        raise
    return ctx


def _samples(ctx: Ctx, n=12):
    out = []
    seen_rules = set()
    # one per (clause) first, then fill
    for o in ctx.obs:
        if o.clause not in seen_rules:
            seen_rules.add(o.clause)
            out.append(o)
    for o in ctx.obs:
        if len(out) >= n:
            break
        if o not in out:
            out.append(o)
    return [
        {
            "rule": o.rule,
            "clause": o.clause,
            "where": o.where,
            "loc": o.loc,
            "construct": o.construct[:300],
            "verdict": "ok" if o.ok else "VIOLATED",
            "detail": o.detail[:300],
        }
        for o in out[: max(n, len(seen_rules))]
    ]


def write_evidence(prop_id, tier, seed, wall, ctx: Optional[Ctx], violations, known_hits, status, error=None, selftest=None, technique=""):
    os.makedirs(EVIDENCE_DIR, exist_ok=True)
    obs = ctx.obs if ctx else []
    by_clause: Dict[str, Dict[str, int]] = {}
    for o in obs:
        d = by_clause.setdefault(o.clause, {"rule": o.rule, "instances": 0, "discharged": 0})
        d["instances"] += 1
        d["discharged"] += int(o.ok)
    distinct = len({o.key for o in obs})
    cov = {
        "explanation": (
            "Static analysis of /repo/nessai sources (ast + statement CFG + resolved call graph); "
            "each obligation is one rule instance enumerated from the current source and decided "
            "without executing repository code. " + technique
        ),
        "status": status,
        "obligations": len(obs),
        "discharged": sum(1 for o in obs if o.ok),
        "evaluations": max(len(obs), 1),
        "distinct_nontrivial": distinct,
        "rule": "one evaluation = one rule instance (rule, qualified function, normalised construct) found in the current source; distinct = distinct keys; every instance is non-trivial (a construct whose change flips the verdict)",
        "per_clause": by_clause,
        "samples": _samples(ctx) if ctx else [{"error": error}],
        "program": ctx.prog.stats() if ctx else {},
        "functions_analysed": sorted(ctx.analysed_functions) if ctx else [],
        "notes": ctx.notes if ctx else [],
        "known_findings_reported": known_hits,
        "unlisted_violations": [
            {"key": o.key, "clause": o.clause, "loc": o.loc, "detail": o.detail} for o in violations
        ],
    }
    if ctx:
        cov.update(ctx.extra)
    if selftest is not None:
        cov["selftest"] = selftest
    if error:
        cov["analysis_error"] = error
    ev = {
        "property_id": prop_id,
        "tier": tier,
        "seed": seed,
        "level": "other",
        "coverage": cov,
        "assumptions": (ctx.assumptions if ctx else []) + [
            "Python semantics of the constructs recognised by the rules; user subclasses (Model, custom proposals, callbacks) are outside the analysed program",
        ],
        "wall_s": round(wall, 3),
        "violations": len(violations),
    }
    path = os.path.join(EVIDENCE_DIR, f"{prop_id}.json")
    tmp = path + ".tmp"
    with open(tmp, "w") as fh:
        json.dump(ev, fh, indent=1, default=str)
    os.replace(tmp, path)
    return path


def run_check(prop_id: str, repo: str, tier: str, seed: int = 0, quiet=False) -> int:
    t0 = time.time()
    technique = ""
    try:
        mod = prop_module(prop_id)
        technique = getattr(mod, "TECHNIQUE", "")
        ctx = analyse(prop_id, repo, tier, seed=seed)
    except AnalysisError as e:
        print(f"ANALYSIS-ERROR property={prop_id}: {e}")
        write_evidence(prop_id, tier, seed, time.time() - t0, None, [], [], "analysis-error", error=str(e))
        return 2
    except Exception as e:  # a crash of the analyser is never a violation
        tb = traceback.format_exc()
        print(f"ANALYSIS-ERROR property={prop_id}: internal error: {e!r}")
        sys.stderr.write(tb)
        write_evidence(prop_id, tier, seed, time.time() - t0, None, [], [], "analysis-error", error=tb[-2000:])
        return 2

    known = load_known()
    listed = [f for f in known.get("findings", []) if f["property"] == prop_id]
    listed_keys = {f["key"]: f for f in listed}
    bad = [o for o in ctx.obs if not o.ok]
    unlisted = [o for o in bad if o.key not in listed_keys]
    known_hits = []
    seen = set()
    for o in bad:
        if o.key in listed_keys and o.key not in seen:
            seen.add(o.key)
            f = listed_keys[o.key]
            known_hits.append({"id": f.get("id"), "key": o.key, "what": f["what"]})
            print(f"KNOWN-FINDING: property={prop_id} {f.get('id','')} {f['what']} [{o.loc}]")
    stale = [f for f in listed if f["key"] not in seen]
    for f in stale:
        ctx.note(f"known finding {f.get('id')} no longer reproduces on this tree: {f['key']}")

    selftest = None
    rc = 0
    if tier == "thorough" and not unlisted:
        try:
            from . import selftest as st

            selftest = st.run_for_property(prop_id, repo)
            if selftest["failed"]:
                print(
                    f"ANALYSIS-ERROR property={prop_id}: self-test failed: "
                    + "; ".join(selftest["failed"][:5])
                )
                rc = 2
        except AnalysisError as e:
            print(f"ANALYSIS-ERROR property={prop_id}: self-test: {e}")
            rc = 2

    if unlisted:
        os.makedirs(REPORT_DIR, exist_ok=True)
        rpath = os.path.join(REPORT_DIR, f"{prop_id}-violation.json")
        with open(rpath, "w") as fh:
            json.dump(
                {
                    "property": prop_id,
                    "repo": repo,
                    "tier": tier,
                    "violations": [asdict(o) | {"key": o.key} for o in unlisted],
                },
                fh,
                indent=1,
            )
        for o in unlisted:
            print(f"  {o.loc}: [{o.rule} {o.clause}] {o.where}: {o.construct[:160]} -- {o.detail[:300]}")
        print(f"VIOLATION property={prop_id} replay={rpath}")
        rc = 1
    wall = time.time() - t0
    write_evidence(
        prop_id, tier, seed, wall, ctx, unlisted, known_hits,
        "violation" if rc == 1 else ("analysis-error" if rc == 2 else "ok"),
        selftest=selftest, technique=technique,
    )
    if not quiet and rc == 0:
        n_ok = sum(1 for o in ctx.obs if o.ok)
        print(
            f"OK property={prop_id} tier={tier}: {n_ok}/{len(ctx.obs)} obligations discharged, "
            f"{len(known_hits)} known finding(s), {len(ctx.analysed_functions)} functions analysed, {wall:.2f}s"
        )
    return rc
