"""Whole-package call graph over resolved callees (virtual dispatch included).
Property reads on typed receivers are edges too (a property body runs on read)."""

import ast

import networkx as nx

from .q import walk_no_nested
from .resolve import resolver

_CG = {}


def callgraph(prog):
    if id(prog) in _CG:
        return _CG[id(prog)]
    res = resolver(prog)
    g = nx.DiGraph()
    sites = {}
    for f in prog.all_functions:
        g.add_node(f.qual)
        if f.parent is not None:
            g.add_edge(f.parent.qual, f.qual)  # a nested helper runs (if at all) from its parent
        for n in walk_no_nested(f.node):
            if isinstance(n, ast.Call):
                cs = res.resolve_call(f, n, count=False)
                for c in cs or []:
                    g.add_edge(f.qual, c.qual)
                    sites.setdefault((f.qual, c.qual), []).append(n)
            elif isinstance(n, ast.Attribute) and isinstance(n.ctx, ast.Load):
                tys = res.expr_type(f, n.value)
                for c in tys or []:
                    for k in [c] + prog.subclasses(c):
                        m = prog.find_method(k, n.attr)
                        if m is not None and m.is_property:
                            g.add_edge(f.qual, m.qual)
    _CG[id(prog)] = (g, sites)
    return g, sites


def reachable_from(prog, roots):
    g, _ = callgraph(prog)
    out = set()
    for r in roots:
        if r in g:
            out |= {r} | nx.descendants(g, r)
    return out
