"""Flow-insensitive type inference for receivers (which in-package class an
expression denotes) and callee resolution with virtual dispatch."""

from __future__ import annotations

import ast
import builtins
from typing import Dict, List, Optional, Set, Tuple

from . import AnalysisError
from . import tables
from .pm import ClassInfo, FunctionInfo, Program, dotted, src
from .q import walk_no_nested

UNKNOWN = None


class Resolver:
    def __init__(self, prog: Program):
        self.prog = prog
        self._field_cache: Dict[ClassInfo, Dict[str, Optional[Set[ClassInfo]]]] = {}
        self._env_cache: Dict[int, Dict[str, Optional[Set[ClassInfo]]]] = {}
        self._frozen: Dict[Tuple[ClassInfo, str], Set[ClassInfo]] = {}
        for (cq, attr), cands in tables.FIELD_TYPES.items():
            c = prog.cls(cq)
            self._frozen[(c, attr)] = {prog.cls(x) for x in cands}
        self._local_frozen: Dict[Tuple[str, str], Set[ClassInfo]] = {}
        for (fq, var), cands in tables.LOCAL_TYPES.items():
            f = prog.fn(fq)
            self._local_frozen[(f.qual, var)] = {prog.cls(x) for x in cands}
        self.unresolved_calls = 0
        self.resolved_calls = 0

    # -- helpers -------------------------------------------------------
    def selfname(self, f: FunctionInfo) -> Optional[str]:
        if f.cls is None or f.is_static:
            return None
        top = f
        while top.parent is not None:
            top = top.parent
        args = top.node.args.posonlyargs + top.node.args.args
        return args[0].arg if args else None

    def _ann_class(self, m, ann) -> Optional[Set[ClassInfo]]:
        if ann is None:
            return None
        if isinstance(ann, ast.Constant) and isinstance(ann.value, str):
            try:
                ann = ast.parse(ann.value, mode="eval").body
            except SyntaxError:
                return None
        if isinstance(ann, ast.Subscript) and dotted(ann.value) in ("Optional", "typing.Optional"):
            return self._ann_class(m, ann.slice)
        r = self.prog.resolve_expr(m, ann) if isinstance(ann, (ast.Name, ast.Attribute)) else None
        if r and r[0] == "class":
            return {r[1]}
        return None

    def own_field_types(self, c: ClassInfo) -> Dict[str, Optional[Set[ClassInfo]]]:
        if c in self._field_cache:
            return self._field_cache[c]
        out: Dict[str, Optional[Set[ClassInfo]]] = {}
        self._field_cache[c] = out
        for f in list(c.methods.values()) + list(c.setters.values()):
            sn = self.selfname(f)
            for n in walk_no_nested(f.node):
                if isinstance(n, ast.Assign):
                    for t in n.targets:
                        if isinstance(t, ast.Attribute) and isinstance(t.value, ast.Name) and t.value.id == sn:
                            ty = self.expr_type(f, n.value, shallow=True)
                            if isinstance(n.value, ast.Constant) and n.value.value is None:
                                continue  # None placeholder does not decide the type
                            if t.attr in out and out[t.attr] is not None and ty is not None:
                                out[t.attr] = out[t.attr] | ty
                            elif t.attr in out and (out[t.attr] is None or ty is None):
                                out[t.attr] = None
                            else:
                                out[t.attr] = ty
            if f.is_property:
                ty = self._ann_class(f.module, f.node.returns)
                if ty:
                    out[f.name] = ty
        return out

    def field_type(self, c: ClassInfo, attr: str) -> Optional[Set[ClassInfo]]:
        for k in self.prog.mro(c):
            if (k, attr) in self._frozen:
                return set(self._frozen[(k, attr)])
        for k in self.prog.mro(c):
            ft = self.own_field_types(k)
            if attr in ft:
                return ft[attr]
        return None

    def local_env(self, f: FunctionInfo) -> Dict[str, Optional[Set[ClassInfo]]]:
        k = id(f.node)
        if k in self._env_cache:
            return self._env_cache[k]
        env: Dict[str, Optional[Set[ClassInfo]]] = {}
        self._env_cache[k] = env
        # annotated parameters
        a = f.node.args
        for arg in a.posonlyargs + a.args + a.kwonlyargs:
            ty = self._ann_class(f.module, arg.annotation)
            if ty:
                env[arg.arg] = ty
        for (fq, var), tys in self._local_frozen.items():
            if fq == f.qual:
                env[var] = set(tys)
        stores: Dict[str, List[Optional[Set[ClassInfo]]]] = {}
        for n in walk_no_nested(f.node):
            if isinstance(n, ast.Assign) and len(n.targets) == 1 and isinstance(n.targets[0], ast.Name):
                stores.setdefault(n.targets[0].id, []).append(n.value)
            elif isinstance(n, (ast.For, ast.comprehension)):
                for t in ast.walk(n.target):
                    if isinstance(t, ast.Name):
                        stores.setdefault(t.id, []).append(None)
            elif isinstance(n, (ast.AugAssign, ast.AnnAssign)) and isinstance(n.target, ast.Name):
                stores.setdefault(n.target.id, []).append(None)
            elif isinstance(n, ast.Assign):
                for t in n.targets:
                    for x in ast.walk(t):
                        if isinstance(x, ast.Name) and isinstance(x.ctx, ast.Store):
                            stores.setdefault(x.id, []).append(None)
            elif isinstance(n, ast.With):
                for it in n.items:
                    if it.optional_vars is not None:
                        for x in ast.walk(it.optional_vars):
                            if isinstance(x, ast.Name):
                                stores.setdefault(x.id, []).append(None)
        for name, vals in stores.items():
            if name in env:
                continue
            tys = []
            for v in vals:
                if v is None:
                    tys = None
                    break
                if isinstance(v, ast.Constant) and v.value is None:
                    continue
                env[name] = None  # break self-reference cycles
                t = self.expr_type(f, v)
                if t is None:
                    tys = None
                    break
                tys.append(t)
            env[name] = set().union(*tys) if tys else None
        return env

    def expr_type(self, f: FunctionInfo, e: ast.AST, shallow=False) -> Optional[Set[ClassInfo]]:
        """In-package classes `e` may be an *instance* of (None = unknown)."""
        sn = self.selfname(f)
        if isinstance(e, ast.Name):
            if e.id == sn and f.cls is not None and not f.is_classmethod:
                return {f.cls}
            if shallow:
                return None
            env = self.local_env(f)
            if f.parent is not None and e.id not in env:
                return self.local_env(f.parent).get(e.id)
            return env.get(e.id)
        if isinstance(e, ast.Attribute):
            base = self.expr_type(f, e.value, shallow)
            if not base:
                return None
            out: Set[ClassInfo] = set()
            for c in base:
                t = self.field_type(c, e.attr)
                if t is None:
                    return None
                out |= t
            return out or None
        if isinstance(e, ast.Call):
            name = dotted(e.func)
            if name in ("copy.copy", "copy.deepcopy", "copy", "deepcopy") and len(e.args) == 1:
                return self.expr_type(f, e.args[0], shallow)
            # obj = super(K, cls).<this classmethod>(...)  ->  an instance of the class being resumed / built
            if f.is_classmethod and f.cls is not None and isinstance(e.func, ast.Attribute) and e.func.attr == f.name and isinstance(e.func.value, ast.Call) and isinstance(e.func.value.func, ast.Name) and e.func.value.func.id == "super":
                return {f.cls}
            r = self.class_of_callable(f, e.func)
            if r is not None:
                return {r}
            callees = self.resolve_call(f, e, count=False) if not shallow else None
            if callees:
                out = set()
                for g in callees:
                    t = self._ann_class(g.module, g.node.returns)
                    if not t:
                        return None
                    out |= t
                return out
            return None
        if isinstance(e, ast.IfExp):
            a, b = self.expr_type(f, e.body, shallow), self.expr_type(f, e.orelse, shallow)
            if a and b:
                return a | b
            return None
        return None

    def is_frozen_receiver(self, f: FunctionInfo, e: ast.AST) -> bool:
        """The candidate classes of `e` come from a frozen table, which lists
        exact classes (subclasses are not implied)."""
        if isinstance(e, ast.Attribute):
            base = self.expr_type(f, e.value)
            for c in base or []:
                for k in self.prog.mro(c):
                    if (k, e.attr) in self._frozen:
                        return True
        if isinstance(e, ast.Name):
            if (f.qual, e.id) in self._local_frozen:
                return True
        return False

    def class_of_callable(self, f: FunctionInfo, func: ast.AST) -> Optional[ClassInfo]:
        """If `func` denotes an in-package class object (constructor call), return it."""
        if isinstance(func, ast.Name):
            if f.is_classmethod and f.cls is not None:
                args = f.node.args.posonlyargs + f.node.args.args
                if args and func.id == args[0].arg:
                    return f.cls
            # local shadowing: a local variable of that name is not the class
            r = self.prog.resolve_name(f.module, func.id)
            if r and r[0] == "class":
                if func.id in self._local_names(f):
                    return None
                return r[1]
            return None
        if isinstance(func, ast.Attribute):
            r = self.prog.resolve_expr(f.module, func)
            if r and r[0] == "class":
                return r[1]
        return None

    def _local_names(self, f: FunctionInfo) -> Set[str]:
        out = set(f.params())
        for n in walk_no_nested(f.node):
            if isinstance(n, ast.Name) and isinstance(n.ctx, ast.Store):
                out.add(n.id)
        return out

    # -- calls ---------------------------------------------------------
    def resolve_call(self, f: FunctionInfo, call: ast.Call, count=True, virtual=True) -> Optional[List[FunctionInfo]]:
        """In-package callees of `call` ([] = resolved to something outside the
        package / a builtin, None = cannot tell)."""
        func = call.func
        prog = self.prog
        res: Optional[List[FunctionInfo]] = None
        sn = self.selfname(f)
        if isinstance(func, ast.Name):
            # nested helper?
            top = f
            while top is not None:
                q = f"{top.qual}.<locals>.{func.id}"
                if q in prog.functions:
                    res = [prog.functions[q]]
                    break
                top = top.parent
            if res is None:
                c = self.class_of_callable(f, func)
                if c is not None:
                    init = prog.find_method(c, "__init__")
                    res = [init] if init else []
                elif func.id in self._local_names(f):
                    res = None
                else:
                    r = prog.resolve_name(f.module, func.id)
                    if r and r[0] == "func":
                        res = [r[1]]
                    elif r and r[0] in ("ext",):
                        res = []
                    elif r is None and hasattr(builtins, func.id):
                        res = []
        elif isinstance(func, ast.Attribute):
            # super().m()
            v = func.value
            if isinstance(v, ast.Call) and isinstance(v.func, ast.Name) and v.func.id == "super" and f.cls is not None:
                start = f.cls
                if v.args:
                    r = prog.resolve_expr(f.module, v.args[0])
                    if r and r[0] == "class":
                        start = r[1]
                # the actual receiver may be any subclass; `super(K, self)` continues after K in the
                # receiver's MRO.  With single inheritance (the only kind used with super in this
                # package) that is K's own MRO tail.
                g = prog.find_method(start, func.attr, after=start)
                res = [g] if g else []
            else:
                r = prog.resolve_expr(f.module, func)
                if r and r[0] == "func":
                    res = [r[1]]
                elif r and r[0] == "class":
                    init = prog.find_method(r[1], "__init__")
                    res = [init] if init else []
                elif r and r[0] == "ext":
                    res = []
                else:
                    # cls.m() in a classmethod
                    if f.is_classmethod and isinstance(v, ast.Name) and v.id == (f.node.args.args[0].arg if f.node.args.args else None):
                        tys = {f.cls}
                    else:
                        tys = self.expr_type(f, v)
                    if tys:
                        out: List[FunctionInfo] = []
                        is_self = isinstance(v, ast.Name) and v.id == sn
                        exact = self.is_frozen_receiver(f, v)
                        for c in tys:
                            cands = [c] + (prog.subclasses(c) if (virtual and not exact) else [])
                            if is_self and f.parent is None and f.cls is not None:
                                # receivers of `self.m()` inside f are the classes that
                                # actually inherit f (a subclass overriding f never runs it)
                                own = f.name + (".setter" if f.is_setter else "")
                                cands = [k for k in cands if (prog.find_setter(k, f.name) if f.is_setter else prog.find_method(k, f.name)) is f] or [c]
                            for k in cands:
                                g = prog.find_method(k, func.attr)
                                if g is not None and g not in out:
                                    out.append(g)
                        if out:
                            res = out
                        else:
                            # attribute holding a callable, or method of an external base
                            res = None
        if count:
            if res is None:
                self.unresolved_calls += 1
            else:
                self.resolved_calls += 1
        return res


_RES: Dict[int, Resolver] = {}


def resolver(prog: Program) -> Resolver:
    if id(prog) not in _RES:
        _RES[id(prog)] = Resolver(prog)
    return _RES[id(prog)]
