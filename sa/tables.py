"""Frozen tables, each entry confirmed by reading the code; one line of reason
per entry.  An entry naming a class / attribute that no longer exists fails
the run (exit 2) when it is consulted, so tables cannot rot into blanket
suppressions."""

NS = "nessai.samplers.nestedsampler:NestedSampler"
INS = "nessai.samplers.importancesampler:ImportanceNestedSampler"
BASE = "nessai.samplers.base:BaseNestedSampler"
FP = "nessai.proposal.flowproposal:FlowProposal"
AFP = "nessai.proposal.augmented:AugmentedFlowProposal"
GWFP = "nessai.gw.proposal:GWFlowProposal"
AGWFP = "nessai.gw.proposal:AugmentedGWFlowProposal"
CFP = "nessai.experimental.proposal.clustering:ClusteringFlowProposal"
CGWFP = "nessai.experimental.gw.proposal:ClusteringGWFlowProposal"
IFP = "nessai.proposal.importance:ImportanceFlowProposal"
PROPOSAL = "nessai.proposal.base:Proposal"
ANALYTIC = "nessai.proposal.analytic:AnalyticProposal"
REJECTION = "nessai.proposal.rejection:RejectionProposal"
FM = "nessai.flowmodel.base:FlowModel"
IFM = "nessai.flowmodel.importance:ImportanceFlowModel"
CFM = "nessai.experimental.flowmodel.clustering:ClusteringFlowModel"
MODEL = "nessai.model:Model"
FS = "nessai.flowsampler:FlowSampler"
OS_ = "nessai.samplers.importancesampler:OrderedSamples"
COMBINED = "nessai.reparameterisations.combined:CombinedReparameterisation"

# (class, attribute) -> candidate classes of the object stored there.
# Only attributes whose class is chosen dynamically need an entry; the rest is
# inferred from `self.f = Cls(...)` assignments.
FIELD_TYPES = {
    (BASE, "model"): [MODEL],  # constructor argument `model`, documented as nessai.model.Model
    (PROPOSAL, "model"): [MODEL],  # same, for every proposal
    (IFP, "model"): [MODEL],
    (NS, "_flow_proposal"): [FP, AFP, GWFP, AGWFP, CFP, CGWFP],  # get_flow_proposal_class: the five in-package names
    (NS, "_uninformed_proposal"): [ANALYTIC, REJECTION],  # configure_uninformed_proposal
    (NS, "proposal"): [FP, AFP, GWFP, AGWFP, CFP, CGWFP, ANALYTIC, REJECTION],  # initialise / check_proposal_switch alias one of the two above
    (FP, "flow"): [FM, CFM],  # self._FlowModelClass(...): FlowModel, ClusteringFlowModel in the clustering proposal
    (INS, "proposal"): [IFP],  # get_proposal returns ImportanceFlowProposal; __setstate__ restores the same object
    (INS, "training_samples"): [OS_],  # __setstate__ state[2]
    (INS, "iid_samples"): [OS_],  # __setstate__ state[3] (may be None; callers guard)
    (IFP, "flow"): [IFM],  # __setstate__ state[1]
    (FS, "ns"): [NS, INS],  # SamplerClass(...) / resume
}

# (function, local variable) -> classes of the object bound to it, where no
# constructor call or annotation says so.
LOCAL_TYPES = {
    (BASE + ".resume_from_pickled_sampler", "sampler"): [NS, INS],  # the unpickled sampler (documented: "Pickled sampler")
    (BASE + ".resume", "sampler"): [NS, INS],  # pickle.load of a checkpoint written by checkpoint()
    (NS + ".resume_from_pickled_sampler", "sampler"): [NS],
    (INS + ".resume_from_pickled_sampler", "sampler"): [INS],
}

# Reparameterisation Jacobian directions (R-SIGN) ----------------------------
DATA_TO_LATENT = {
    "forward", "_transform", "rescale", "to_prime", "reparameterise", "forward_pass", "forward_and_log_prob",
}
LATENT_TO_DATA = {
    "inverse", "inverse_rescale", "from_prime", "inverse_reparameterise",
}
