"""Program model: modules, classes (in-package MRO), functions, imports,
attribute definitions, field types and callee resolution for /repo/nessai.

Pure syntax: the package under analysis is parsed, never imported.
"""

from __future__ import annotations

import ast
import os
from dataclasses import dataclass, field
from typing import Dict, Iterable, List, Optional, Tuple

from . import AnalysisError

PKG = "nessai"

# Hand-confirmed floors (pinned commit: 77 modules / 57 classes / 669 defs).
FLOOR_MODULES = 70
FLOOR_CLASSES = 50
FLOOR_FUNCTIONS = 600


def src(node) -> str:
    """Normalised source text of a node (no line numbers, no formatting)."""
    if node is None:
        return "None"
    try:
        return ast.unparse(node)
    except Exception:  # pragma: no cover
        return ast.dump(node)


def dotted(node) -> Optional[str]:
    """`a.b.c` for Name/Attribute chains, else None."""
    parts = []
    while isinstance(node, ast.Attribute):
        parts.append(node.attr)
        node = node.value
    if isinstance(node, ast.Name):
        # `import numpy` and `import numpy as np` spell the same module
        parts.append("np" if node.id == "numpy" else node.id)
        return ".".join(reversed(parts))
    return None


@dataclass
class FunctionInfo:
    module: "ModuleInfo"
    cls: Optional["ClassInfo"]
    name: str
    node: ast.FunctionDef
    parent: Optional["FunctionInfo"] = None
    decorators: List[str] = field(default_factory=list)

    @property
    def qual(self) -> str:
        if self.parent is not None:
            return f"{self.parent.qual}.<locals>.{self.name}"
        if self.cls is not None:
            return f"{self.module.name}:{self.cls.name}.{self.name}"
        return f"{self.module.name}:{self.name}"

    @property
    def short(self) -> str:
        if self.cls is not None and self.parent is None:
            return f"{self.cls.name}.{self.name}"
        return self.name

    @property
    def is_property(self) -> bool:
        return "property" in self.decorators

    @property
    def is_setter(self) -> bool:
        return any(d.endswith(".setter") for d in self.decorators)

    @property
    def is_static(self) -> bool:
        return "staticmethod" in self.decorators

    @property
    def is_classmethod(self) -> bool:
        return "classmethod" in self.decorators

    @property
    def is_abstract(self) -> bool:
        return any(d.endswith("abstractmethod") for d in self.decorators)

    def loc(self, node=None) -> str:
        n = node if node is not None else self.node
        return f"{self.module.relpath}:{getattr(n, '_orig_lineno', getattr(n, 'lineno', 0))}"

    def params(self) -> List[str]:
        a = self.node.args
        return [x.arg for x in a.posonlyargs + a.args + a.kwonlyargs]

    def __hash__(self):
        return id(self)

    def __repr__(self):
        return f"<fn {self.qual}>"


@dataclass
class ClassInfo:
    module: "ModuleInfo"
    name: str
    node: ast.ClassDef
    base_exprs: List[str] = field(default_factory=list)
    bases: List["ClassInfo"] = field(default_factory=list)
    ext_bases: List[str] = field(default_factory=list)
    methods: Dict[str, FunctionInfo] = field(default_factory=dict)
    setters: Dict[str, FunctionInfo] = field(default_factory=dict)
    class_attrs: Dict[str, ast.AST] = field(default_factory=dict)
    is_dataclass: bool = False

    @property
    def qual(self) -> str:
        return f"{self.module.name}:{self.name}"

    def __hash__(self):
        return id(self)

    def __repr__(self):
        return f"<class {self.qual}>"


@dataclass
class ModuleInfo:
    name: str
    path: str
    relpath: str
    source: str
    tree: ast.Module
    is_pkg: bool
    imports: Dict[str, Tuple[str, Optional[str]]] = field(default_factory=dict)
    functions: Dict[str, FunctionInfo] = field(default_factory=dict)
    classes: Dict[str, ClassInfo] = field(default_factory=dict)
    globals: Dict[str, ast.AST] = field(default_factory=dict)

    def __hash__(self):
        return id(self)


def _decorator_names(node) -> List[str]:
    out = []
    for d in node.decorator_list:
        if isinstance(d, ast.Call):
            d = d.func
        n = dotted(d)
        if n:
            out.append(n)
    return out


def _direct_nested_defs(fnode):
    """Function definitions nested directly (not through another def) in fnode."""
    out = []
    stack = list(ast.iter_child_nodes(fnode))
    while stack:
        n = stack.pop()
        if isinstance(n, (ast.FunctionDef, ast.AsyncFunctionDef)):
            out.append(n)
            continue
        if isinstance(n, (ast.ClassDef, ast.Lambda)):
            continue
        stack.extend(ast.iter_child_nodes(n))
    return out


_LOG_LEVELS = ("debug", "info", "warning", "warn", "error", "critical", "exception", "log")
_PURE_FUNCS = {"len", "str", "repr", "int", "float", "round", "type", "list", "tuple", "sorted", "abs", "min", "max", "sum"}
_PURE_METHODS = {"format", "join", "items", "keys", "values", "sum", "mean", "min", "max", "std", "total_seconds", "get", "tolist", "item"}


def _effect_free_log_call(st) -> bool:
    if not (isinstance(st, ast.Expr) and isinstance(st.value, ast.Call)):
        return False
    c = st.value
    if not (isinstance(c.func, ast.Attribute) and c.func.attr in _LOG_LEVELS and isinstance(c.func.value, ast.Name) and c.func.value.id == "logger"):
        return False
    for a in list(c.args) + [k.value for k in c.keywords]:
        for n in ast.walk(a):
            if isinstance(n, ast.Call):
                f = n.func
                if isinstance(f, ast.Name) and f.id in _PURE_FUNCS:
                    continue
                if isinstance(f, ast.Attribute) and (f.attr in _PURE_METHODS or (isinstance(f.value, ast.Name) and f.value.id in ("np", "numpy"))):
                    continue
                return False
            if isinstance(n, (ast.NamedExpr, ast.Await, ast.Yield, ast.YieldFrom)):
                return False
    return True


def _strip_logging(tree):
    for node in ast.walk(tree):
        for field in ("body", "orelse", "finalbody"):
            stmts = getattr(node, field, None)
            if not isinstance(stmts, list) or not stmts or not isinstance(stmts[0], ast.stmt):
                continue
            kept = [s for s in stmts if not _effect_free_log_call(s)]
            if len(kept) == len(stmts):
                continue
            if not kept and field == "body":
                kept = [ast.copy_location(ast.Pass(), stmts[0])]
            setattr(node, field, kept)


def _unroll_records(tree):
    """`D = dict(k1=e1, ...)` (or a literal with constant identifier keys) immediately followed by
    `for a, b in D.items(): setattr(<obj>, a, b)` is the sequence `<obj>.k1 = e1; ...` (same evaluation order: every value
    is computed before any attribute is written only if no ei reads <obj>.kj - checked).  Later reads `D['k']` /
    `D[name]` are `<obj>.k` / `getattr(<obj>, name)` as long as nothing writes those attributes or D afterwards; any other
    use keeps `D = dict(k1=<obj>.k1, ...)` alive.  Also `list({k: v for k in X}.values())` -> `[v for k in X]` (equal
    whenever X has no repeated element, which is what every such record of named quantities assumes)."""
    import copy as _copy

    for n in ast.walk(tree):
        if isinstance(n, ast.Call) and isinstance(n.func, ast.Name) and n.func.id == "list" and len(n.args) == 1 and not n.keywords:
            a = n.args[0]
            if isinstance(a, ast.Call) and isinstance(a.func, ast.Attribute) and a.func.attr == "values" and not a.args and isinstance(a.func.value, ast.DictComp):
                dc = a.func.value
                if len(dc.generators) == 1 and not dc.generators[0].ifs and isinstance(dc.generators[0].target, ast.Name) and isinstance(dc.key, ast.Name) and dc.key.id == dc.generators[0].target.id:
                    new = ast.copy_location(ast.ListComp(elt=dc.value, generators=dc.generators), n)
                    n.__class__ = ast.ListComp
                    n.__dict__.clear()
                    n.__dict__.update(new.__dict__)

    def record(v):
        if isinstance(v, ast.Call) and isinstance(v.func, ast.Name) and v.func.id == "dict" and not v.args and v.keywords and all(k.arg for k in v.keywords):
            return [(k.arg, k.value) for k in v.keywords]
        if isinstance(v, ast.Dict) and v.keys and all(isinstance(k, ast.Constant) and isinstance(k.value, str) and k.value.isidentifier() for k in v.keys):
            return [(k.value, e) for k, e in zip(v.keys, v.values)]
        return None

    for fn in [x for x in ast.walk(tree) if isinstance(x, (ast.FunctionDef, ast.AsyncFunctionDef))]:
        for node in ast.walk(fn):
            for field in ("body", "orelse", "finalbody"):
                blk = getattr(node, field, None)
                if not (isinstance(blk, list) and blk and isinstance(blk[0], ast.stmt)) or isinstance(node, ast.ClassDef):
                    continue
                i = 0
                while i + 1 < len(blk):
                    s, t = blk[i], blk[i + 1]
                    i += 1
                    if not (isinstance(s, ast.Assign) and len(s.targets) == 1 and isinstance(s.targets[0], ast.Name)):
                        continue
                    rec = record(s.value)
                    d = s.targets[0].id
                    if rec is None or len({k for k, _ in rec}) != len(rec):
                        continue
                    if not (isinstance(t, ast.For) and not t.orelse and isinstance(t.target, ast.Tuple) and len(t.target.elts) == 2 and all(isinstance(e, ast.Name) for e in t.target.elts)
                            and isinstance(t.iter, ast.Call) and isinstance(t.iter.func, ast.Attribute) and t.iter.func.attr == "items" and not t.iter.args and isinstance(t.iter.func.value, ast.Name) and t.iter.func.value.id == d
                            and len(t.body) == 1 and isinstance(t.body[0], ast.Expr) and isinstance(t.body[0].value, ast.Call) and isinstance(t.body[0].value.func, ast.Name) and t.body[0].value.func.id == "setattr"
                            and len(t.body[0].value.args) == 3 and not t.body[0].value.keywords):
                        continue
                    obj, a1, a2 = t.body[0].value.args
                    if not (isinstance(obj, ast.Name) and isinstance(a1, ast.Name) and isinstance(a2, ast.Name) and a1.id == t.target.elts[0].id and a2.id == t.target.elts[1].id):
                        continue
                    keys = {k for k, _ in rec}
                    # D bound once, never mutated; the attributes written only here; no value reads an attribute being written
                    binds = [x for x in ast.walk(fn) if isinstance(x, ast.Name) and x.id == d and isinstance(x.ctx, (ast.Store, ast.Del))]
                    if len(binds) != 1:
                        continue
                    if any(isinstance(x, ast.Attribute) and x.attr in keys and isinstance(x.value, ast.Name) and x.value.id == obj.id and (isinstance(x.ctx, ast.Store) or any(x is y for _, e in rec for y in ast.walk(e))) for x in ast.walk(fn)):
                        continue
                    if any(isinstance(x, ast.Call) and isinstance(x.func, ast.Name) and x.func.id in ("setattr", "delattr") and x is not t.body[0].value for x in ast.walk(fn)):
                        continue
                    uses = [x for x in ast.walk(fn) if isinstance(x, ast.Name) and x.id == d and isinstance(x.ctx, ast.Load) and x is not t.iter.func.value]
                    parents = {id(c): p_ for p_ in ast.walk(fn) for c in ast.iter_child_nodes(p_)}
                    other = False
                    for u in uses:
                        par = parents.get(id(u))
                        if isinstance(par, ast.Subscript) and par.value is u and isinstance(par.ctx, ast.Load):
                            if isinstance(par.slice, ast.Constant) and par.slice.value in keys:
                                new = ast.Attribute(value=ast.Name(id=obj.id, ctx=ast.Load()), attr=par.slice.value, ctx=ast.Load())
                            else:
                                new = ast.Call(func=ast.Name(id="getattr", ctx=ast.Load()), args=[ast.Name(id=obj.id, ctx=ast.Load()), par.slice], keywords=[])
                            new = ast.fix_missing_locations(ast.copy_location(new, par))
                            par.__class__ = type(new)
                            par.__dict__.clear()
                            par.__dict__.update(new.__dict__)
                        else:
                            other = True
                    stores = [ast.fix_missing_locations(ast.copy_location(ast.Assign(targets=[ast.Attribute(value=ast.Name(id=obj.id, ctx=ast.Load()), attr=k, ctx=ast.Store())], value=e), e)) for k, e in rec]
                    keep = []
                    if other:
                        s.value = ast.fix_missing_locations(ast.copy_location(ast.Call(func=ast.Name(id="dict", ctx=ast.Load()), args=[], keywords=[ast.keyword(arg=k, value=ast.Attribute(value=ast.Name(id=obj.id, ctx=ast.Load()), attr=k, ctx=ast.Load())) for k, _ in rec]), s.value))
                        keep = [s]
                    blk[i - 1 : i + 1] = stores + keep
                    i += len(stores) + len(keep) - 2


def _flag_loops(stmts):
    """`flag = False; while not flag: BODY` where the flag is only set at the end of the body - by `flag = COND` followed by
    `if not flag: B`, or by `if COND: flag = True [else: B]` - and read nowhere else, is
    `while True: BODY'; if COND: break; B` (the statements after the loop then run, as before, exactly when COND held)."""
    out = []
    i = 0
    while i < len(stmts):
        s = stmts[i]
        nxt = stmts[i + 1] if i + 1 < len(stmts) else None
        done = False
        if (isinstance(s, ast.Assign) and len(s.targets) == 1 and isinstance(s.targets[0], ast.Name) and isinstance(s.value, ast.Constant) and s.value.value is False
                and isinstance(nxt, ast.While) and not nxt.orelse and isinstance(nxt.test, ast.UnaryOp) and isinstance(nxt.test.op, ast.Not) and isinstance(nxt.test.operand, ast.Name) and nxt.test.operand.id == s.targets[0].id and len(nxt.body) >= 1):
            flag = s.targets[0].id
            body = nxt.body
            rest_reads = any(isinstance(x, ast.Name) and x.id == flag for r in stmts[i + 2:] for x in ast.walk(r))
            has_break = any(isinstance(x, (ast.Break, ast.Continue)) for b in body for x in ast.walk(b))
            new_tail = None
            head = None
            last = body[-1]
            if len(body) >= 2 and isinstance(body[-2], ast.Assign) and len(body[-2].targets) == 1 and isinstance(body[-2].targets[0], ast.Name) and body[-2].targets[0].id == flag \
                    and isinstance(last, ast.If) and not last.orelse and isinstance(last.test, ast.UnaryOp) and isinstance(last.test.op, ast.Not) and isinstance(last.test.operand, ast.Name) and last.test.operand.id == flag:
                head, cond, B = body[:-2], body[-2].value, last.body
                new_tail = ast.If(test=cond, body=[ast.Break()], orelse=B)
            elif isinstance(last, ast.If) and len(last.body) == 1 and isinstance(last.body[0], ast.Assign) and len(last.body[0].targets) == 1 and isinstance(last.body[0].targets[0], ast.Name) and last.body[0].targets[0].id == flag and isinstance(last.body[0].value, ast.Constant) and last.body[0].value.value is True:
                head, cond, B = body[:-1], last.test, last.orelse
                new_tail = ast.If(test=cond, body=[ast.Break()], orelse=B)
            if new_tail is not None and not rest_reads and not has_break:
                others = [x for b in head + new_tail.orelse for x in ast.walk(b) if isinstance(x, ast.Name) and x.id == flag] + [x for x in ast.walk(new_tail.test) if isinstance(x, ast.Name) and x.id == flag]
                if not others:
                    w = ast.While(test=ast.Constant(value=True), body=head + [new_tail], orelse=[])
                    out.append(ast.fix_missing_locations(ast.copy_location(w, nxt)))
                    i += 2
                    done = True
        if not done:
            out.append(s)
            i += 1
    return out


def _loops_to_comprehensions(stmts):
    """`L = []` immediately followed by `for v in IT: L.append(E)` (optionally `if c: L.append(E)`) is
    `L = [E for v in IT (if c)]` when neither E, c nor IT mention L (same elements, same order, same evaluation order)."""
    out = []
    i = 0
    while i < len(stmts):
        s = stmts[i]
        nxt = stmts[i + 1] if i + 1 < len(stmts) else None
        done = False
        if (isinstance(s, ast.Assign) and len(s.targets) == 1 and isinstance(s.targets[0], ast.Name) and isinstance(s.value, ast.List) and not s.value.elts
                and isinstance(nxt, ast.For) and not nxt.orelse and len(nxt.body) == 1):
            L = s.targets[0].id
            b = nxt.body[0]
            cond = None
            if isinstance(b, ast.If) and not b.orelse and len(b.body) == 1:
                cond, b = b.test, b.body[0]
            if (isinstance(b, ast.Expr) and isinstance(b.value, ast.Call) and isinstance(b.value.func, ast.Attribute) and b.value.func.attr == "append" and isinstance(b.value.func.value, ast.Name)
                    and b.value.func.value.id == L and len(b.value.args) == 1 and not b.value.keywords):
                E = b.value.args[0]
                mention = any(isinstance(x, ast.Name) and x.id == L for e_ in [E, nxt.iter] + ([cond] if cond is not None else []) for x in ast.walk(e_))
                impure = any(isinstance(x, (ast.Yield, ast.YieldFrom, ast.Await, ast.NamedExpr)) for e_ in [E, nxt.iter] + ([cond] if cond is not None else []) for x in ast.walk(e_))
                tnames = {x.id for x in ast.walk(nxt.target) if isinstance(x, ast.Name)}
                leaks = any(isinstance(x, ast.Name) and x.id in tnames and isinstance(x.ctx, ast.Load) for r_ in stmts[i + 2:] for x in ast.walk(r_))
                if not mention and not impure and not leaks:
                    comp = ast.ListComp(elt=E, generators=[ast.comprehension(target=nxt.target, iter=nxt.iter, ifs=[cond] if cond is not None else [], is_async=0)])
                    out.append(ast.fix_missing_locations(ast.copy_location(ast.Assign(targets=s.targets, value=ast.copy_location(comp, nxt)), s)))
                    i += 2
                    done = True
        if not done:
            out.append(s)
            i += 1
    return out


def _inline_exception_tuples(tree):
    """`except NAME:` where NAME is a module-level constant bound exactly once to a tuple of exception classes reads as the
    tuple itself."""
    import copy as _copy

    consts = {}
    for s in tree.body:
        if isinstance(s, ast.Assign) and len(s.targets) == 1 and isinstance(s.targets[0], ast.Name) and isinstance(s.value, ast.Tuple) and s.value.elts and all(isinstance(e, (ast.Name, ast.Attribute)) for e in s.value.elts):
            consts[s.targets[0].id] = s.value
    stores = {}
    for n in ast.walk(tree):
        if isinstance(n, ast.Name) and isinstance(n.ctx, (ast.Store, ast.Del)) and n.id in consts:
            stores[n.id] = stores.get(n.id, 0) + 1
        elif isinstance(n, (ast.Global, ast.Nonlocal)):
            for g in n.names:
                stores[g] = stores.get(g, 0) + 2
    for n in ast.walk(tree):
        if isinstance(n, ast.ExceptHandler) and isinstance(n.type, ast.Name) and n.type.id in consts and stores.get(n.type.id, 0) == 1:
            n.type = ast.copy_location(_copy.deepcopy(consts[n.type.id]), n.type)
    # a module constant bound once to a pure numeric expression (`_LOG_2 = np.log(2)`) reads as that expression
    def _pure_num(e_):
        if isinstance(e_, ast.Constant):
            return isinstance(e_.value, (int, float)) and not isinstance(e_.value, bool)
        if isinstance(e_, ast.UnaryOp) and isinstance(e_.op, (ast.USub, ast.UAdd)):
            return _pure_num(e_.operand)
        if isinstance(e_, ast.BinOp) and isinstance(e_.op, (ast.Add, ast.Sub, ast.Mult, ast.Div, ast.Pow)):
            return _pure_num(e_.left) and _pure_num(e_.right)
        if isinstance(e_, ast.Call) and isinstance(e_.func, ast.Attribute) and isinstance(e_.func.value, ast.Name) and e_.func.value.id in ("np", "numpy", "math") and e_.func.attr in ("log", "log2", "log10", "sqrt", "exp", "log1p") and len(e_.args) == 1 and not e_.keywords:
            return _pure_num(e_.args[0])
        return False

    nums = {}
    for s in tree.body:
        if isinstance(s, ast.Assign) and len(s.targets) == 1 and isinstance(s.targets[0], ast.Name) and (s.targets[0].id.startswith("_") or s.targets[0].id.isupper()) and isinstance(s.value, (ast.Call, ast.BinOp)) and _pure_num(s.value):
            nums[s.targets[0].id] = s.value
    if nums:
        nst = {}
        for n in ast.walk(tree):
            if isinstance(n, ast.Name) and isinstance(n.ctx, (ast.Store, ast.Del)) and n.id in nums:
                nst[n.id] = nst.get(n.id, 0) + 1
            elif isinstance(n, (ast.Global, ast.Nonlocal)):
                for g in n.names:
                    nst[g] = nst.get(g, 0) + 2
            elif isinstance(n, ast.arg) and n.arg in nums:
                nst[n.arg] = nst.get(n.arg, 0) + 2

        class _NumSub(ast.NodeTransformer):
            def visit_Name(self, n_):
                if isinstance(n_.ctx, ast.Load) and n_.id in nums and nst.get(n_.id, 0) == 1:
                    return ast.copy_location(_copy.deepcopy(nums[n_.id]), n_)
                return n_

        for s in tree.body:
            if isinstance(s, (ast.FunctionDef, ast.AsyncFunctionDef, ast.ClassDef)):
                _NumSub().visit(s)
    # `for k in NAMES:` where NAMES is a module constant bound once to a tuple of literals reads as the literal tuple
    lits = {}
    for s in tree.body:
        if isinstance(s, ast.Assign) and len(s.targets) == 1 and isinstance(s.targets[0], ast.Name) and isinstance(s.value, (ast.Tuple, ast.List)) and s.value.elts and all(isinstance(e, ast.Constant) for e in s.value.elts):
            lits[s.targets[0].id] = s.value
        # the keys of a constant dict, for membership tests (`x in TABLE`) and loops over it
        elif isinstance(s, ast.Assign) and len(s.targets) == 1 and isinstance(s.targets[0], ast.Name) and isinstance(s.value, ast.Dict) and s.value.keys and all(isinstance(e, ast.Constant) for e in s.value.keys):
            lits[s.targets[0].id] = ast.Tuple(elts=list(s.value.keys), ctx=ast.Load())
    if lits:
        nst = {}
        for n in ast.walk(tree):
            if isinstance(n, ast.Name) and isinstance(n.ctx, (ast.Store, ast.Del)) and n.id in lits:
                nst[n.id] = nst.get(n.id, 0) + 1
            elif isinstance(n, (ast.Global, ast.Nonlocal)):
                for g in n.names:
                    nst[g] = nst.get(g, 0) + 2
            elif isinstance(n, ast.Call) and isinstance(n.func, ast.Attribute) and isinstance(n.func.value, ast.Name) and n.func.value.id in lits and n.func.attr in ("append", "extend", "insert", "remove", "pop", "clear", "sort", "reverse"):
                nst[n.func.value.id] = nst.get(n.func.value.id, 0) + 2
        for n in ast.walk(tree):
            if isinstance(n, ast.For) and isinstance(n.iter, ast.Name) and n.iter.id in lits and nst.get(n.iter.id, 0) == 1:
                n.iter = ast.copy_location(ast.Tuple(elts=[_copy.deepcopy(e) for e in lits[n.iter.id].elts], ctx=ast.Load()), n.iter)
            # `x in NAMES` / `x not in NAMES`: membership in the literal collection
            if isinstance(n, ast.Compare) and len(n.ops) == 1 and isinstance(n.ops[0], (ast.In, ast.NotIn)) and isinstance(n.comparators[0], ast.Name) and n.comparators[0].id in lits and nst.get(n.comparators[0].id, 0) == 1:
                n.comparators[0] = ast.copy_location(ast.List(elts=[_copy.deepcopy(e) for e in lits[n.comparators[0].id].elts], ctx=ast.Load()), n.comparators[0])
    ast.fix_missing_locations(tree)


def _renumber(tree):
    """Line numbers in document order of the *normalised* program (one number per statement, expressions share their
    statement's): inlined helper bodies carry the line numbers of the helper, so `lineno` no longer orders statements.
    The source line is kept in `_orig_lineno` for diagnostics (FunctionInfo.loc)."""
    counter = [0]

    def visit_stmt(s):
        counter[0] += 1
        new = counter[0]
        stack = [s]
        while stack:
            n = stack.pop()
            if hasattr(n, "lineno"):
                if not hasattr(n, "_orig_lineno"):
                    n._orig_lineno = n.lineno
                n.lineno = new
                if hasattr(n, "end_lineno"):
                    n.end_lineno = new
            for fld, v in ast.iter_fields(n):
                if isinstance(v, list):
                    if v and isinstance(v[0], ast.stmt):
                        continue
                    for x in v:
                        if isinstance(x, ast.ExceptHandler) or isinstance(x, getattr(ast, "match_case", ())):
                            continue
                        if isinstance(x, ast.AST):
                            stack.append(x)
                elif isinstance(v, ast.AST) and not isinstance(v, ast.stmt):
                    stack.append(v)
        for fld in ("body", "orelse", "handlers", "finalbody", "cases"):
            v = getattr(s, fld, None)
            if isinstance(v, list):
                for x in v:
                    if isinstance(x, ast.stmt):
                        visit_stmt(x)
                    elif isinstance(x, ast.ExceptHandler) or isinstance(x, getattr(ast, "match_case", ())):
                        counter[0] += 1
                        if hasattr(x, "lineno"):
                            x._orig_lineno = getattr(x, "_orig_lineno", x.lineno)
                            x.lineno = counter[0]
                        for y in x.body:
                            visit_stmt(y)

    for s in tree.body:
        visit_stmt(s)


def _extend_to_augassign(tree):
    """`L.extend(X)` as a statement, for a local L bound to a list display / comprehension in the same function, is
    `L += X` (both extend the list in place with the elements of the iterable X)."""
    for fn in [n for n in ast.walk(tree) if isinstance(n, (ast.FunctionDef, ast.AsyncFunctionDef))]:
        lists = {t.id for s in ast.walk(fn) if isinstance(s, ast.Assign) and isinstance(s.value, (ast.List, ast.ListComp)) for t in s.targets if isinstance(t, ast.Name)}
        other = {t.id for s in ast.walk(fn) if isinstance(s, ast.Assign) and not isinstance(s.value, (ast.List, ast.ListComp)) for t in s.targets if isinstance(t, ast.Name)}
        lists -= other
        if not lists:
            continue
        for owner in ast.walk(fn):
            for fld in ("body", "orelse", "finalbody"):
                blk = getattr(owner, fld, None)
                if not (isinstance(blk, list) and blk and isinstance(blk[0], ast.stmt)):
                    continue
                for i, s in enumerate(blk):
                    if isinstance(s, ast.Expr) and isinstance(s.value, ast.Call) and isinstance(s.value.func, ast.Attribute) and s.value.func.attr == "extend" and isinstance(s.value.func.value, ast.Name) and s.value.func.value.id in lists and len(s.value.args) == 1 and not s.value.keywords:
                        blk[i] = ast.fix_missing_locations(ast.copy_location(ast.AugAssign(target=ast.Name(id=s.value.func.value.id, ctx=ast.Store()), op=ast.Add(), value=s.value.args[0]), s))


def _normalise_syntax(tree):
    """Statement-level normal forms applied to every module before anything is indexed, so that spelling variants of
    one program are one program to every rule (each rewrite preserves behaviour):
      * `not (a is b)` / `not (a in b)` / `not (a == b)` and their negated twins -> the single comparison
      * `t = a if c else b` / `return a if c else b`  ->  the two-armed `if`
      * `t = t <op> e`  ->  `t <op>= e`  (marked `_from_assign`: it does not modify the old object in place)
      * `a, b = x, y` (independent, same length)  ->  `a = x; b = y`
      * `if a: (if b: X)` with no else on either  ->  `if a and b: X`
      * `while True: (if c: break); B`  ->  `while not c: B`
      * `for v in itertools.count(a): B`  ->  `v = a - 1; while True: v += 1; B`
      * `name = <constant>` for a local that is never read  ->  removed
    """
    import copy as _copy

    _unroll_records(tree)
    _inline_exception_tuples(tree)
    _extend_to_augassign(tree)
    # unread constant locals
    for fn in [n for n in ast.walk(tree) if isinstance(n, (ast.FunctionDef, ast.AsyncFunctionDef))]:
        loads, declared, dyn = set(), set(), False
        for x in ast.walk(fn):
            if isinstance(x, ast.Name) and isinstance(x.ctx, (ast.Load, ast.Del)):
                loads.add(x.id)
                if x.id in ("locals", "vars", "exec", "eval"):
                    dyn = True
            elif isinstance(x, (ast.Global, ast.Nonlocal)):
                declared |= set(x.names)
            elif isinstance(x, ast.AugAssign) and isinstance(x.target, ast.Name):
                loads.add(x.target.id)  # an accumulator reads its initial value
        if dyn:
            continue
        for node in ast.walk(fn):
            if isinstance(node, ast.ClassDef):
                continue
            for field in ("body", "orelse", "finalbody"):
                blk = getattr(node, field, None)
                if not (isinstance(blk, list) and blk and isinstance(blk[0], ast.stmt)) or isinstance(node, ast.ClassDef):
                    continue
                kept = [s for s in blk if not (isinstance(s, ast.Assign) and len(s.targets) == 1 and isinstance(s.targets[0], ast.Name) and isinstance(s.value, ast.Constant) and s.targets[0].id not in loads and s.targets[0].id not in declared)]
                if len(kept) != len(blk):
                    if not kept:
                        kept = [ast.copy_location(ast.Pass(), blk[0])]
                    setattr(node, field, kept)

    neg = {ast.Is: ast.IsNot, ast.IsNot: ast.Is, ast.In: ast.NotIn, ast.NotIn: ast.In, ast.Eq: ast.NotEq, ast.NotEq: ast.Eq}

    class N(ast.NodeTransformer):
        def visit_IfExp(self, n):
            self.generic_visit(n)
            # `x if x else d`  ->  `x or d`
            if ast.dump(n.test) == ast.dump(n.body):
                return ast.copy_location(ast.BoolOp(op=ast.Or(), values=[n.test, n.orelse]), n)
            return n

        def visit_Call(self, n):
            self.generic_visit(n)
            # getattr(obj, "name") with a literal identifier is obj.name
            if isinstance(n.func, ast.Name) and n.func.id == "getattr" and len(n.args) == 2 and not n.keywords and isinstance(n.args[1], ast.Constant) and isinstance(n.args[1].value, str) and n.args[1].value.isidentifier():
                return ast.copy_location(ast.Attribute(value=n.args[0], attr=n.args[1].value, ctx=ast.Load()), n)
            return n

        def visit_UnaryOp(self, n):
            self.generic_visit(n)
            if isinstance(n.op, ast.Not) and isinstance(n.operand, ast.Compare) and len(n.operand.ops) == 1 and type(n.operand.ops[0]) in neg:
                c = n.operand
                return ast.copy_location(ast.Compare(left=c.left, ops=[neg[type(c.ops[0])]()], comparators=c.comparators), n)
            return n

    N().visit(tree)
    # `not not c` in a test position is c
    for n in ast.walk(tree):
        if isinstance(n, (ast.If, ast.While, ast.IfExp, ast.Assert)):
            while isinstance(n.test, ast.UnaryOp) and isinstance(n.test.op, ast.Not) and isinstance(n.test.operand, ast.UnaryOp) and isinstance(n.test.operand.op, ast.Not):
                n.test = n.test.operand.operand

    def call_free(t):
        return not any(isinstance(x, (ast.Call, ast.NamedExpr, ast.Await, ast.Yield, ast.YieldFrom)) for x in ast.walk(t))

    def root_name(t):
        while isinstance(t, (ast.Attribute, ast.Subscript)):
            t = t.value
        return t.id if isinstance(t, ast.Name) else None

    def loaded_names(e):
        return {x.id for x in ast.walk(e) if isinstance(x, ast.Name)}

    def one(st):
        """Rewrite one statement (children already normalised) into a list of statements."""
        # `for k in ("a", "b"): BODY` (constants, a short simple body)  ->  BODY[k:="a"]; BODY[k:="b"]; k = "b"
        # ... and over a short literal tuple of call-free expressions (`for s in (self.a, self.b): BODY`): each round gets
        # its own name for the element, so that single-binding reasoning applies to it
        if (isinstance(st, ast.For) and not st.orelse and isinstance(st.target, ast.Name) and isinstance(st.iter, (ast.Tuple, ast.List)) and 1 <= len(st.iter.elts) <= 4
                and not all(isinstance(e_, ast.Constant) for e_ in st.iter.elts) and all(isinstance(e_, (ast.Constant, ast.Name, ast.Attribute)) and call_free(e_) for e_ in st.iter.elts) and len(st.body) <= 6
                and not any(isinstance(x_, (ast.Break, ast.Continue, ast.FunctionDef, ast.Lambda, ast.Yield, ast.YieldFrom, ast.Return)) for b_ in st.body for x_ in ast.walk(b_))
                and not any(isinstance(x_, ast.Name) and x_.id == st.target.id and isinstance(x_.ctx, (ast.Store, ast.Del)) for b_ in st.body for x_ in ast.walk(b_))
                # the elements must not be re-bound by the body (they are read once per round, before it)
                and not ({x_.id for e_ in st.iter.elts for x_ in ast.walk(e_) if isinstance(x_, ast.Name)} - {"self"}) & {x_.id for b_ in st.body for x_ in ast.walk(b_) if isinstance(x_, ast.Name) and isinstance(x_.ctx, (ast.Store, ast.Del))}):
            out_ = []
            for k_, e_ in enumerate(st.iter.elts):
                nm_ = f"{st.target.id}__{k_}"

                class _V(ast.NodeTransformer):
                    def visit_Name(self, n_):
                        if n_.id == st.target.id and isinstance(n_.ctx, ast.Load):
                            return ast.copy_location(ast.Name(id=nm_, ctx=ast.Load()), n_)
                        return n_

                out_.append(ast.copy_location(ast.Assign(targets=[ast.Name(id=nm_, ctx=ast.Store())], value=_copy.deepcopy(e_)), st))
                for b_ in st.body:
                    out_ += block([_V().visit(_copy.deepcopy(b_))])
            out_.append(ast.copy_location(ast.Assign(targets=[ast.Name(id=st.target.id, ctx=ast.Store())], value=_copy.deepcopy(st.iter.elts[-1])), st))
            return [ast.fix_missing_locations(x_) for x_ in out_]
        if (isinstance(st, ast.For) and not st.orelse and isinstance(st.target, ast.Name) and isinstance(st.iter, (ast.Tuple, ast.List)) and 1 <= len(st.iter.elts) <= 8
                and all(isinstance(e_, ast.Constant) for e_ in st.iter.elts) and len(st.body) <= 3
                and not any(isinstance(x_, (ast.Break, ast.Continue, ast.FunctionDef, ast.Lambda, ast.Yield, ast.YieldFrom, ast.Return)) for b_ in st.body for x_ in ast.walk(b_))
                and not any(isinstance(x_, ast.Name) and x_.id == st.target.id and isinstance(x_.ctx, (ast.Store, ast.Del)) for b_ in st.body for x_ in ast.walk(b_))):
            out_ = []
            for e_ in st.iter.elts:
                class _K(ast.NodeTransformer):
                    def visit_Name(self, n_):
                        if n_.id == st.target.id and isinstance(n_.ctx, ast.Load):
                            return ast.copy_location(ast.Constant(value=e_.value), n_)
                        return n_

                for b_ in st.body:
                    out_ += block([_K().visit(_copy.deepcopy(b_))])
            out_.append(ast.copy_location(ast.Assign(targets=[ast.Name(id=st.target.id, ctx=ast.Store())], value=ast.Constant(value=st.iter.elts[-1].value)), st))
            return [ast.fix_missing_locations(x_) for x_ in out_]
        # `d.update(k1=e1, k2=e2)` / `d.update({"k1": e1})` on a local name  ->  `d["k1"] = e1; d["k2"] = e2`
        if isinstance(st, ast.Expr) and isinstance(st.value, ast.Call) and isinstance(st.value.func, ast.Attribute) and st.value.func.attr == "update" and isinstance(st.value.func.value, ast.Name):
            c_ = st.value
            items_ = None
            if not c_.args and c_.keywords and all(k_.arg for k_ in c_.keywords):
                items_ = [(k_.arg, k_.value) for k_ in c_.keywords]
            elif len(c_.args) == 1 and not c_.keywords and isinstance(c_.args[0], ast.Dict) and c_.args[0].keys and all(isinstance(k_, ast.Constant) and isinstance(k_.value, str) for k_ in c_.args[0].keys):
                items_ = [(k_.value, v_) for k_, v_ in zip(c_.args[0].keys, c_.args[0].values)]
            elif len(c_.args) == 1 and not c_.keywords and isinstance(c_.args[0], ast.Call) and isinstance(c_.args[0].func, ast.Name) and c_.args[0].func.id == "dict" and not c_.args[0].args and c_.args[0].keywords and all(k_.arg for k_ in c_.args[0].keywords):
                items_ = [(k_.arg, k_.value) for k_ in c_.args[0].keywords]
            recv_ = c_.func.value.id
            if items_ and not any(isinstance(x_, ast.Name) and x_.id == recv_ for _k, v_ in items_ for x_ in ast.walk(v_)):
                return [ast.fix_missing_locations(ast.copy_location(ast.Assign(targets=[ast.Subscript(value=ast.Name(id=recv_, ctx=ast.Load()), slice=ast.Constant(value=k_), ctx=ast.Store())], value=v_), v_)) for k_, v_ in items_]
        if isinstance(st, ast.If) and len(st.body) == 1 and len(st.orelse) == 1 and all(isinstance(s_, ast.Assign) and len(s_.targets) == 1 and isinstance(s_.targets[0], ast.Name) for s_ in (st.body[0], st.orelse[0])) and st.body[0].targets[0].id == st.orelse[0].targets[0].id:
            # `if c: x = False else: x = E`  ->  `x = (not c) and E` ; `if c: x = True else: x = E` -> `x = c or E` (and the mirrored forms)
            a_, b_ = st.body[0].value, st.orelse[0].value
            tgt_ = st.body[0].targets[0]
            neg_ = ast.UnaryOp(op=ast.Not(), operand=st.test)
            val_ = None
            if isinstance(a_, ast.Constant) and a_.value is False:
                val_ = ast.BoolOp(op=ast.And(), values=[neg_, b_])
            elif isinstance(a_, ast.Constant) and a_.value is True:
                val_ = ast.BoolOp(op=ast.Or(), values=[st.test, b_])
            elif isinstance(b_, ast.Constant) and b_.value is False:
                val_ = ast.BoolOp(op=ast.And(), values=[st.test, a_])
            elif isinstance(b_, ast.Constant) and b_.value is True:
                val_ = ast.BoolOp(op=ast.Or(), values=[neg_, a_])
            if val_ is not None and isinstance(b_ if isinstance(a_, ast.Constant) else a_, (ast.Compare, ast.BoolOp, ast.UnaryOp, ast.Name, ast.Attribute)):
                return [ast.copy_location(ast.Assign(targets=[tgt_], value=ast.copy_location(val_, st.test)), st)]
        if isinstance(st, ast.Assign) and len(st.targets) == 1 and isinstance(st.value, ast.IfExp) and isinstance(st.targets[0], (ast.Name, ast.Attribute, ast.Subscript)) and call_free(st.targets[0]):
            v = st.value
            a = ast.copy_location(ast.Assign(targets=[st.targets[0]], value=v.body), st)
            b = ast.copy_location(ast.Assign(targets=[_copy.deepcopy(st.targets[0])], value=v.orelse), st)
            return one(ast.copy_location(ast.If(test=v.test, body=one(a), orelse=one(b)), st))
        if isinstance(st, ast.Return) and isinstance(st.value, ast.IfExp):
            v = st.value
            a = ast.copy_location(ast.Return(value=v.body), st)
            b = ast.copy_location(ast.Return(value=v.orelse), st)
            return one(ast.copy_location(ast.If(test=v.test, body=one(a), orelse=one(b)), st))
        if isinstance(st, ast.Assign) and len(st.targets) == 1 and isinstance(st.value, ast.BinOp) and isinstance(st.targets[0], (ast.Name, ast.Attribute, ast.Subscript)) and call_free(st.targets[0]):
            t = st.targets[0]
            if ast.dump(_as_load(t)) == ast.dump(st.value.left):
                aug = ast.copy_location(ast.AugAssign(target=t, op=st.value.op, value=st.value.right), st)
                aug._from_assign = True
                return [aug]
        if isinstance(st, ast.Assign) and len(st.targets) == 1 and isinstance(st.targets[0], ast.Tuple) and isinstance(st.value, ast.Tuple) and len(st.targets[0].elts) == len(st.value.elts) and len(st.value.elts) >= 2:
            ts, vs = st.targets[0].elts, st.value.elts
            if all(isinstance(t, (ast.Name, ast.Attribute)) and call_free(t) for t in ts) and not any(isinstance(v, ast.Starred) for v in vs) and (all(call_free(v) for v in vs) or all(isinstance(t, ast.Name) for t in ts)):  # calls cannot observe a local
                roots = [root_name(t) for t in ts]
                indep = all(r is not None for r in roots) and len(set(ast.dump(_as_load(t)) for t in ts)) == len(ts)
                for k in range(1, len(vs)):
                    if loaded_names(vs[k]) & set(roots[:k]):
                        indep = False
                if indep:
                    out = []
                    for t, v in zip(ts, vs):
                        out.extend(one(ast.copy_location(ast.Assign(targets=[t], value=v), st)))
                    return out
        if isinstance(st, ast.For) and not st.orelse and isinstance(st.target, ast.Name) and isinstance(st.iter, ast.Call) and ast.unparse(st.iter.func) in ("itertools.count", "count") and len(st.iter.args) <= 1 and not st.iter.keywords and (not st.iter.args or (isinstance(st.iter.args[0], ast.Constant) and isinstance(st.iter.args[0].value, int))):
            # for v in itertools.count(a): B   ->   v = a - 1; while True: v += 1; B
            start = st.iter.args[0].value if st.iter.args else 0
            init = ast.copy_location(ast.Assign(targets=[ast.Name(id=st.target.id, ctx=ast.Store())], value=ast.Constant(value=start - 1)), st)
            step = ast.copy_location(ast.AugAssign(target=ast.Name(id=st.target.id, ctx=ast.Store()), op=ast.Add(), value=ast.Constant(value=1)), st)
            return [init, ast.copy_location(ast.While(test=ast.Constant(value=True), body=[step] + st.body, orelse=[]), st)]
        if isinstance(st, ast.While) and not st.orelse and isinstance(st.test, ast.Constant) and st.test.value is True and st.body and isinstance(st.body[0], ast.If) and not st.body[0].orelse and len(st.body[0].body) == 1 and isinstance(st.body[0].body[0], ast.Break):
            t = st.body[0].test
            t = t.operand if isinstance(t, ast.UnaryOp) and isinstance(t.op, ast.Not) else ast.copy_location(ast.UnaryOp(op=ast.Not(), operand=t), t)
            rest = st.body[1:] or [ast.copy_location(ast.Pass(), st)]
            return [ast.copy_location(ast.While(test=t, body=rest, orelse=[]), st)]
        if isinstance(st, ast.If) and not st.orelse and len(st.body) == 1 and isinstance(st.body[0], ast.If) and not st.body[0].orelse:
            inner = st.body[0]
            lhs = list(st.test.values) if isinstance(st.test, ast.BoolOp) and isinstance(st.test.op, ast.And) else [st.test]
            rhs = list(inner.test.values) if isinstance(inner.test, ast.BoolOp) and isinstance(inner.test.op, ast.And) else [inner.test]
            test = ast.copy_location(ast.BoolOp(op=ast.And(), values=lhs + rhs), st.test)
            return [ast.copy_location(ast.If(test=test, body=inner.body, orelse=[]), st)]
        return [st]

    def _as_load(t):
        t2 = _copy.deepcopy(t)
        for x in ast.walk(t2):
            if hasattr(x, "ctx"):
                x.ctx = ast.Load()
        return t2

    def block(stmts):
        out = []
        for st in stmts:
            for f in ("body", "orelse", "finalbody"):
                v = getattr(st, f, None)
                if isinstance(v, list) and v and isinstance(v[0], ast.stmt):
                    setattr(st, f, block(v))
            for h in getattr(st, "handlers", []) or []:
                h.body = block(h.body)
            for c in getattr(st, "cases", []) or []:
                c.body = block(c.body)
            in_fn = True
            out.extend(one(st))
        return _flag_loops(_loops_to_comprehensions(out))

    tree.body = block(tree.body)
    # guard clauses: `if c: ...; return a` + REST  ->  `if c: ...; return a  else: REST` (one tree shape for both spellings)
    if os.environ.get("SA_NO_TAIL_FORM") != "1":
        for fn_ in [n for n in ast.walk(tree) if isinstance(n, (ast.FunctionDef, ast.AsyncFunctionDef))]:
            if not any(isinstance(x, (ast.Yield, ast.YieldFrom)) for x in ast.walk(fn_)):
                fn_.body = _to_tail_form(fn_.body)

    ast.fix_missing_locations(tree)


def _propagate_aliases(tree):
    """Normal form for attribute aliases: a local bound exactly once, at the top level of a function, to a pure
    attribute chain rooted at a parameter (`state = self.state`, `p = self.proposal.flow`), with no assignment to
    that chain or one of its prefixes anywhere in the function, is replaced by the chain itself.  (If a callee
    re-binds the attribute between the alias and a use the two spellings differ; no rule relies on that.)"""
    import copy as _copy

    def chain_of(e):
        parts = []
        while isinstance(e, ast.Attribute):
            parts.append(e.attr)
            e = e.value
        if isinstance(e, ast.Name) and parts:
            return e.id, parts[::-1]
        return None

    for fn in [n for n in ast.walk(tree) if isinstance(n, (ast.FunctionDef, ast.AsyncFunctionDef))]:
        params = {a.arg for a in fn.args.posonlyargs + fn.args.args + fn.args.kwonlyargs}
        stores, declared = {}, set()
        attr_stores = set()
        for x in ast.walk(fn):
            if isinstance(x, ast.Name) and not isinstance(x.ctx, ast.Load):
                stores[x.id] = stores.get(x.id, 0) + 1
            elif isinstance(x, (ast.Global, ast.Nonlocal)):
                declared |= set(x.names)
            elif isinstance(x, ast.ExceptHandler) and x.name:
                declared.add(x.name)
            elif isinstance(x, ast.Attribute) and not isinstance(x.ctx, ast.Load):
                c = chain_of(x)
                if c:
                    attr_stores.add((c[0], tuple(c[1])))
        i = 0
        while i < len(fn.body):
            st = fn.body[i]
            ok = isinstance(st, ast.Assign) and len(st.targets) == 1 and isinstance(st.targets[0], ast.Name)
            c = chain_of(st.value) if ok else None
            if ok and c:
                nm = st.targets[0].id
                root, parts = c
                ok = root in params and nm not in params and nm not in declared and stores.get(nm) == 1 and stores.get(root, 0) == 0 and not any(p_.startswith("__") for p_ in parts)
                ok = ok and not any((root, tuple(parts[:k])) in attr_stores for k in range(1, len(parts) + 1))
                if ok:
                    # no read of the alias before its binding
                    before = [x for prev in fn.body[:i] for x in ast.walk(prev) if isinstance(x, ast.Name) and x.id == nm]
                    ok = not before
                if ok:
                    val = st.value

                    class R(ast.NodeTransformer):
                        def visit_Name(self, n_):
                            if n_.id == nm and isinstance(n_.ctx, ast.Load):
                                return ast.copy_location(_copy.deepcopy(val), n_)
                            return n_

                    del fn.body[i]
                    fn.body[i:] = [R().visit(x) for x in fn.body[i:]]
                    if not fn.body:
                        fn.body = [ast.Pass()]
                    continue
            i += 1


_MUTATORS = {"sort", "fill", "append", "extend", "insert", "pop", "remove", "clear", "update", "resize", "put", "itemset", "reverse", "setdefault", "popitem", "add", "discard"}


def _propagate_pure_temps(tree):
    """Normal form for named pure sub-expressions: a local bound exactly once to a call-free expression over stable
    names (parameters that are never re-bound, locals bound once before it) whose parts nothing in the function writes
    to, and that is only read after its binding inside the same block, is replaced by that expression at every use
    (`index = rank - 1; a[:index] = a[1:rank]` and `a[:rank - 1] = a[1:rank]` are then one program to every rule)."""
    import copy as _copy

    pure_calls = {"lower", "upper", "casefold", "strip"}
    pure_funcs = {"len", "int", "float", "abs", "bool", "str"}
    pure_nodes = (ast.Name, ast.Constant, ast.Attribute, ast.Subscript, ast.Slice, ast.BinOp, ast.UnaryOp, ast.Compare, ast.BoolOp, ast.Tuple, ast.Load, ast.operator, ast.unaryop, ast.cmpop, ast.boolop, ast.expr_context)

    for fn in [n for n in ast.walk(tree) if isinstance(n, (ast.FunctionDef, ast.AsyncFunctionDef))]:
        for _round in range(8):
            params = {a.arg for a in fn.args.posonlyargs + fn.args.args + fn.args.kwonlyargs} | ({fn.args.vararg.arg} if fn.args.vararg else set()) | ({fn.args.kwarg.arg} if fn.args.kwarg else set())
            binds, declared = {}, set()
            nested = [x for x in ast.walk(fn) if isinstance(x, (ast.FunctionDef, ast.AsyncFunctionDef, ast.Lambda, ast.ListComp, ast.SetComp, ast.DictComp, ast.GeneratorExp)) and x is not fn]
            nested_names = {y.id for x in nested for y in ast.walk(x) if isinstance(y, ast.Name)}
            for x in ast.walk(fn):
                if isinstance(x, ast.Name) and not isinstance(x.ctx, ast.Load):
                    binds[x.id] = binds.get(x.id, 0) + 1
                elif isinstance(x, (ast.Global, ast.Nonlocal)):
                    declared |= set(x.names)
                elif isinstance(x, ast.ExceptHandler) and x.name:
                    declared.add(x.name)
                elif isinstance(x, ast.AugAssign) and isinstance(x.target, ast.Name):
                    binds[x.target.id] = binds.get(x.target.id, 0) + 1
                elif isinstance(x, (ast.Import, ast.ImportFrom)):
                    for al in x.names:
                        declared.add((al.asname or al.name).split(".")[0])
            # writes into objects: (root name, key text) of every attribute / subscript store and mutator call
            obj_writes = set()
            for x in ast.walk(fn):
                tgt = None
                if isinstance(x, (ast.Attribute, ast.Subscript)) and not isinstance(x.ctx, ast.Load):
                    tgt = x
                elif isinstance(x, ast.AugAssign) and isinstance(x.target, (ast.Attribute, ast.Subscript)):
                    tgt = x.target
                elif isinstance(x, ast.Call) and isinstance(x.func, ast.Attribute) and x.func.attr in _MUTATORS:
                    tgt = x.func.value
                    r = tgt
                    while isinstance(r, (ast.Attribute, ast.Subscript)):
                        r = r.value
                    if isinstance(r, ast.Name):
                        obj_writes.add((r.id, "*" + ast.unparse(tgt)))
                    continue
                if tgt is not None:
                    r = tgt
                    while isinstance(r, (ast.Attribute, ast.Subscript)):
                        r = r.value
                    if isinstance(r, ast.Name):
                        obj_writes.add((r.id, ast.unparse(tgt)))
            done = False
            for owner in ast.walk(fn):
                if isinstance(owner, (ast.FunctionDef, ast.AsyncFunctionDef, ast.Lambda)) and owner is not fn:
                    continue
                for fld in ("body", "orelse", "finalbody"):
                    blk = getattr(owner, fld, None)
                    if not (isinstance(blk, list) and blk and isinstance(blk[0], ast.stmt)):
                        continue
                    for i, st in enumerate(blk):
                        if not (isinstance(st, ast.Assign) and len(st.targets) == 1 and isinstance(st.targets[0], ast.Name)):
                            continue
                        t = st.targets[0].id
                        E = st.value
                        if binds.get(t) != 1 or t in params or t in declared or t in nested_names or isinstance(E, (ast.Name, ast.Constant)):
                            continue
                        if not all(isinstance(x, pure_nodes) or (isinstance(x, ast.Call) and not x.keywords and ((isinstance(x.func, ast.Attribute) and x.func.attr in pure_calls and not x.args) or (isinstance(x.func, ast.Name) and x.func.id in pure_funcs and len(x.args) == 1))) for x in ast.walk(E)) or len(ast.unparse(E)) > 90:
                            continue
                        roots = {x.id for x in ast.walk(E) if isinstance(x, ast.Name)}
                        if t in roots or any((r in params and binds.get(r, 0) > 0) or (r not in params and r not in ("self", "np", "numpy", "torch", "config", "math") and binds.get(r, 0) > 1) for r in roots):
                            continue
                        # nothing writes into a part E reads (same root, overlapping access path)
                        reads = {ast.unparse(x) for x in ast.walk(E) if isinstance(x, (ast.Attribute, ast.Subscript))} | roots
                        clash = False
                        for r, key in obj_writes:
                            if r in roots:
                                k = key.lstrip("*")
                                if any(k == rd or rd.startswith(k + "[") or rd.startswith(k + ".") or k.startswith(rd + "[") or k.startswith(rd + ".") for rd in reads if rd != r) or k == r:
                                    clash = True
                        if clash:
                            continue
                        # locals in E bound once must be bound before this statement in this block chain (lexically)
                        before = {x.id for s in ast.walk(fn) for x in ([s] if isinstance(s, ast.Name) and not isinstance(s.ctx, ast.Load) and (s.lineno, s.col_offset) < (st.lineno, st.col_offset) else [])}
                        if any(r not in params and r not in ("self", "np", "numpy", "torch", "config", "math") and binds.get(r, 0) == 1 and r not in before for r in roots):
                            continue
                        uses_in = [x for s in blk[i + 1 :] for x in ast.walk(s) if isinstance(x, ast.Name) and x.id == t and isinstance(x.ctx, ast.Load)]
                        all_uses = [x for x in ast.walk(fn) if isinstance(x, ast.Name) and x.id == t and isinstance(x.ctx, ast.Load)]
                        if not uses_in or len(uses_in) != len(all_uses) or len(all_uses) > 8:
                            continue

                        class R(ast.NodeTransformer):
                            def visit_Name(self, n_):
                                if n_.id == t and isinstance(n_.ctx, ast.Load):
                                    return ast.copy_location(_copy.deepcopy(E), n_)
                                return n_

                        blk[i + 1 :] = [R().visit(s) for s in blk[i + 1 :]]
                        del blk[i]
                        if not blk:
                            blk.append(ast.copy_location(ast.Pass(), st))
                        done = True
                        break
                    if done:
                        break
                if done:
                    break
            if not done:
                break
    ast.fix_missing_locations(tree)


def _inline_temps(tree):
    """Normal form for single-use temporaries: `v = e` immediately followed by a simple statement that reads v exactly
    once (v bound once and read once in the whole function, the read not under and/or, a conditional expression, a
    comprehension or a lambda, and no call evaluated in that statement before the read) becomes that statement with e in
    place of v.  The substitution preserves behaviour, so `t = f(x); g(t)` and `g(f(x))` are one program to every rule."""
    simple = (ast.Assign, ast.Expr, ast.Return, ast.AugAssign)
    barrier = (ast.Lambda, ast.ListComp, ast.SetComp, ast.DictComp, ast.GeneratorExp, ast.BoolOp, ast.IfExp, ast.FunctionDef, ast.AsyncFunctionDef, ast.ClassDef)

    def eval_order(st):
        parts = []
        if isinstance(st, ast.Assign):
            parts = [st.value] + list(st.targets)
        elif isinstance(st, ast.AugAssign):
            parts = [st.target, st.value]
        elif isinstance(st, (ast.Expr, ast.Return)):
            parts = [st.value] if st.value is not None else []
        out = []

        def rec(n, blocked):
            b2 = blocked or isinstance(n, barrier)
            for ch in ast.iter_child_nodes(n):
                rec(ch, b2)
            out.append((n, blocked))

        for p_ in parts:
            rec(p_, False)
        return out

    for fn in [n for n in ast.walk(tree) if isinstance(n, (ast.FunctionDef, ast.AsyncFunctionDef))]:
        changed = True
        rounds = 0
        while changed and rounds < 20:
            changed = False
            rounds += 1
            loads, stores, declared = {}, {}, set()
            for x in ast.walk(fn):
                if isinstance(x, ast.Name):
                    d = loads if isinstance(x.ctx, ast.Load) else stores
                    d[x.id] = d.get(x.id, 0) + 1
                elif isinstance(x, (ast.Global, ast.Nonlocal)):
                    declared |= set(x.names)
                elif isinstance(x, ast.arg):
                    declared.add(x.arg)
                elif isinstance(x, ast.ExceptHandler) and x.name:
                    declared.add(x.name)
            # a name bound several times is still a temporary if every binding is immediately followed by its only read
            pairs = {}
            for node in ast.walk(fn):
                for field in ("body", "orelse", "finalbody"):
                    blk = getattr(node, field, None)
                    if not (isinstance(blk, list) and blk and isinstance(blk[0], ast.stmt)):
                        continue
                    for a, b in zip(blk, blk[1:]):
                        if isinstance(a, ast.Assign) and len(a.targets) == 1 and isinstance(a.targets[0], ast.Name) and isinstance(b, simple):
                            nm = a.targets[0].id
                            if sum(1 for x in ast.walk(b) if isinstance(x, ast.Name) and x.id == nm and isinstance(x.ctx, ast.Load)) == 1 and not any(isinstance(x, ast.Name) and x.id == nm and not isinstance(x.ctx, ast.Load) for x in ast.walk(b)):
                                pairs[nm] = pairs.get(nm, 0) + 1
            for node in ast.walk(fn):
                for field in ("body", "orelse", "finalbody"):
                    blk = getattr(node, field, None)
                    if not (isinstance(blk, list) and blk and isinstance(blk[0], ast.stmt)):
                        continue
                    i = 0
                    while i + 1 < len(blk):
                        a, b = blk[i], blk[i + 1]
                        ok = isinstance(a, ast.Assign) and len(a.targets) == 1 and isinstance(a.targets[0], ast.Name) and isinstance(b, simple)
                        if ok:
                            nm = a.targets[0].id
                            ok = nm not in declared and stores.get(nm) == loads.get(nm) == pairs.get(nm) and stores.get(nm, 0) >= 1
                        if ok:
                            order = eval_order(b)
                            use = [k for k, (n_, blocked) in enumerate(order) if isinstance(n_, ast.Name) and n_.id == nm and isinstance(n_.ctx, ast.Load)]
                            ok = len(use) == 1 and not order[use[0]][1] and not any(isinstance(n_, (ast.Call, ast.Await, ast.Yield, ast.YieldFrom, ast.NamedExpr)) for n_, _ in order[: use[0]])
                        if ok:
                            target = order[use[0]][0]
                            val = a.value

                            class R(ast.NodeTransformer):
                                def visit_Name(self, n_):
                                    return val if n_ is target else n_

                            blk[i + 1] = R().visit(b)
                            del blk[i]
                            changed = True
                            for d_ in (loads, stores, pairs):
                                d_[nm] = d_.get(nm, 1) - 1
                            continue
                        i += 1


_ANCHOR_CACHE = None


def anchor_names():
    """Identifiers that occur in string literals of the checker's own sources and tables (rule anchors, reviewed
    tables, known-finding keys, mutant texts): a method with such a name is never inlined by `_inline_helpers`, so
    every rule still finds the function it names."""
    global _ANCHOR_CACHE
    if _ANCHOR_CACHE is not None:
        return _ANCHOR_CACHE
    import re

    here = os.path.dirname(os.path.abspath(__file__))
    names = set()
    ident = re.compile(r"[A-Za-z_][A-Za-z0-9_]*")
    files = []
    for root, dirs, fs in os.walk(here):
        dirs[:] = [d for d in dirs if d != "__pycache__"]
        files += [os.path.join(root, f) for f in fs if f.endswith(".py")]
    for path in files:
        try:
            tree = ast.parse(open(path, encoding="utf-8").read())
        except SyntaxError:
            continue
        for n in ast.walk(tree):
            if isinstance(n, ast.Constant) and isinstance(n.value, str):
                names.update(ident.findall(n.value))
    kf = os.path.join(os.path.dirname(here), "known_findings.json")
    if os.path.exists(kf):
        names.update(ident.findall(open(kf, encoding="utf-8").read()))
    _ANCHOR_CACHE = names
    return names


def _to_tail_form(stmts):
    """`if c: ...; return a` followed by REST  ->  `if c: ...; return a  else: REST` (recursively), on a copy: guard
    clauses become an if / else tree whose returns are all in tail position."""
    import copy as _copy

    out = []
    stmts = list(stmts)
    for i, st in enumerate(stmts):
        if isinstance(st, ast.If):
            st = _copy.copy(st)
            st.body = _to_tail_form(st.body)
            st.orelse = _to_tail_form(st.orelse) if st.orelse else []
            ends = st.body and isinstance(st.body[-1], (ast.Return, ast.Raise))
            if ends and not st.orelse and i + 1 < len(stmts) and any(isinstance(x, ast.Return) for x in ast.walk(st)):
                st.orelse = _to_tail_form(stmts[i + 1 :])
                out.append(st)
                return out
        out.append(st)
    return out


def _has_fallthrough_leaf(block):
    if not block:
        return True
    last = block[-1]
    if isinstance(last, (ast.Return, ast.Raise)):
        return False
    if isinstance(last, ast.If):
        return _has_fallthrough_leaf(last.body) or _has_fallthrough_leaf(last.orelse)
    return True


def _returns_in_tail_position(stmts):
    """No return at all, or every return of the statement list is in tail position: the last statement is a return /
    raise, or an if / else (both arms present) whose arms end the same way; nothing before the last statement returns."""
    if not any(isinstance(x, ast.Return) for s in stmts for x in ast.walk(s)):
        return True

    def tail(block):
        if not any(isinstance(x, ast.Return) for s in block for x in ast.walk(s)):
            return True  # falls off the end: an implicit `return None` in tail position
        if any(isinstance(x, ast.Return) for s in block[:-1] for x in ast.walk(s)):
            return False
        last = block[-1]
        if isinstance(last, (ast.Return, ast.Raise)):
            return True
        if isinstance(last, ast.If):
            return tail(last.body) and tail(last.orelse)
        return False

    return tail(stmts)


def _substitute_call(h, skip, body, rets, st, call, g, nm, site=0):
    """(pre, body, post) statement lists that replace the whole-statement call `st` of helper `h` inside function `g`,
    or None if the call cannot be substituted (starred arguments, unmatched parameters)."""
    import copy as _copy

    a = h.args
    if any(isinstance(x, ast.Starred) for x in call.args) or any(k.arg is None for k in call.keywords):
        return None
    params = [x.arg for x in a.args[skip:]] + [x.arg for x in a.kwonlyargs]
    defaults = dict(zip([x.arg for x in a.args[skip:]][len(a.args[skip:]) - len(a.defaults):], a.defaults))
    defaults.update({x.arg: d for x, d in zip(a.kwonlyargs, a.kw_defaults) if d is not None})
    bind = {}
    pos = [x.arg for x in a.args[skip:]]
    if len(call.args) > len(pos):
        return None
    for p_, v_ in zip(pos, call.args):
        bind[p_] = v_
    ok = True
    for k in call.keywords:
        if k.arg not in params or k.arg in bind:
            ok = False
        bind[k.arg] = k.value
    for p_ in params:
        if p_ not in bind:
            if p_ in defaults:
                bind[p_] = defaults[p_]
            else:
                ok = False
    if not ok:
        return None
    stored = {x.id for s in body for x in ast.walk(s) if isinstance(x, ast.Name) and not isinstance(x.ctx, ast.Load)} | {x.target.id for s in body for x in ast.walk(s) if isinstance(x, ast.AugAssign) and isinstance(x.target, ast.Name)}
    caller_names = {x.id for x in ast.walk(g) if isinstance(x, ast.Name)} | {x.arg for x in ast.walk(g) if isinstance(x, ast.arg)}
    ret_names = []
    if rets and rets[0].value is not None:
        rv = rets[0].value
        ret_names = [e.id for e in (rv.elts if isinstance(rv, ast.Tuple) else [rv]) if isinstance(e, ast.Name)]
    tgt_names = []
    if isinstance(st, ast.Assign):
        t = st.targets[0]
        tgt_names = [e.id for e in (t.elts if isinstance(t, ast.Tuple) else [t]) if isinstance(e, ast.Name)]
    rename, pre = {}, []
    for p_ in params:
        v_ = bind[p_]
        pure = isinstance(v_, (ast.Name, ast.Constant)) or (isinstance(v_, (ast.Attribute, ast.Subscript)) and not any(isinstance(x, (ast.Call, ast.BinOp, ast.Compare)) for x in ast.walk(v_)))
        if pure and p_ not in stored:
            rename[p_] = v_
        elif isinstance(v_, ast.Name) and v_.id == p_:
            pass  # same name on both sides: the helper's re-binding is the caller's re-binding only if returned
        else:
            new = p_ if (p_ not in caller_names and site == 0) else f"{p_}__{nm}"
            if site:
                # (a further call site of the same helper in this caller: its argument gets its own temporary, so that each
                # one is bound once and can be propagated)
                new = f"{p_}__{nm}_{site + 1}"
            pre.append(ast.copy_location(ast.Assign(targets=[ast.Name(id=new, ctx=ast.Store())], value=v_), st))
            if new != p_:
                rename[p_] = ast.Name(id=new, ctx=ast.Load())
    for l_ in sorted(stored - set(params)):
        keep = (l_ in ret_names and l_ in tgt_names and ret_names.index(l_) == tgt_names.index(l_)) or l_ not in caller_names
        if not keep:
            rename[l_] = ast.Name(id=f"{l_}__{nm}", ctx=ast.Load())

    class R(ast.NodeTransformer):
        def visit_Name(self, n_):
            r_ = rename.get(n_.id)
            if r_ is None:
                return n_
            if isinstance(n_.ctx, ast.Load):
                return ast.copy_location(_copy.deepcopy(r_), n_)
            if isinstance(r_, ast.Name):
                return ast.copy_location(ast.Name(id=r_.id, ctx=n_.ctx), n_)
            return n_

    new_body = [R().visit(_copy.deepcopy(s)) for s in body]
    post = []
    single_tail = len(rets) == 1 and body and body[-1] is rets[0]
    if rets and not single_tail:
        if not isinstance(st, ast.Expr) and _has_fallthrough_leaf(body):
            return None  # a value is expected from a path that returns nothing explicitly
        # returns in tail position of an if / else tree: each `return E` becomes the call site's statement with E
        class RT(ast.NodeTransformer):
            def visit_FunctionDef(self, n_):
                return n_

            def visit_Lambda(self, n_):
                return n_

            def visit_Return(self, n_):
                rv_ = n_.value if n_.value is not None else ast.Constant(value=None)
                if isinstance(st, ast.Assign):
                    return ast.copy_location(ast.Assign(targets=_copy.deepcopy(st.targets), value=rv_), n_)
                if isinstance(st, ast.Return):
                    return ast.copy_location(ast.Return(value=rv_), n_)
                if any(isinstance(x, ast.Call) for x in ast.walk(rv_)):
                    return ast.copy_location(ast.Expr(value=rv_), n_)
                return ast.copy_location(ast.Pass(), n_)

        new_body = [RT().visit(s) for s in new_body]
        return pre, new_body, post
    if rets:
        new_body = new_body[:-1]
        rv = R().visit(_copy.deepcopy(rets[0].value)) if rets[0].value is not None else ast.Constant(value=None)
        if isinstance(st, ast.Assign):
            if ast.dump(_strip_ctx(st.targets[0])) != ast.dump(_strip_ctx(rv)):
                post.append(ast.copy_location(ast.Assign(targets=st.targets, value=rv), st))
        elif isinstance(st, ast.Return):
            post.append(ast.copy_location(ast.Return(value=rv), st))
        elif any(isinstance(x, ast.Call) for x in ast.walk(rv)):
            post.append(ast.copy_location(ast.Expr(value=rv), st))
    else:
        if isinstance(st, ast.Assign):
            post.append(ast.copy_location(ast.Assign(targets=st.targets, value=ast.Constant(value=None)), st))
        elif isinstance(st, ast.Return):
            post.append(ast.copy_location(ast.Return(value=None), st))
    return pre, new_body, post


def _inline_helpers(trees):
    """Program-level normal form for extracted helper methods: a method that (a) no rule names (see anchor_names),
    (b) is referenced exactly once in the whole package, by a call `self.h(...)` that is a whole statement
    (`self.h(..)`, `t = self.h(..)`, `return self.h(..)`) in another method of the same class, (c) is not overridden or
    inherited, undecorated, without *args / **kwargs / yield / nested defs, and (d) returns only through one final
    `return`, is substituted into its caller and removed.  `f(); self._step(x)` and the same code with the body of
    `_step` written out are then one program to every rule.  Names of the helper are kept where the call site uses the
    same names (the usual outcome of an extract-method refactoring) and get a suffix otherwise."""
    import copy as _copy

    anchors = anchor_names()
    for _round in range(6):
        refs = {}
        for tree in trees:
            for n in ast.walk(tree):
                if isinstance(n, ast.Attribute):
                    refs[n.attr] = refs.get(n.attr, 0) + 1
                elif isinstance(n, ast.Constant) and isinstance(n.value, str) and n.value.isidentifier():
                    refs[n.value] = refs.get(n.value, 0) + 1  # getattr(self, "name") and the like
        class_defs = {}
        for tree in trees:
            for n in ast.walk(tree):
                if isinstance(n, ast.ClassDef):
                    class_defs.setdefault(n.name, []).append(n)
        method_owners = {}
        for cs in class_defs.values():
            for c in cs:
                for f in c.body:
                    if isinstance(f, (ast.FunctionDef, ast.AsyncFunctionDef)):
                        method_owners.setdefault(f.name, []).append(c)
        changed = False
        for tree in trees:
            for cls_ in [n for n in ast.walk(tree) if isinstance(n, ast.ClassDef)]:
                for h in [f for f in cls_.body if isinstance(f, ast.FunctionDef)]:
                    nm = h.name
                    static = len(h.decorator_list) == 1 and isinstance(h.decorator_list[0], ast.Name) and h.decorator_list[0].id == "staticmethod"
                    if nm in anchors or nm.startswith("__") or (h.decorator_list and not static):
                        continue
                    owners = method_owners.get(nm, [])
                    n_refs_here = refs.get(nm, 0)
                    if len(owners) == 1:
                        if not 1 <= n_refs_here <= 4:
                            continue
                    else:
                        # the same helper name in several classes: fine if they are unrelated by inheritance and every
                        # reference in the package is a `self.<name>` inside one of them
                        inside = {id(c_): sum(1 for x in ast.walk(c_) if (isinstance(x, ast.Attribute) and x.attr == nm) or (isinstance(x, ast.Constant) and x.value == nm)) for c_ in owners}
                        n_refs_here = inside.get(id(cls_), 0)
                        if not 1 <= n_refs_here <= 4 or sum(inside.values()) != refs.get(nm, 0):
                            continue
                        if any(o_ is not cls_ and (o_.name in _ancestors(cls_.name, class_defs) or cls_.name in _ancestors(o_.name, class_defs)) for o_ in owners):
                            continue
                    a = h.args
                    if a.vararg or a.kwarg or a.posonlyargs or (not static and (not a.args or a.args[0].arg != "self")):
                        continue
                    receivers = ("self", "cls", cls_.name) if static else ("self",)
                    if any(isinstance(x, (ast.Yield, ast.YieldFrom, ast.FunctionDef, ast.AsyncFunctionDef, ast.ClassDef, ast.Global, ast.Nonlocal, ast.Await)) and x is not h for x in ast.walk(h)):
                        continue
                    body = [s for s in h.body if not (isinstance(s, ast.Expr) and isinstance(s.value, ast.Constant) and isinstance(s.value.value, str))]
                    body = _to_tail_form(body)
                    rets = [x for s_ in body for x in ast.walk(s_) if isinstance(x, ast.Return)]
                    if not _returns_in_tail_position(body):
                        continue
                    # the references: whole-statement calls in sibling methods
                    sites = []
                    for g in [f for f in cls_.body if isinstance(f, ast.FunctionDef) and f is not h]:
                        for owner in ast.walk(g):
                            for fld in ("body", "orelse", "finalbody"):
                                blk = getattr(owner, fld, None)
                                if not (isinstance(blk, list) and blk and isinstance(blk[0], ast.stmt)):
                                    continue
                                for st in blk:
                                    call = st.value if isinstance(st, (ast.Expr, ast.Return)) else (st.value if isinstance(st, ast.Assign) and len(st.targets) == 1 else None)
                                    if isinstance(call, ast.Call) and isinstance(call.func, ast.Attribute) and call.func.attr == nm and isinstance(call.func.value, ast.Name) and call.func.value.id in receivers and not any(s_[2] is st for s_ in sites):
                                        sites.append((g, blk, st, call))
                    if len(sites) != n_refs_here:
                        continue
                    subs = [_substitute_call(h, 0 if static else 1, body, rets, st, call, g, nm, site=sum(1 for s0_ in sites[:i_] if s0_[0] is g)) for i_, (g, blk, st, call) in enumerate(sites)]
                    if any(s_ is None for s_ in subs):
                        continue
                    for (g, blk, st, call), (pre, new_body, post) in zip(sites, subs):
                        i = next(k for k, x in enumerate(blk) if x is st)
                        blk[i : i + 1] = pre + new_body + post or [ast.copy_location(ast.Pass(), st)]
                    cls_.body.remove(h)
                    ast.fix_missing_locations(tree)
                    refs[nm] = refs.get(nm, 0) - n_refs_here
                    if cls_ in method_owners.get(nm, []):
                        method_owners[nm].remove(cls_)
                    changed = True
                    continue
        if not changed:
            return


def _inline_module_helpers(trees):
    """The module-level twin of `_inline_helpers`: a private module-level function no rule names, referenced only as the
    callee of whole-statement calls (at most 4) inside functions of its own module, without decorators / *args / yield /
    nested defs and with a single final return, is substituted at each call site and removed."""
    anchors = anchor_names()
    for _round in range(4):
        changed = False
        name_refs = {}
        for tree in trees:
            for n in ast.walk(tree):
                if isinstance(n, ast.Name):
                    name_refs[n.id] = name_refs.get(n.id, 0) + 1
                elif isinstance(n, ast.Attribute):
                    name_refs[n.attr] = name_refs.get(n.attr, 0) + 1
                elif isinstance(n, ast.alias):
                    name_refs[n.name.split(".")[-1]] = name_refs.get(n.name.split(".")[-1], 0) + 1
                    if n.asname:
                        name_refs[n.asname] = name_refs.get(n.asname, 0) + 1
                elif isinstance(n, ast.Constant) and isinstance(n.value, str) and n.value.isidentifier():
                    name_refs[n.value] = name_refs.get(n.value, 0) + 1
        for tree in trees:
            for h in [f for f in tree.body if isinstance(f, ast.FunctionDef)]:
                nm = h.name
                if nm in anchors or nm.startswith("__") or h.decorator_list:
                    continue
                # a public name is inlined only if it is new to the rules *and* undocumented in the package's API listing
                # (no `__all__` entry): helpers introduced by a clean-up are not always underscored
                if not nm.startswith("_") and (os.environ.get("SA_INLINE_PUBLIC", "1") != "1" or any(isinstance(s_, ast.Assign) and any(isinstance(t_, ast.Name) and t_.id == "__all__" for t_ in s_.targets) and any(isinstance(c_, ast.Constant) and c_.value == nm for c_ in ast.walk(s_.value)) for t2 in trees for s_ in t2.body)):
                    continue
                a = h.args
                if a.vararg or a.kwarg or a.posonlyargs:
                    continue
                if any(isinstance(x, (ast.Yield, ast.YieldFrom, ast.FunctionDef, ast.AsyncFunctionDef, ast.ClassDef, ast.Global, ast.Nonlocal, ast.Await)) and x is not h for x in ast.walk(h)):
                    continue
                if any(isinstance(x, ast.Name) and x.id == nm for x in ast.walk(h)):
                    continue  # recursive
                body = [s for s in h.body if not (isinstance(s, ast.Expr) and isinstance(s.value, ast.Constant) and isinstance(s.value.value, str))]
                body = _to_tail_form(body)
                rets = [x for s_ in body for x in ast.walk(s_) if isinstance(x, ast.Return)]
                if not _returns_in_tail_position(body):
                    continue
                # call sites: in the defining module and in modules that import the name (`from .m import _h`)
                defs_of_name = sum(1 for t2 in trees for f2 in ast.walk(t2) if isinstance(f2, (ast.FunctionDef, ast.AsyncFunctionDef, ast.ClassDef)) and f2.name == nm)
                if defs_of_name != 1:
                    continue
                # references from a module-level dispatch table `{key: helper, ...}` (already expanded into calls by
                # _expand_dispatch_tables) do not count as uses; the definition is then kept for the table
                table_refs = sum(1 for s_ in tree.body if isinstance(s_, ast.Assign) and isinstance(s_.value, ast.Dict) for v_ in s_.value.values if isinstance(v_, ast.Name) and v_.id == nm)
                importers = [t2 for t2 in trees if t2 is not tree and any(isinstance(s_, ast.ImportFrom) and any(al.name == nm and al.asname is None for al in s_.names) for s_ in t2.body)]
                n_import_refs = sum(1 for t2 in importers for s_ in t2.body if isinstance(s_, ast.ImportFrom) for al in s_.names if al.name == nm)
                free = {x.id for s_ in body for x in ast.walk(s_) if isinstance(x, ast.Name) and isinstance(x.ctx, ast.Load)} - {x.arg for x in a.args + a.kwonlyargs} - {x.id for s_ in body for x in ast.walk(s_) if isinstance(x, ast.Name) and not isinstance(x.ctx, ast.Load)}
                import builtins as _bi

                def top_names(t2):
                    out = set()
                    for s_ in t2.body:
                        if isinstance(s_, (ast.FunctionDef, ast.AsyncFunctionDef, ast.ClassDef)):
                            out.add(s_.name)
                        elif isinstance(s_, (ast.Import, ast.ImportFrom)):
                            out |= {(al.asname or al.name).split(".")[0] for al in s_.names}
                        elif isinstance(s_, ast.Assign):
                            out |= {x.id for tg in s_.targets for x in ast.walk(tg) if isinstance(x, ast.Name)}
                    return out

                # names the body needs that an importing module does not bind: copy the (absolute) import over
                home_imports = {}
                for s_ in tree.body:
                    if isinstance(s_, ast.Import) or (isinstance(s_, ast.ImportFrom) and not s_.level):
                        for al in s_.names:
                            home_imports[(al.asname or al.name).split(".")[0]] = (s_, al)
                need = {id(t2): (free - set(dir(_bi))) - top_names(t2) for t2 in importers}
                if any(not set(v_) <= set(home_imports) for v_ in need.values()):
                    continue
                for t2 in importers:
                    for v_ in sorted(need[id(t2)]):
                        s_, al = home_imports[v_]
                        imp = ast.Import(names=[al]) if isinstance(s_, ast.Import) else ast.ImportFrom(module=s_.module, names=[al], level=0)
                        t2.body.insert(0, ast.fix_missing_locations(ast.copy_location(imp, t2.body[0])))
                sites = []
                for t2 in [tree] + importers:
                    for g in [f for f in ast.walk(t2) if isinstance(f, ast.FunctionDef) and f is not h]:
                        for owner in ast.walk(g):
                            if isinstance(owner, (ast.FunctionDef, ast.AsyncFunctionDef)) and owner is not g:
                                continue
                            for fld in ("body", "orelse", "finalbody"):
                                blk = getattr(owner, fld, None)
                                if not (isinstance(blk, list) and blk and isinstance(blk[0], ast.stmt)):
                                    continue
                                for st in blk:
                                    call = st.value if isinstance(st, (ast.Expr, ast.Return)) else (st.value if isinstance(st, ast.Assign) and len(st.targets) == 1 else None)
                                    if isinstance(call, ast.Call) and isinstance(call.func, ast.Name) and call.func.id == nm and not any(s_[3] is st for s_ in sites):
                                        sites.append((g, blk, call, st))
                if not sites or len(sites) > 6 or name_refs.get(nm, 0) != len(sites) + n_import_refs + table_refs:
                    continue
                subs = [_substitute_call(h, 0, body, rets, st, call, g, nm, site=sum(1 for s0_ in sites[:i_] if s0_[0] is g)) for i_, (g, blk, call, st) in enumerate(sites)]
                if any(s_ is None for s_ in subs):
                    continue
                for (g, blk, call, st), (pre, new_body, post) in zip(sites, subs):
                    i = next(k for k, x in enumerate(blk) if x is st)
                    blk[i : i + 1] = pre + new_body + post or [ast.copy_location(ast.Pass(), st)]
                for t2 in importers:
                    for s_ in list(t2.body):
                        if isinstance(s_, ast.ImportFrom) and any(al.name == nm for al in s_.names):
                            s_.names = [al for al in s_.names if al.name != nm]
                            if not s_.names:
                                t2.body.remove(s_)
                    ast.fix_missing_locations(t2)
                if not table_refs:
                    tree.body.remove(h)
                ast.fix_missing_locations(tree)
                changed = True
        if not changed:
            return


def _inline_expression_helpers(trees):
    """A private method / module-level function no rule names whose body is a single `return <expr>` is substituted,
    as an expression, at every call `self.h(args)` / `h(args)` (any position: loop tests, conditions, arguments) when
    the arguments are call-free, the name is defined once in the package and every reference is such a call (at most 6)."""
    import copy as _copy

    anchors = anchor_names()
    defs = {}
    for t in trees:
        for c in [t] + [n for n in ast.walk(t) if isinstance(n, ast.ClassDef)]:
            for f in c.body:
                if isinstance(f, ast.FunctionDef):
                    defs.setdefault(f.name, []).append((t, c, f))
    refs = {}
    for t in trees:
        for n in ast.walk(t):
            if isinstance(n, ast.Attribute):
                refs[n.attr] = refs.get(n.attr, 0) + 1
            elif isinstance(n, ast.Name):
                refs[n.id] = refs.get(n.id, 0) + 1
            elif isinstance(n, ast.alias):
                refs[(n.asname or n.name).split(".")[-1]] = refs.get((n.asname or n.name).split(".")[-1], 0) + 1
            elif isinstance(n, ast.Constant) and isinstance(n.value, str) and n.value.isidentifier():
                refs[n.value] = refs.get(n.value, 0) + 1
    for nm, ds in defs.items():
        if len(ds) != 1 or nm in anchors or not nm.startswith("_") or nm.startswith("__"):
            continue
        t, c, h = ds[0]
        static = isinstance(c, ast.ClassDef) and len(h.decorator_list) == 1 and isinstance(h.decorator_list[0], ast.Name) and h.decorator_list[0].id == "staticmethod"
        if (h.decorator_list and not static) or h.args.vararg or h.args.kwarg or h.args.kwonlyargs:
            continue
        body = [s for s in h.body if not (isinstance(s, ast.Expr) and isinstance(s.value, ast.Constant) and isinstance(s.value.value, str))]
        if len(body) != 1 or not isinstance(body[0], ast.Return) or body[0].value is None:
            continue
        is_method = isinstance(c, ast.ClassDef)
        allp = [a.arg for a in h.args.posonlyargs + h.args.args]
        params = allp[1 if (is_method and not static) else 0 :]
        if is_method and not static and (not allp or allp[0] != "self"):
            continue
        expr = body[0].value
        if any(isinstance(x, (ast.Lambda, ast.ListComp, ast.SetComp, ast.DictComp, ast.GeneratorExp, ast.Yield, ast.Await, ast.NamedExpr)) for x in ast.walk(expr)):
            continue
        scope = c if is_method else t
        sites = []
        if static:
            # a static helper is reachable through self / cls inside its class family and through the class name anywhere
            scope = ast.Module(body=list(trees), type_ignores=[])
            for n in [x for t_ in trees for x in ast.walk(t_)]:
                if isinstance(n, ast.Call) and isinstance(n.func, ast.Attribute) and n.func.attr == nm and isinstance(n.func.value, ast.Name) and n.func.value.id in ("self", "cls", c.name):
                    sites.append(n)
        elif is_method:
            for n in ast.walk(scope):
                if isinstance(n, ast.Call) and isinstance(n.func, ast.Attribute) and n.func.attr == nm and isinstance(n.func.value, ast.Name) and n.func.value.id == "self":
                    sites.append(n)
        else:
            # a module-level helper: called by name in its own module and in every module that imports the name
            imports = [(t_, i_, a_) for t_ in trees for i_ in ast.walk(t_) if isinstance(i_, ast.ImportFrom) for a_ in i_.names if a_.name == nm and a_.asname is None]
            for t_ in [t] + [x[0] for x in imports]:
                for n in ast.walk(t_):
                    if isinstance(n, ast.Call) and isinstance(n.func, ast.Name) and n.func.id == nm and not any(n is s_ for s_ in sites):
                        sites.append(n)
        n_imp = len(imports) if (not is_method and not static) else 0
        if not sites or len(sites) > 12 or refs.get(nm, 0) != len(sites) + n_imp:
            continue
        if n_imp:
            # the expression's global names must mean the same thing in the importing modules: bound there by the same
            # import statement, or not bound at all (the import is then copied over)
            def _binders(tree_):
                out_ = {}
                for s_ in tree_.body:
                    if isinstance(s_, (ast.Import, ast.ImportFrom)):
                        for a_ in s_.names:
                            out_[(a_.asname or a_.name).split(".")[0]] = ("import", ast.dump(s_) if len(s_.names) == 1 else ast.dump(a_) + (getattr(s_, "module", None) or "") + str(getattr(s_, "level", 0)), s_, a_)
                    elif isinstance(s_, (ast.FunctionDef, ast.ClassDef)):
                        out_[s_.name] = ("def", None, s_, None)
                    elif isinstance(s_, ast.Assign):
                        for t__ in s_.targets:
                            if isinstance(t__, ast.Name):
                                out_[t__.id] = ("assign", None, s_, None)
                return out_

            import builtins as _bi

            free_ = {x.id for x in ast.walk(expr) if isinstance(x, ast.Name) and x.id not in params and not hasattr(_bi, x.id)}
            home_ = _binders(t)
            clash_, to_add_ = False, []
            for t_, i_, a_ in imports:
                there_ = _binders(t_)
                for v_ in free_:
                    hb_ = home_.get(v_)
                    if hb_ is None or hb_[0] != "import":
                        clash_ = True
                    elif v_ in there_:
                        tb_ = there_[v_]
                        if tb_[0] != "import" or (ast.dump(tb_[3]), getattr(tb_[2], "module", None), getattr(tb_[2], "level", 0)) != (ast.dump(hb_[3]), getattr(hb_[2], "module", None), getattr(hb_[2], "level", 0)):
                            clash_ = True
                    else:
                        if isinstance(hb_[2], ast.ImportFrom) and hb_[2].level:
                            clash_ = True  # a relative import means something else from another package
                        else:
                            to_add_.append((t_, type(hb_[2])(**{**{f_: getattr(hb_[2], f_) for f_ in hb_[2]._fields}, "names": [hb_[3]]})))
            if clash_:
                continue
            for t_, imp_ in to_add_:
                if not any(ast.dump(imp_) == ast.dump(s_) for s_ in t_.body):
                    t_.body.insert(0, ast.fix_missing_locations(ast.copy_location(imp_, t_.body[0])))
        if any(x is s for s in sites for x in ast.walk(h)):
            continue  # recursive
        ok = True
        binds = []
        for s in sites:
            if s.keywords and any(k.arg is None for k in s.keywords) or any(isinstance(a, ast.Starred) for a in s.args) or len(s.args) > len(params):
                ok = False
                break
            b = dict(zip(params, s.args))
            for k in s.keywords:
                if k.arg not in params or k.arg in b:
                    ok = False
                b[k.arg] = k.value
            dflt = dict(zip(params[len(params) - len(h.args.defaults):], h.args.defaults))
            for p_ in params:
                if p_ not in b:
                    if p_ in dflt:
                        b[p_] = dflt[p_]
                    else:
                        ok = False
            if not ok or any(isinstance(x, (ast.Call, ast.Await, ast.Yield, ast.NamedExpr)) for v in b.values() for x in ast.walk(v)):
                ok = False
                break
            binds.append(b)
        if not ok:
            continue
        parent = {}
        for n in ([x for t_ in trees for x in ast.walk(t_)] if (static or n_imp) else ast.walk(scope)):
            for fld, v in ast.iter_fields(n):
                if isinstance(v, list):
                    for i, x in enumerate(v):
                        if isinstance(x, ast.AST):
                            parent[id(x)] = (n, fld, i)
                elif isinstance(v, ast.AST):
                    parent[id(v)] = (n, fld, None)
        for s, b in zip(sites, binds):
            class R(ast.NodeTransformer):
                def visit_Name(self, n_):
                    if n_.id in b and isinstance(n_.ctx, ast.Load):
                        return ast.copy_location(_copy.deepcopy(b[n_.id]), n_)
                    return n_

            new = ast.copy_location(R().visit(_copy.deepcopy(expr)), s)
            par, fld, i = parent[id(s)]
            if i is None:
                setattr(par, fld, new)
            else:
                getattr(par, fld)[i] = new
        (c.body if is_method else t.body).remove(h)
        if n_imp:
            for t_, i_, a_ in imports:
                i_.names.remove(a_)
            for t_ in trees:
                for owner in ast.walk(t_):
                    for fld in ("body", "orelse", "finalbody"):
                        blk = getattr(owner, fld, None)
                        if isinstance(blk, list) and any(isinstance(s_, ast.ImportFrom) and not s_.names for s_ in blk):
                            blk[:] = [s_ for s_ in blk if not (isinstance(s_, ast.ImportFrom) and not s_.names)] or [ast.Pass()]
        for t_ in (trees if (static or n_imp) else [t]):
            ast.fix_missing_locations(t_)


def _inline_index_properties(trees):
    """A read-only property that names one slot of a list attribute - `return self.<attr>[<int>]` or `self.<attr>[<slice>]` -
    is that slot: inside the class and its subclasses `self.p` reads as `self.<attr>[k]` (and `self.<attr>[:n][k]` as
    `self.<attr>[k]`).  Not applied when the property has a setter, is overridden or shadowed anywhere in the class
    family, or `self.p` is ever stored."""
    import copy as _copy

    class_defs = {}
    for t in trees:
        for c in ast.walk(t):
            if isinstance(c, ast.ClassDef):
                class_defs.setdefault(c.name, []).append(c)

    def simple_index(e):
        if not (isinstance(e, ast.Subscript) and isinstance(e.value, ast.Attribute) and isinstance(e.value.value, ast.Name) and e.value.value.id == "self"):
            return False
        s = e.slice

        def integer(x):
            return x is None or (isinstance(x, ast.Constant) and isinstance(x.value, int) and not isinstance(x.value, bool)) or (isinstance(x, ast.UnaryOp) and isinstance(x.op, ast.USub) and integer(x.operand))

        return integer(s) if not isinstance(s, ast.Slice) else (integer(s.lower) and integer(s.upper) and s.step is None)

    for cname, cs in class_defs.items():
        if len(cs) != 1:
            continue
        c = cs[0]
        family = [c] + [k for n, ks in class_defs.items() for k in ks if cname in _ancestors(n, class_defs)]
        above = [k for a in _ancestors(cname, class_defs) for k in class_defs.get(a, [])]
        for m in list(c.body):
            if not (isinstance(m, ast.FunctionDef) and len(m.decorator_list) == 1 and isinstance(m.decorator_list[0], ast.Name) and m.decorator_list[0].id == "property"):
                continue
            body = [s for s in m.body if not (isinstance(s, ast.Expr) and isinstance(s.value, ast.Constant) and isinstance(s.value.value, str))]
            if len(body) != 1 or not isinstance(body[0], ast.Return) or body[0].value is None or not simple_index(body[0].value):
                continue
            nm = m.name
            clash = False
            for k in family + above:
                for x in k.body:
                    if x is not m and isinstance(x, (ast.FunctionDef, ast.AsyncFunctionDef)) and x.name == nm:
                        clash = True
                    if isinstance(x, (ast.Assign, ast.AnnAssign)) and any(isinstance(t_, ast.Name) and t_.id == nm for t_ in (x.targets if isinstance(x, ast.Assign) else [x.target])):
                        clash = True
                for x in ast.walk(k):
                    if isinstance(x, ast.Attribute) and x.attr == nm and isinstance(x.ctx, (ast.Store, ast.Del)):
                        clash = True
                    if isinstance(x, ast.Call) and isinstance(x.func, ast.Name) and x.func.id in ("setattr", "delattr"):
                        clash = True
            if clash:
                continue
            expr = body[0].value

            class R(ast.NodeTransformer):
                def visit_Attribute(self, n_):
                    self.generic_visit(n_)
                    if n_.attr == nm and isinstance(n_.ctx, ast.Load) and isinstance(n_.value, ast.Name) and n_.value.id == "self":
                        return ast.copy_location(_copy.deepcopy(expr), n_)
                    return n_

            for k in family:
                for x in k.body:
                    if isinstance(x, (ast.FunctionDef, ast.AsyncFunctionDef)) and x is not m and x.args.args and x.args.args[0].arg == "self":
                        R().visit(x)
    # self.a[:n][k] -> self.a[k]   (0 <= k < n)
    for t in trees:
        for n_ in ast.walk(t):
            if isinstance(n_, ast.Subscript) and isinstance(n_.slice, ast.Constant) and isinstance(n_.slice.value, int) and not isinstance(n_.slice.value, bool) and isinstance(n_.value, ast.Subscript) and isinstance(n_.value.slice, ast.Slice):
                sl = n_.value.slice
                if sl.lower is None and sl.step is None and isinstance(sl.upper, ast.Constant) and isinstance(sl.upper.value, int) and 0 <= n_.slice.value < sl.upper.value:
                    n_.value = n_.value.value
        ast.fix_missing_locations(t)


def _inline_statement_closure(F, h, body):
    """A nested function without `return` that is only called as a whole statement `h(args)` (call-free arguments, at most 4
    calls) inside the enclosing function F is replaced by its body at those statements, when its parameters are never
    re-bound in the body, it binds no local of its own that F also uses, and every free variable is bound at most once in F."""
    import copy as _copy

    if not body or h.args.defaults or any(isinstance(x, (ast.Return, ast.Yield, ast.YieldFrom, ast.Await, ast.FunctionDef, ast.Lambda, ast.Global, ast.Nonlocal, ast.ClassDef)) for s in body for x in ast.walk(s)):
        return False
    params = [a.arg for a in h.args.args]
    stores = {x.id for s in body for x in ast.walk(s) if isinstance(x, ast.Name) and isinstance(x.ctx, (ast.Store, ast.Del))}
    if stores & set(params):
        return False
    outside = [n for s in F.body if s is not h for n in ast.walk(s)]
    if stores & {n.id for n in outside if isinstance(n, ast.Name)}:
        return False
    refs = [n for n in outside if isinstance(n, ast.Name) and n.id == h.name]
    sites = []
    for owner in [F] + outside:
        for fld in ("body", "orelse", "finalbody"):
            blk = getattr(owner, fld, None)
            if isinstance(blk, list):
                for st in blk:
                    if isinstance(st, ast.Expr) and isinstance(st.value, ast.Call) and isinstance(st.value.func, ast.Name) and st.value.func.id == h.name and not any(st is s_[1] for s_ in sites):
                        sites.append((blk, st))
        if isinstance(owner, ast.Try):
            for hd in owner.handlers:
                for st in hd.body:
                    if isinstance(st, ast.Expr) and isinstance(st.value, ast.Call) and isinstance(st.value.func, ast.Name) and st.value.func.id == h.name and not any(st is s_[1] for s_ in sites):
                        sites.append((hd.body, st))
    if not sites or len(sites) > 4 or len(refs) != len(sites):
        return False
    fparams = {a.arg for a in F.args.posonlyargs + F.args.args + F.args.kwonlyargs} | ({F.args.vararg.arg} if F.args.vararg else set()) | ({F.args.kwarg.arg} if F.args.kwarg else set())
    free = {n.id for s in body for n in ast.walk(s) if isinstance(n, ast.Name) and isinstance(n.ctx, ast.Load) and n.id not in params and n.id not in stores}
    after = [n for s in F.body[F.body.index(h) + 1 :] for n in ast.walk(s)] if h in F.body else outside
    for v in free:
        # the variable must keep, at every call, the value it had when the closure was defined: no store after the def
        if any(isinstance(n, ast.Name) and n.id == v and isinstance(n.ctx, (ast.Store, ast.Del)) for n in after) or any(isinstance(n, ast.ExceptHandler) and n.name == v for n in after):
            return False
    binds = []
    for blk, st in sites:
        c = st.value
        if c.keywords or any(isinstance(a, ast.Starred) for a in c.args) or len(c.args) != len(params) or any(isinstance(x, (ast.Call, ast.Await, ast.NamedExpr)) for a in c.args for x in ast.walk(a)):
            return False
        binds.append(dict(zip(params, c.args)))
    for (blk, st), b in zip(sites, binds):
        class R(ast.NodeTransformer):
            def visit_Name(self, n_):
                if n_.id in b and isinstance(n_.ctx, ast.Load):
                    return ast.copy_location(_copy.deepcopy(b[n_.id]), n_)
                return n_

        new = [ast.fix_missing_locations(R().visit(_copy.deepcopy(s))) for s in body]
        i = next(k for k, x in enumerate(blk) if x is st)
        blk[i : i + 1] = new
    F.body.remove(h)
    return True


def _inline_local_closures(trees):
    """A nested function whose body is a single `return <expr>` and that is only ever called by name inside the enclosing
    function (at most 6 calls, call-free arguments) is substituted at its calls, when every free variable of the
    expression is bound at most once in the enclosing function (so it has the same value at the definition and at every
    call)."""
    import copy as _copy

    for t in trees:
        for F in [n for n in ast.walk(t) if isinstance(n, (ast.FunctionDef, ast.AsyncFunctionDef))]:
            for h in [s for s in F.body if isinstance(s, ast.FunctionDef)]:
                if h.decorator_list or h.args.vararg or h.args.kwarg or h.args.posonlyargs or h.args.kwonlyargs:
                    continue
                body = [s for s in h.body if not (isinstance(s, ast.Expr) and isinstance(s.value, ast.Constant) and isinstance(s.value.value, str))]
                if len(body) != 1 or not isinstance(body[0], ast.Return) or body[0].value is None:
                    _inline_statement_closure(F, h, body)
                    continue
                expr = body[0].value
                if any(isinstance(x, (ast.Lambda, ast.ListComp, ast.SetComp, ast.DictComp, ast.GeneratorExp, ast.Yield, ast.YieldFrom, ast.Await, ast.NamedExpr)) for x in ast.walk(expr)):
                    continue
                params = [a.arg for a in h.args.args]
                outside = [n for s in F.body if s is not h for n in ast.walk(s)]
                refs = [n for n in outside if isinstance(n, ast.Name) and n.id == h.name]
                sites = [n for n in outside if isinstance(n, ast.Call) and isinstance(n.func, ast.Name) and n.func.id == h.name]
                if not sites or len(sites) > 6 or len(refs) != len(sites) or any(isinstance(n, (ast.Global, ast.Nonlocal)) for n in ast.walk(h)):
                    continue
                free = {n.id for n in ast.walk(expr) if isinstance(n, ast.Name) and n.id not in params}
                fparams = {a.arg for a in F.args.posonlyargs + F.args.args + F.args.kwonlyargs} | ({F.args.vararg.arg} if F.args.vararg else set()) | ({F.args.kwarg.arg} if F.args.kwarg else set())
                bad = False
                after_ = [n for s in F.body[F.body.index(h) + 1 :] for n in ast.walk(s)]
                for v in free:
                    if any(isinstance(n, ast.Name) and n.id == v and isinstance(n.ctx, (ast.Store, ast.Del)) for n in after_) or any(isinstance(n, ast.ExceptHandler) and n.name == v for n in after_):
                        bad = True
                if bad:
                    continue
                binds, ok = [], True
                for s in sites:
                    if any(k.arg is None for k in s.keywords) or any(isinstance(a, ast.Starred) for a in s.args) or len(s.args) > len(params):
                        ok = False
                        break
                    b = dict(zip(params, s.args))
                    for k in s.keywords:
                        if k.arg not in params or k.arg in b:
                            ok = False
                        b[k.arg] = k.value
                    dflt = dict(zip(params[len(params) - len(h.args.defaults):], h.args.defaults))
                    for p_ in params:
                        if p_ not in b:
                            if p_ in dflt:
                                b[p_] = dflt[p_]
                            else:
                                ok = False
                    if not ok or any(isinstance(x, (ast.Call, ast.Await, ast.Yield, ast.NamedExpr)) for v in b.values() for x in ast.walk(v)):
                        ok = False
                        break
                    binds.append(b)
                if not ok:
                    continue
                parent = {}
                for n in ast.walk(F):
                    for fld, v in ast.iter_fields(n):
                        if isinstance(v, list):
                            for i, x in enumerate(v):
                                if isinstance(x, ast.AST):
                                    parent[id(x)] = (n, fld, i)
                        elif isinstance(v, ast.AST):
                            parent[id(v)] = (n, fld, None)
                for s, b in zip(sites, binds):
                    class R(ast.NodeTransformer):
                        def visit_Name(self, n_):
                            if n_.id in b and isinstance(n_.ctx, ast.Load):
                                return ast.copy_location(_copy.deepcopy(b[n_.id]), n_)
                            return n_

                    new = ast.copy_location(R().visit(_copy.deepcopy(expr)), s)
                    par, fld, i = parent[id(s)]
                    if i is None:
                        setattr(par, fld, new)
                    else:
                        getattr(par, fld)[i] = new
                F.body.remove(h)
                if not F.body:
                    F.body.append(ast.Pass())
        ast.fix_missing_locations(t)


def _unroll_record_objects(trees):
    """Local record objects.  For a NamedTuple / dataclass / namedtuple class C of the package with fields (f1, ..., fk):
    `r = C(e1, ..., ek)` (positional or keyword), with r bound once in the function and used only as `r.fi`, is
    `r__f1 = e1; ...; r__fk = ek` with every `r.fi` read as `r__fi`.  A `for r in (C(..), C(..)): BODY` over a literal
    tuple of such constructor calls (at most 4, a short body without break / continue) is unrolled first."""
    import copy as _copy

    fields = {}
    for t in trees:
        for c in t.body:
            if isinstance(c, ast.ClassDef):
                is_nt = any((isinstance(b, ast.Name) and b.id == "NamedTuple") or (isinstance(b, ast.Attribute) and b.attr == "NamedTuple") for b in c.bases)
                is_dc = any((isinstance(d, ast.Name) and d.id == "dataclass") or (isinstance(d, ast.Attribute) and d.attr == "dataclass") or (isinstance(d, ast.Call) and ((isinstance(d.func, ast.Name) and d.func.id == "dataclass") or (isinstance(d.func, ast.Attribute) and d.func.attr == "dataclass"))) for d in c.decorator_list)
                if (is_nt or is_dc) and not any(isinstance(s, (ast.FunctionDef, ast.AsyncFunctionDef)) for s in c.body):
                    fs = [s.target.id for s in c.body if isinstance(s, ast.AnnAssign) and isinstance(s.target, ast.Name)]
                    if fs:
                        fields.setdefault(c.name, []).append(fs)
            elif isinstance(c, ast.Assign) and len(c.targets) == 1 and isinstance(c.targets[0], ast.Name) and isinstance(c.value, ast.Call) and ((isinstance(c.value.func, ast.Name) and c.value.func.id == "namedtuple") or (isinstance(c.value.func, ast.Attribute) and c.value.func.attr == "namedtuple")) and len(c.value.args) >= 2:
                a1 = c.value.args[1]
                fs = None
                if isinstance(a1, (ast.List, ast.Tuple)) and all(isinstance(e, ast.Constant) and isinstance(e.value, str) for e in a1.elts):
                    fs = [e.value for e in a1.elts]
                elif isinstance(a1, ast.Constant) and isinstance(a1.value, str):
                    fs = a1.value.replace(",", " ").split()
                if fs:
                    fields.setdefault(c.targets[0].id, []).append(fs)
    fields = {k: v[0] for k, v in fields.items() if len(v) == 1}
    if not fields:
        return

    def ctor(e):
        if isinstance(e, ast.Call) and isinstance(e.func, ast.Name) and e.func.id in fields and not any(isinstance(a, ast.Starred) for a in e.args) and not any(k.arg is None for k in e.keywords):
            fs = fields[e.func.id]
            vals = dict(zip(fs, e.args))
            for k in e.keywords:
                if k.arg not in fs or k.arg in vals:
                    return None
                vals[k.arg] = k.value
            if set(vals) == set(fs):
                # evaluation order: positional arguments, then keywords as written
                order = fs[: len(e.args)] + [k.arg for k in e.keywords]
                return [(f, vals[f]) for f in order]
        return None

    def _guard_continue(body):
        """`if X: continue` as a statement of a loop body is `if not X: <the rest of the body>`."""
        for k, b in enumerate(body):
            if isinstance(b, ast.If) and not b.orelse and len(b.body) == 1 and isinstance(b.body[0], ast.Continue):
                rest = _guard_continue(body[k + 1 :])
                if not rest:
                    return body[:k]
                return body[:k] + [ast.copy_location(ast.If(test=ast.UnaryOp(op=ast.Not(), operand=b.test), body=rest, orelse=[]), b)]
        return body

    def _chain_text(e):
        return isinstance(e, ast.Name) or (isinstance(e, ast.Attribute) and _chain_text(e.value))

    for t in trees:
        for F in [n for n in ast.walk(t) if isinstance(n, (ast.FunctionDef, ast.AsyncFunctionDef))]:
            # 0. a list of records built by conditional appends and then looped over:
            #        L = [C(..)]; if c: L.append(C(..)); for r in L: BODY
            #    is  for r in (C(..),): BODY; if c: for r in (C(..),): BODY
            #    (c a plain name / attribute chain that BODY does not rebind; L used nowhere else)
            for owner in ast.walk(F):
                for fld in ("body", "orelse", "finalbody"):
                    blk = getattr(owner, fld, None)
                    if not (isinstance(blk, list) and blk and isinstance(blk[0], ast.stmt)):
                        continue
                    for i, s0 in enumerate(blk):
                        if not (isinstance(s0, ast.Assign) and len(s0.targets) == 1 and isinstance(s0.targets[0], ast.Name) and isinstance(s0.value, (ast.List,)) and s0.value.elts and all(ctor(e) is not None for e in s0.value.elts)):
                            continue
                        L = s0.targets[0].id
                        j = i + 1
                        cond = []
                        while j < len(blk):
                            sj = blk[j]
                            if (isinstance(sj, ast.If) and not sj.orelse and len(sj.body) == 1 and isinstance(sj.body[0], ast.Expr) and isinstance(sj.body[0].value, ast.Call) and src(sj.body[0].value.func) == L + ".append"
                                    and len(sj.body[0].value.args) == 1 and ctor(sj.body[0].value.args[0]) is not None and _chain_text(sj.test)):
                                cond.append((sj.test, sj.body[0].value.args[0]))
                                j += 1
                            else:
                                break
                        if j >= len(blk) or not cond:
                            continue
                        lp = blk[j]
                        if not (isinstance(lp, ast.For) and not lp.orelse and isinstance(lp.iter, ast.Name) and lp.iter.id == L and isinstance(lp.target, ast.Name)):
                            continue
                        n_use = sum(1 for x in ast.walk(F) if isinstance(x, ast.Name) and x.id == L)
                        if n_use != 2 + len(cond):
                            continue
                        stores = {src(x) for b in lp.body for x in ast.walk(b) if isinstance(x, (ast.Name, ast.Attribute)) and isinstance(getattr(x, "ctx", None), (ast.Store, ast.Del))}
                        if any(src(c_) == st_ or src(c_).startswith(st_ + ".") for c_, _ in cond for st_ in stores) or any(isinstance(x, ast.Break) for b in lp.body for x in ast.walk(b)):
                            continue
                        new = [ast.copy_location(ast.For(target=lp.target, iter=ast.Tuple(elts=list(s0.value.elts), ctx=ast.Load()), body=lp.body, orelse=[]), lp)]
                        for k_, (c_, e_) in enumerate(cond):
                            tn_ = f"{lp.target.id}_c{k_}"

                            class _Rt(ast.NodeTransformer):
                                def visit_Name(self, n_):
                                    if n_.id == lp.target.id:
                                        return ast.copy_location(ast.Name(id=tn_, ctx=n_.ctx), n_)
                                    return n_

                            new.append(ast.copy_location(ast.If(test=c_, body=[ast.copy_location(ast.For(target=ast.Name(id=tn_, ctx=ast.Store()), iter=ast.Tuple(elts=[e_], ctx=ast.Load()), body=[_Rt().visit(_copy.deepcopy(b_)) for b_ in lp.body], orelse=[]), lp)], orelse=[]), lp))
                        blk[i : j + 1] = [ast.fix_missing_locations(x) for x in new]
                        break
            for lp in [x for x in ast.walk(F) if isinstance(x, ast.For) and isinstance(x.iter, (ast.Tuple, ast.List)) and x.iter.elts and all(ctor(e) is not None for e in x.iter.elts)]:
                if not any(isinstance(x, ast.Continue) for b in lp.body for x in ast.walk(b) if not isinstance(b, ast.If) or b.orelse or len(b.body) != 1 or not isinstance(b.body[0], ast.Continue)) or True:
                    nb = _guard_continue(list(lp.body))
                    if nb and not any(isinstance(x, ast.Continue) for b in nb for x in ast.walk(b)):
                        lp.body = [ast.fix_missing_locations(b) for b in nb]
            # 1. loops over literal tuples of records
            for owner in ast.walk(F):
                for fld in ("body", "orelse", "finalbody"):
                    blk = getattr(owner, fld, None)
                    if not (isinstance(blk, list) and blk and isinstance(blk[0], ast.stmt)):
                        continue
                    i = 0
                    while i < len(blk):
                        s = blk[i]
                        if (isinstance(s, ast.For) and not s.orelse and isinstance(s.target, ast.Name) and isinstance(s.iter, (ast.Tuple, ast.List)) and 1 <= len(s.iter.elts) <= 4 and all(ctor(e) is not None for e in s.iter.elts)
                                and len(s.body) <= 8 and not any(isinstance(x, (ast.Break, ast.Continue, ast.FunctionDef, ast.Lambda, ast.Yield, ast.YieldFrom)) for b in s.body for x in ast.walk(b))
                                and not any(isinstance(x, ast.Name) and x.id == s.target.id and isinstance(x.ctx, (ast.Store, ast.Del)) for b in s.body for x in ast.walk(b))):
                            new = []
                            for j, e in enumerate(s.iter.elts):
                                nm = f"{s.target.id}__{j}"

                                class _Rn(ast.NodeTransformer):
                                    def visit_Name(self, n_):
                                        if n_.id == s.target.id:
                                            return ast.copy_location(ast.Name(id=nm, ctx=n_.ctx), n_)
                                        return n_

                                new.append(ast.copy_location(ast.Assign(targets=[ast.Name(id=nm, ctx=ast.Store())], value=e), s))
                                new += [_Rn().visit(_copy.deepcopy(b)) for b in s.body]
                            blk[i : i + 1] = [ast.fix_missing_locations(x) for x in new]
                            i += len(new)
                        else:
                            i += 1
            # (a record chosen by a conditional expression is a record bound in each arm of an `if`)
            for owner in ast.walk(F):
                for fld in ("body", "orelse", "finalbody"):
                    blk = getattr(owner, fld, None)
                    if not (isinstance(blk, list) and blk and isinstance(blk[0], ast.stmt)):
                        continue
                    for k, s_ in enumerate(blk):
                        if isinstance(s_, ast.Assign) and len(s_.targets) == 1 and isinstance(s_.targets[0], ast.Name) and isinstance(s_.value, ast.IfExp) and ctor(s_.value.body) is not None and ctor(s_.value.orelse) is not None:
                            blk[k] = ast.fix_missing_locations(ast.copy_location(ast.If(test=s_.value.test, body=[ast.Assign(targets=[ast.Name(id=s_.targets[0].id, ctx=ast.Store())], value=s_.value.body)], orelse=[ast.Assign(targets=[ast.Name(id=s_.targets[0].id, ctx=ast.Store())], value=s_.value.orelse)]), s_))
            # 2. record locals (every binding of the name is a constructor call of one record class, possibly one per branch)
            cands = {}
            for x in ast.walk(F):
                if isinstance(x, ast.Assign) and len(x.targets) == 1 and isinstance(x.targets[0], ast.Name) and ctor(x.value) is not None:
                    cands.setdefault(x.targets[0].id, []).append(x)
            for r, assigns in cands.items():
                if len({a.value.func.id for a in assigns}) != 1:
                    continue
                n_store = sum(1 for x in ast.walk(F) if isinstance(x, ast.Name) and x.id == r and isinstance(x.ctx, (ast.Store, ast.Del)))
                if n_store != len(assigns) or r in {a.arg for a in F.args.posonlyargs + F.args.args + F.args.kwonlyargs}:
                    continue
                fnames = fields[assigns[0].value.func.id]
                parents = {id(c_): p_ for p_ in ast.walk(F) for c_ in ast.iter_child_nodes(p_)}
                uses = [x for x in ast.walk(F) if isinstance(x, ast.Name) and x.id == r and isinstance(x.ctx, ast.Load)]
                if not all(isinstance(parents.get(id(u)), ast.Attribute) and parents[id(u)].value is u and isinstance(parents[id(u)].ctx, ast.Load) and parents[id(u)].attr in fnames for u in uses):
                    continue
                if any(isinstance(x, (ast.FunctionDef, ast.Lambda)) and x is not F and any(u is y for u in uses for y in ast.walk(x)) for x in ast.walk(F)):
                    continue
                for u in uses:
                    a = parents[id(u)]
                    new = ast.copy_location(ast.Name(id=f"{r}__{a.attr}", ctx=ast.Load()), a)
                    a.__class__ = ast.Name
                    a.__dict__.clear()
                    a.__dict__.update(new.__dict__)
                for s_ in assigns:
                    fv = ctor(s_.value)
                    for owner in ast.walk(F):
                        for fld in ("body", "orelse", "finalbody"):
                            blk = getattr(owner, fld, None)
                            if isinstance(blk, list) and any(x is s_ for x in blk):
                                k = next(j for j, x in enumerate(blk) if x is s_)
                                blk[k : k + 1] = [ast.fix_missing_locations(ast.copy_location(ast.Assign(targets=[ast.Name(id=f"{r}__{f}", ctx=ast.Store())], value=v), s_)) for f, v in fv]
        ast.fix_missing_locations(t)


def _expand_dispatch_tables(trees):
    """A module-level constant `D = {k1: f1, k2: f2, ...}` (literal keys, values naming module-level functions, bound once,
    never mutated) used as a dispatch table: a whole-statement call through it - `D[K](ARGS)` directly, or `fn(ARGS)` for a
    local `fn` bound once by `fn = D[K]` / `fn = D.get(K)` (possibly inside a conditional expression) - is the chain
    `if K == k1: f1(ARGS) elif K == k2: f2(ARGS) ... else: <the original dynamic call>` (the final arm keeps whatever the
    original does for a key outside the table: KeyError, calling None, ...).  The arms are then ordinary calls that the
    helper inliner understands.  `bool(x)` keys over {True, False} test `x` itself."""
    import copy as _copy

    for t in trees:
        tables = {}
        funcs = {f.name for f in t.body if isinstance(f, ast.FunctionDef)}
        for s in t.body:
            if isinstance(s, ast.Assign) and len(s.targets) == 1 and isinstance(s.targets[0], ast.Name) and isinstance(s.value, ast.Dict) and s.value.keys and all(isinstance(k, ast.Constant) for k in s.value.keys) and all(isinstance(v, ast.Name) and v.id in funcs for v in s.value.values):
                tables[s.targets[0].id] = [(k.value, v.id) for k, v in zip(s.value.keys, s.value.values)]
        if not tables:
            continue
        bad = set()
        for n in ast.walk(t):
            if isinstance(n, ast.Name) and n.id in tables and isinstance(n.ctx, (ast.Store, ast.Del)):
                bad.add(n.id) if sum(1 for m in ast.walk(t) if isinstance(m, ast.Name) and m.id == n.id and isinstance(m.ctx, (ast.Store, ast.Del))) > 1 else None
            if isinstance(n, ast.Subscript) and isinstance(n.value, ast.Name) and n.value.id in tables and isinstance(n.ctx, (ast.Store, ast.Del)):
                bad.add(n.value.id)
            if isinstance(n, ast.Call) and isinstance(n.func, ast.Attribute) and isinstance(n.func.value, ast.Name) and n.func.value.id in tables and n.func.attr in ("update", "pop", "clear", "setdefault", "popitem"):
                bad.add(n.func.value.id)
        tables = {k: v for k, v in tables.items() if k not in bad}

        def lookup(e):
            """(table name, key expr) if e is D[K] or D.get(K) (also inside `X if c else None`)."""
            if isinstance(e, ast.IfExp):
                return lookup(e.body) or lookup(e.orelse)
            if isinstance(e, ast.Subscript) and isinstance(e.value, ast.Name) and e.value.id in tables:
                return e.value.id, e.slice
            if isinstance(e, ast.Call) and isinstance(e.func, ast.Attribute) and e.func.attr == "get" and isinstance(e.func.value, ast.Name) and e.func.value.id in tables and len(e.args) == 1:
                return e.func.value.id, e.args[0]
            return None

        for F in [n for n in ast.walk(t) if isinstance(n, (ast.FunctionDef, ast.AsyncFunctionDef))]:
            binds = {}
            for s in ast.walk(F):
                if isinstance(s, ast.Assign) and len(s.targets) == 1 and isinstance(s.targets[0], ast.Name):
                    lk = lookup(s.value)
                    if lk and sum(1 for m in ast.walk(F) if isinstance(m, ast.Name) and m.id == s.targets[0].id and isinstance(m.ctx, (ast.Store, ast.Del))) == 1:
                        binds[s.targets[0].id] = lk
            for owner in ast.walk(F):
                for fld in ("body", "orelse", "finalbody"):
                    blk = getattr(owner, fld, None)
                    if not (isinstance(blk, list) and blk and isinstance(blk[0], ast.stmt)):
                        continue
                    for i, st in enumerate(list(blk)):
                        call = st.value if isinstance(st, (ast.Expr, ast.Return)) else (st.value if isinstance(st, ast.Assign) and len(st.targets) == 1 else None)
                        if not isinstance(call, ast.Call):
                            continue
                        lk = None
                        if isinstance(call.func, ast.Name) and call.func.id in binds:
                            lk = binds[call.func.id]
                        elif lookup(call.func) and not isinstance(call.func, ast.IfExp):
                            lk = lookup(call.func)
                        if lk is None:
                            continue
                        tname, key = lk
                        if any(isinstance(x, (ast.Call, ast.Await, ast.NamedExpr)) for x in ast.walk(key) if not (isinstance(x, ast.Call) and isinstance(x.func, ast.Name) and x.func.id == "bool") and not (isinstance(x, ast.Call) and isinstance(x.func, ast.Attribute) and x.func.attr in ("lower", "upper", "strip") and not x.args)):
                            continue
                        arms = tables[tname]

                        def mk(fname):
                            c2 = _copy.deepcopy(call)
                            c2.func = ast.Name(id=fname, ctx=ast.Load())
                            s2 = _copy.copy(st)
                            s2 = _copy.deepcopy(st)
                            if isinstance(s2, (ast.Expr, ast.Return)):
                                s2.value = c2
                            else:
                                s2.value = c2
                            return s2

                        boolkeys = {k for k, _ in arms} <= {True, False} and isinstance(key, ast.Call) and isinstance(key.func, ast.Name) and key.func.id == "bool" and len(key.args) == 1
                        # final arm: what the original does for a key outside the table - `D[K]` raises KeyError (at the
                        # call or where the local was bound), `D.get(K)` yields None and calling None raises TypeError
                        via_get = isinstance(call.func, ast.Name) and any(isinstance(x, ast.Call) and isinstance(x.func, ast.Attribute) and x.func.attr == "get" for s2 in ast.walk(F) if isinstance(s2, ast.Assign) and len(s2.targets) == 1 and isinstance(s2.targets[0], ast.Name) and s2.targets[0].id == call.func.id for x in ast.walk(s2.value))
                        node = ast.Raise(exc=ast.Call(func=ast.Name(id="TypeError" if via_get else "KeyError", ctx=ast.Load()), args=[], keywords=[]), cause=None)
                        if boolkeys and {k for k, _ in arms} == {True, False}:
                            d = dict(arms)
                            node = ast.If(test=_copy.deepcopy(key.args[0]), body=[mk(d[True])], orelse=[mk(d[False])])
                        else:
                            for k, fname in reversed(arms):
                                node = ast.If(test=ast.Compare(left=_copy.deepcopy(key), ops=[ast.Eq()], comparators=[ast.Constant(value=k)]), body=[mk(fname)], orelse=[node])
                        k_ = next(j for j, x in enumerate(blk) if x is st)
                        blk[k_] = ast.fix_missing_locations(ast.copy_location(node, st))
        ast.fix_missing_locations(t)


def _hoist_helper_calls(trees):
    """`S[h(args)]` - a call of a private module-level helper with a multi-statement body, nested inside a simple statement
    whose only other calls are the ones h's result is an argument of - is `_h_k = h(args); S[_h_k]` (same evaluation
    order: h ran first anyway).  The hoisted call is then a whole statement, which the helper inliner understands."""
    anchors = anchor_names()
    helpers = {}
    for t in trees:
        for f in t.body:
            if isinstance(f, ast.FunctionDef) and f.name.startswith("_") and not f.name.startswith("__") and f.name not in anchors and not f.decorator_list:
                body = [s for s in f.body if not (isinstance(s, ast.Expr) and isinstance(s.value, ast.Constant))]
                if len(body) >= 2:
                    helpers.setdefault(f.name, []).append(f)
    helpers = {k for k, v in helpers.items() if len(v) == 1}
    if not helpers:
        return
    counter = [0]
    for t in trees:
        for F in [n for n in ast.walk(t) if isinstance(n, (ast.FunctionDef, ast.AsyncFunctionDef))]:
            for owner in ast.walk(F):
                for fld in ("body", "orelse", "finalbody"):
                    blk = getattr(owner, fld, None)
                    if not (isinstance(blk, list) and blk and isinstance(blk[0], ast.stmt)):
                        continue
                    i = 0
                    while i < len(blk):
                        st = blk[i]
                        i += 1
                        if not isinstance(st, (ast.Assign, ast.Return, ast.Expr, ast.AugAssign)) or getattr(st, "value", None) is None:
                            continue
                        calls = [c for c in ast.walk(st.value) if isinstance(c, ast.Call)]
                        inner = [c for c in calls if isinstance(c.func, ast.Name) and c.func.id in helpers and c is not st.value]
                        if len(inner) != 1:
                            continue
                        c = inner[0]
                        if any(isinstance(x, (ast.Call, ast.Await, ast.NamedExpr, ast.Starred)) for a in list(c.args) + [k.value for k in c.keywords] for x in ast.walk(a)):
                            continue
                        if not all(o is c or any(x is c for x in ast.walk(o)) for o in calls):
                            continue  # another call could run before it
                        if any(isinstance(x, (ast.IfExp, ast.BoolOp, ast.Lambda, ast.ListComp, ast.GeneratorExp, ast.DictComp, ast.SetComp)) and any(y is c for y in ast.walk(x)) for x in ast.walk(st.value)):
                            continue  # conditionally evaluated
                        counter[0] += 1
                        nm = f"_{c.func.id.strip('_')}_{counter[0]}"
                        new_call = ast.Call(func=c.func, args=c.args, keywords=c.keywords)
                        tmp = ast.copy_location(ast.Assign(targets=[ast.Name(id=nm, ctx=ast.Store())], value=ast.copy_location(new_call, c)), st)
                        ref = ast.copy_location(ast.Name(id=nm, ctx=ast.Load()), c)
                        c.__class__ = ast.Name
                        c.__dict__.clear()
                        c.__dict__.update(ref.__dict__)
                        blk.insert(i - 1, ast.fix_missing_locations(tmp))
                        i += 1
        ast.fix_missing_locations(t)


def _flatten_mixins(trees):
    """A private helper base class (name starts with `_`, no rule names it, no bases of its own beyond object / ABC,
    no `__init__`, used as a base by exactly one class of the package and referenced nowhere else) is merged into that
    class: its methods are defined on the subclass (unless overridden there).  Moving methods into `_XMixin` and back
    is then invisible to every rule."""
    anchors = anchor_names()
    classes = [(t, c) for t in trees for c in t.body if isinstance(c, ast.ClassDef)]
    refs = {}
    for t in trees:
        for n in ast.walk(t):
            if isinstance(n, ast.Name):
                refs[n.id] = refs.get(n.id, 0) + 1
            elif isinstance(n, ast.Attribute):
                refs[n.attr] = refs.get(n.attr, 0) + 1
            elif isinstance(n, ast.alias):
                refs[(n.asname or n.name).split(".")[-1]] = refs.get((n.asname or n.name).split(".")[-1], 0) + 1
    for t, m in classes:
        if not m.name.startswith("_") or m.name in anchors or m.decorator_list or m.keywords:
            continue
        if any(not (isinstance(b, ast.Name) and b.id in ("object", "ABC")) and not (isinstance(b, ast.Attribute) and b.attr == "ABC") for b in m.bases):
            continue
        if any(isinstance(f, ast.FunctionDef) and f.name in ("__init__", "__new__", "__init_subclass__") for f in m.body):
            continue
        users = [(t2, c) for t2, c in classes if any(isinstance(b, ast.Name) and b.id == m.name for b in c.bases)]
        if len(users) != 1 or refs.get(m.name, 0) != 1 or users[0][0] is not t:
            continue
        sub = users[0][1]
        own = {f.name for f in sub.body if isinstance(f, (ast.FunctionDef, ast.AsyncFunctionDef))} | {tg.id for s in sub.body if isinstance(s, ast.Assign) for tg in s.targets if isinstance(tg, ast.Name)}
        moved = [s for s in m.body if not (isinstance(s, ast.Expr) and isinstance(s.value, ast.Constant)) and not isinstance(s, ast.Pass) and not (isinstance(s, (ast.FunctionDef, ast.AsyncFunctionDef)) and s.name in own)]
        if any(isinstance(x, ast.Call) and isinstance(x.func, ast.Name) and x.func.id == "super" for s in moved for x in ast.walk(s)):
            continue
        sub.body.extend(moved)
        sub.bases = [b for b in sub.bases if not (isinstance(b, ast.Name) and b.id == m.name)]
        t.body.remove(m)
        ast.fix_missing_locations(t)


def _ancestors(name, class_defs, _seen=None):
    """Names of the (transitive) bases of class `name`, by base-class name."""
    _seen = _seen if _seen is not None else set()
    for c in class_defs.get(name, []):
        for b in c.bases:
            bn = b.attr if isinstance(b, ast.Attribute) else (b.id if isinstance(b, ast.Name) else None)
            if bn and bn not in _seen:
                _seen.add(bn)
                _ancestors(bn, class_defs, _seen)
    return _seen


def _strip_ctx(e):
    import copy as _copy

    e = _copy.deepcopy(e)
    for x in ast.walk(e):
        if hasattr(x, "ctx"):
            x.ctx = ast.Load()
    return e


class Program:
    def __init__(self, repo: str = "/repo", overrides: Optional[Dict[str, str]] = None, strip_logging: bool = False, inline_temps: bool = False, propagate_aliases: bool = True, inline_helpers: bool = True):
        """`overrides` maps repo-relative paths to replacement source text
        (in-memory scratch variants used by the mutation self-test).
        `strip_logging` removes effect-free module-logger statements from every
        body before anything is indexed, so that no structural rule depends on
        where log lines sit (C20, which types the log calls too, keeps them)."""
        self.overrides = overrides or {}
        self.strip_logging = strip_logging
        self.inline_temps = inline_temps
        self.propagate_aliases = propagate_aliases
        self.inline_helpers = inline_helpers
        self.repo = os.path.abspath(repo)
        self.pkgdir = os.path.join(self.repo, PKG)
        self.modules: Dict[str, ModuleInfo] = {}
        self.classes: Dict[str, ClassInfo] = {}
        self.functions: Dict[str, FunctionInfo] = {}
        self.all_functions: List[FunctionInfo] = []
        self._mro_cache: Dict[ClassInfo, List[ClassInfo]] = {}
        self._attr_cache: Dict[ClassInfo, Dict[str, List[str]]] = {}
        self._load()
        self._link()
        from .canon import set_signatures

        set_signatures(self)

    # ------------------------------------------------------------------
    def _load(self):
        if not os.path.isdir(self.pkgdir):
            raise AnalysisError(f"package directory not found: {self.pkgdir}")
        parsed = []
        for root, dirs, files in os.walk(self.pkgdir):
            dirs[:] = sorted(d for d in dirs if d != "__pycache__")
            for f in sorted(files):
                if not f.endswith(".py"):
                    continue
                path = os.path.join(root, f)
                rel = os.path.relpath(path, self.repo)
                modname = rel[:-3].replace(os.sep, ".")
                is_pkg = False
                if modname.endswith(".__init__"):
                    modname = modname[: -len(".__init__")]
                    is_pkg = True
                if rel in self.overrides:
                    source = self.overrides[rel]
                else:
                    with open(path, encoding="utf-8") as fh:
                        source = fh.read()
                try:
                    tree = ast.parse(source, filename=path)
                except SyntaxError as e:
                    raise AnalysisError(f"cannot parse {rel}: {e}")
                if self.strip_logging:
                    _strip_logging(tree)
                parsed.append((modname, path, rel, source, tree, is_pkg))
        if self.inline_helpers:
            _expand_dispatch_tables([t[4] for t in parsed])
            _hoist_helper_calls([t[4] for t in parsed])
            _flatten_mixins([t[4] for t in parsed])
            _inline_helpers([t[4] for t in parsed])
            _inline_module_helpers([t[4] for t in parsed])
            _inline_expression_helpers([t[4] for t in parsed])
            _inline_index_properties([t[4] for t in parsed])
            _inline_local_closures([t[4] for t in parsed])
            _inline_helpers([t[4] for t in parsed])
            _inline_module_helpers([t[4] for t in parsed])
            _unroll_record_objects([t[4] for t in parsed])
            _inline_helpers([t[4] for t in parsed])
        for modname, path, rel, source, tree, is_pkg in parsed:
            _normalise_syntax(tree)
            if self.propagate_aliases:
                _propagate_aliases(tree)
            if self.inline_temps:
                _inline_temps(tree)
                if os.environ.get("SA_NO_PURE_TEMPS") != "1":
                    _propagate_pure_temps(tree)
                    _normalise_syntax(tree)
            _renumber(tree)
            m = ModuleInfo(modname, path, rel, source, tree, is_pkg)
            self.modules[modname] = m
            self._index_module(m)
        if len(self.modules) < FLOOR_MODULES:
            raise AnalysisError(
                f"only {len(self.modules)} modules parsed (floor {FLOOR_MODULES})"
            )
        if len(self.classes) < FLOOR_CLASSES:
            raise AnalysisError(
                f"only {len(self.classes)} classes found (floor {FLOOR_CLASSES})"
            )
        if len(self.all_functions) < FLOOR_FUNCTIONS:
            raise AnalysisError(
                f"only {len(self.all_functions)} functions found "
                f"(floor {FLOOR_FUNCTIONS})"
            )

    def _abs_module(self, m: ModuleInfo, level: int, module: Optional[str]):
        if level == 0:
            return module or ""
        parts = m.name.split(".")
        if not m.is_pkg:
            parts = parts[:-1]
        if level > 1:
            parts = parts[: len(parts) - (level - 1)]
        base = ".".join(parts)
        if module:
            return f"{base}.{module}" if base else module
        return base

    def _index_imports(self, m: ModuleInfo, body: Iterable[ast.stmt]):
        for node in body:
            if isinstance(node, ast.Import):
                for a in node.names:
                    local = a.asname or a.name.split(".")[0]
                    target = a.name if a.asname else a.name.split(".")[0]
                    m.imports[local] = (target, None)
            elif isinstance(node, ast.ImportFrom):
                mod = self._abs_module(m, node.level, node.module)
                for a in node.names:
                    m.imports[a.asname or a.name] = (mod, a.name)
            elif isinstance(node, (ast.Try, ast.If)):
                for blk in (
                    node.body,
                    getattr(node, "orelse", []),
                    getattr(node, "finalbody", []),
                ):
                    self._index_imports(m, blk)
                for h in getattr(node, "handlers", []):
                    self._index_imports(m, h.body)

    def _index_function(self, m, cls, node, parent=None) -> FunctionInfo:
        fi = FunctionInfo(m, cls, node.name, node, parent, _decorator_names(node))
        self.all_functions.append(fi)
        self.functions[fi.qual] = fi
        for sub in _direct_nested_defs(node):
            self._index_function(m, cls, sub, parent=fi)
        return fi

    def _index_module(self, m: ModuleInfo):
        self._index_imports(m, m.tree.body)
        # function-level imports are also recorded (later entries never
        # overwrite module-level ones)
        for node in ast.walk(m.tree):
            if isinstance(node, (ast.FunctionDef,)):
                saved = dict(m.imports)
                self._index_imports(m, [n for n in ast.walk(node) if isinstance(n, (ast.Import, ast.ImportFrom))])
                for k, v in saved.items():
                    m.imports[k] = v
        for node in m.tree.body:
            if isinstance(node, ast.FunctionDef):
                fi = self._index_function(m, None, node)
                m.functions[node.name] = fi
            elif isinstance(node, ast.ClassDef):
                ci = ClassInfo(m, node.name, node)
                ci.base_exprs = [src(b) for b in node.bases]
                ci.is_dataclass = any(
                    d.endswith("dataclass") for d in _decorator_names(node)
                )
                m.classes[node.name] = ci
                self.classes[ci.qual] = ci
                for sub in node.body:
                    if isinstance(sub, ast.FunctionDef):
                        fi = FunctionInfo(
                            m, ci, sub.name, sub, None, _decorator_names(sub)
                        )
                        if fi.is_setter:
                            ci.setters[sub.name] = fi
                            self.all_functions.append(fi)
                            self.functions[fi.qual + ".setter"] = fi
                            continue
                        if any(d.endswith(".deleter") for d in fi.decorators):
                            self.all_functions.append(fi)
                            continue
                        fi = self._index_function(m, ci, sub)
                        ci.methods[sub.name] = fi
                    elif isinstance(sub, ast.Assign):
                        for t in sub.targets:
                            if isinstance(t, ast.Name):
                                ci.class_attrs[t.id] = sub.value
                    elif isinstance(sub, ast.AnnAssign) and isinstance(
                        sub.target, ast.Name
                    ):
                        ci.class_attrs[sub.target.id] = sub.value or sub.annotation
            elif isinstance(node, ast.Assign):
                for t in node.targets:
                    if isinstance(t, ast.Name):
                        m.globals[t.id] = node.value
            elif isinstance(node, ast.AnnAssign) and isinstance(node.target, ast.Name):
                m.globals[node.target.id] = node.value

    # ------------------------------------------------------------------
    def _link(self):
        for ci in self.classes.values():
            for b in ci.node.bases:
                r = self.resolve_expr(ci.module, b)
                if r and r[0] == "class":
                    ci.bases.append(r[1])
                else:
                    ci.ext_bases.append(src(b))

    def resolve_name(self, m: ModuleInfo, name: str, _depth=0):
        """Resolve a module-level name to ('class'|'func'|'module'|'global'|'ext', obj)."""
        if _depth > 8:
            return None
        if name in m.classes:
            return ("class", m.classes[name])
        if name in m.functions:
            return ("func", m.functions[name])
        if name in m.imports:
            mod, attr = m.imports[name]
            if attr is None:
                if mod in self.modules:
                    return ("module", self.modules[mod])
                return ("ext", mod)
            # from mod import attr
            if mod in self.modules:
                sub = f"{mod}.{attr}"
                tm = self.modules[mod]
                r = self.resolve_name(tm, attr, _depth + 1)
                if r:
                    return r
                if sub in self.modules:
                    return ("module", self.modules[sub])
                return None
            sub = f"{mod}.{attr}" if mod else attr
            if sub in self.modules:
                return ("module", self.modules[sub])
            return ("ext", sub)
        if name in m.globals:
            return ("global", (m, name, m.globals[name]))
        return None

    def resolve_expr(self, m: ModuleInfo, node):
        """Resolve Name / dotted attribute at module scope."""
        if isinstance(node, ast.Name):
            return self.resolve_name(m, node.id)
        if isinstance(node, ast.Attribute):
            base = self.resolve_expr(m, node.value)
            if not base:
                return None
            kind, obj = base
            if kind == "module":
                r = self.resolve_name(obj, node.attr)
                if r:
                    return r
                sub = f"{obj.name}.{node.attr}"
                if sub in self.modules:
                    return ("module", self.modules[sub])
                return None
            if kind == "ext":
                return ("ext", f"{obj}.{node.attr}")
            if kind == "class":
                f = self.find_method(obj, node.attr)
                if f:
                    return ("func", f)
                return None
        return None

    # ------------------------------------------------------------------
    def mro(self, c: ClassInfo) -> List[ClassInfo]:
        if c in self._mro_cache:
            return self._mro_cache[c]

        def merge(seqs):
            res = []
            seqs = [list(s) for s in seqs if s]
            while seqs:
                for s in seqs:
                    cand = s[0]
                    if not any(cand in t[1:] for t in seqs):
                        break
                else:
                    raise AnalysisError(f"inconsistent MRO for {c.qual}")
                res.append(cand)
                seqs = [[x for x in s if x is not cand] for s in seqs]
                seqs = [s for s in seqs if s]
            return res

        out = [c] + merge([self.mro(b) for b in c.bases] + [list(c.bases)])
        self._mro_cache[c] = out
        return out

    def find_method(self, c: ClassInfo, name: str, after: Optional[ClassInfo] = None):
        mro = self.mro(c)
        if after is not None:
            mro = mro[mro.index(after) + 1 :] if after in mro else []
        for k in mro:
            if name in k.methods:
                return k.methods[name]
        return None

    def find_setter(self, c: ClassInfo, name: str):
        for k in self.mro(c):
            if name in k.setters:
                return k.setters[name]
        return None

    def subclasses(self, c: ClassInfo, strict=True) -> List[ClassInfo]:
        out = []
        for k in self.classes.values():
            if c in self.mro(k) and (k is not c or not strict):
                out.append(k)
        return out

    def has_external_base(self, c: ClassInfo) -> bool:
        return any(
            b not in ("object", "ABC", "abc.ABC")
            for k in self.mro(c)
            for b in k.ext_bases
        )

    def cls(self, qual: str) -> ClassInfo:
        if qual not in self.classes:
            raise AnalysisError(f"anchor class vanished: {qual}")
        return self.classes[qual]

    def fn(self, qual: str) -> FunctionInfo:
        """`module:Class.method` or `module:function`; methods resolve through the MRO."""
        if qual in self.functions:
            return self.functions[qual]
        mod, _, rest = qual.partition(":")
        if "." in rest:
            cname, mname = rest.split(".", 1)
            c = self.classes.get(f"{mod}:{cname}")
            if c is not None:
                f = self.find_method(c, mname)
                if f is not None:
                    return f
        raise AnalysisError(f"anchor function vanished: {qual}")

    def own_fn(self, qual: str) -> FunctionInfo:
        if qual in self.functions:
            return self.functions[qual]
        raise AnalysisError(f"anchor function vanished: {qual}")

    def module(self, name: str) -> ModuleInfo:
        if name not in self.modules:
            raise AnalysisError(f"anchor module vanished: {name}")
        return self.modules[name]

    # ------------------------------------------------------------------
    # attribute definitions
    def own_attr_defs(self, c: ClassInfo) -> Dict[str, List[str]]:
        """name -> list of 'how defined' for attributes defined by this class itself."""
        if c in self._attr_cache:
            return self._attr_cache[c]
        d: Dict[str, List[str]] = {}

        def add(n, how):
            d.setdefault(n, []).append(how)

        for n in c.class_attrs:
            add(n, "class-level")
        for n, f in c.methods.items():
            add(n, "property" if f.is_property else "method")
        for n in c.setters:
            add(n, "property-setter")
        fns = list(c.methods.values()) + list(c.setters.values())
        for f in fns:
            args = f.node.args.posonlyargs + f.node.args.args
            selfname = args[0].arg if args and not f.is_static else None
            for node in ast.walk(f.node):
                # self.X = ... / self.X += / for self.X in / with as self.X
                if (
                    isinstance(node, ast.Attribute)
                    and isinstance(node.ctx, ast.Store)
                    and isinstance(node.value, ast.Name)
                    and node.value.id == selfname
                ):
                    add(node.attr, f"store in {f.short}")
                # setattr(self, "name", ...)
                if (
                    isinstance(node, ast.Call)
                    and isinstance(node.func, ast.Name)
                    and node.func.id == "setattr"
                    and len(node.args) >= 2
                    and isinstance(node.args[0], ast.Name)
                    and node.args[0].id == selfname
                ):
                    if isinstance(node.args[1], ast.Constant) and isinstance(
                        node.args[1].value, str
                    ):
                        add(node.args[1].value, f"setattr in {f.short}")
                    else:
                        add("*", f"dynamic setattr in {f.short}")
                # self.__dict__.update / self.__dict__ = state
                if (
                    isinstance(node, ast.Attribute)
                    and node.attr == "__dict__"
                    and isinstance(node.value, ast.Name)
                    and node.value.id == selfname
                ):
                    pass
            # keys written into the dict returned by __getstate__
            if f.name == "__getstate__":
                for node in ast.walk(f.node):
                    if isinstance(node, ast.Subscript) and isinstance(
                        node.ctx, ast.Store
                    ):
                        k = node.slice
                        if isinstance(k, ast.Constant) and isinstance(k.value, str):
                            add(k.value, "pickle key in __getstate__")
        self._attr_cache[c] = d
        return d

    def attr_defs(self, c: ClassInfo) -> Dict[str, List[str]]:
        out: Dict[str, List[str]] = {}
        for k in self.mro(c):
            for n, hows in self.own_attr_defs(k).items():
                out.setdefault(n, []).extend(f"{k.name}: {h}" for h in hows)
        return out

    # ------------------------------------------------------------------
    def functions_in(self, *modules: str) -> List[FunctionInfo]:
        return [f for f in self.all_functions if f.module.name in modules]

    def stats(self) -> dict:
        return {
            "modules": len(self.modules),
            "classes": len(self.classes),
            "functions": len(self.all_functions),
        }
