"""Expression canonicaliser (syntactic algebra, no solver): strips module
prefixes, folds integral floats, alpha-renames through a role map, inlines
single-assignment locals, pulls unary minus outwards, sorts the arguments of
commutative functions; `linform` gives an order-insensitive linear form over
canonical atoms."""

import ast
import copy
from fractions import Fraction

from .lin import linear

COMMUTATIVE = {"logaddexp", "maximum", "minimum", "max", "min"}
MODULE_PREFIXES = {"np", "numpy", "math", "torch", "scipy", "special"}


SIGNATURES = {}
# leading parameters of the numpy / scipy functions the package calls with keywords now and then
NUMPY_SIGNATURES = {
    "ndarray": ["shape", "dtype", "buffer", "offset", "strides"],
    "insert": ["arr", "obj", "values", "axis"],
    "delete": ["arr", "obj", "axis"],
    "searchsorted": ["a", "v", "side", "sorter"],
    "isin": ["element", "test_elements"],
    "array_split": ["ary", "indices_or_sections", "axis"],
    "logsumexp": ["a"],
    "sum": ["a"],
    "argmax": ["a"],
    "where": ["condition"],
    "flatnonzero": ["a"],
    "concatenate": ["arrays"],
    "append": ["arr", "values"],
    "logaddexp": ["x1", "x2"],
    "permutation": ["x"],
}


def set_signatures(prog):
    """Positional parameter names of every package function / method whose name is defined exactly once in the
    package and is not also a builtin / numpy / container-method name (used by the call normal form above)."""
    import builtins

    taken = set(dir(builtins)) | set(dir(dict)) | set(dir(list)) | set(dir(str)) | set(dir(set))
    try:
        import numpy

        taken |= set(dir(numpy)) | set(dir(numpy.ndarray))
    except Exception:
        pass
    by_name = {}
    for f in prog.all_functions:
        by_name.setdefault(f.name, []).append(f)
    sig = {}
    for n, fs in by_name.items():
        if len(fs) != 1 or n in taken or n.startswith("__"):
            continue
        a = fs[0].node.args
        if a.vararg or a.posonlyargs:
            continue
        names = [x.arg for x in a.args]
        if fs[0].cls is not None and names and names[0] in ("self", "cls"):
            names = names[1:]
        sig[n] = names
    SIGNATURES.clear()
    SIGNATURES.update(sig)
    try:
        from . import pat

        pat._cache.clear()
    except Exception:
        pass


class _Canon(ast.NodeTransformer):
    def __init__(self, rename=None, inline=None):
        self.rename = rename or {}
        self.inline = inline or {}
        self._depth = 0

    def visit_Attribute(self, node):
        self.generic_visit(node)
        # pandas: df.dtypes.index is df.columns
        if node.attr == "index" and isinstance(node.value, ast.Attribute) and node.value.attr == "dtypes":
            return ast.Attribute(value=node.value.value, attr="columns", ctx=node.ctx)
        if isinstance(node.value, ast.Name) and node.value.id in MODULE_PREFIXES:
            return ast.copy_location(ast.Name(id=node.attr, ctx=ast.Load()), node)
        full = ast.unparse(node)
        if full in self.rename:
            return ast.Name(id=self.rename[full], ctx=ast.Load())
        return node

    def visit_Name(self, node):
        if node.id in self.inline and self._depth < 12:
            self._depth += 1
            r = self.visit(copy.deepcopy(self.inline[node.id]))
            self._depth -= 1
            return r
        if node.id in self.rename:
            return ast.Name(id=self.rename[node.id], ctx=ast.Load())
        return node

    def visit_Constant(self, node):
        if isinstance(node.value, float) and node.value == int(node.value) and abs(node.value) < 1e15:
            return ast.Constant(int(node.value))
        return node

    def visit_Call(self, node):
        self.generic_visit(node)
        f = node.func
        name = f.id if isinstance(f, ast.Name) else None
        # one spelling per call of a package function whose name is unique: leading keyword arguments that continue
        # the positional ones become positional (`f(x, chunksize=c)` == `f(x, c)`)
        callee = name or (f.attr if isinstance(f, ast.Attribute) else None)
        sig = SIGNATURES.get(callee) or (NUMPY_SIGNATURES.get(callee) if (name is not None or (isinstance(f, ast.Attribute) and isinstance(f.value, ast.Name) and f.value.id in ("np", "numpy"))) else None)
        if sig and node.keywords and all(k.arg for k in node.keywords) and not any(isinstance(a_, ast.Starred) for a_ in node.args):
            kws = {k.arg: k.value for k in node.keywords}
            args = list(node.args)
            while len(args) < len(sig) and sig[len(args)] in kws:
                args.append(kws.pop(sig[len(args)]))
            node.args = args
            node.keywords = [k for k in node.keywords if k.arg in kws]
        if name in ("float",) and len(node.args) == 1 and not node.keywords:
            return node.args[0]
        # one spelling for 1-d joins: array(A + [x]) == append(A, x) == concatenate([A, [x]]);
        # inside a concatenate, array([x]) == [x] and the container may be a tuple
        if name == "array" and len(node.args) == 1 and not node.keywords and isinstance(node.args[0], ast.BinOp) and isinstance(node.args[0].op, ast.Add) and isinstance(node.args[0].right, ast.List):
            node = ast.Call(func=ast.Name(id="concatenate", ctx=ast.Load()), args=[ast.List(elts=[node.args[0].left, node.args[0].right], ctx=ast.Load())], keywords=[])
            f, name = node.func, "concatenate"
        if name == "append" and len(node.args) == 2 and all(k.arg == "axis" for k in node.keywords):
            node = ast.Call(func=ast.Name(id="concatenate", ctx=ast.Load()), args=[ast.List(elts=[node.args[0], node.args[1]], ctx=ast.Load())], keywords=[k for k in node.keywords if not (isinstance(k.value, ast.Constant) and k.value.value == 0)])
            f, name = node.func, "concatenate"
        if name == "concatenate" and node.args and isinstance(node.args[0], (ast.List, ast.Tuple)):
            # pieces: array([x]) == [x] == x (a one-element piece is the element), axis=0 is the default
            elts = []
            for e_ in node.args[0].elts:
                if isinstance(e_, ast.Call) and isinstance(e_.func, ast.Name) and e_.func.id == "array" and len(e_.args) == 1 and not e_.keywords and isinstance(e_.args[0], ast.List):
                    e_ = e_.args[0]
                if isinstance(e_, ast.List) and len(e_.elts) == 1:
                    e_ = e_.elts[0]
                elts.append(e_)
            node.args = [ast.List(elts=elts, ctx=ast.Load())] + node.args[1:]
            node.keywords = [k for k in node.keywords if not (k.arg == "axis" and isinstance(k.value, ast.Constant) and k.value.value == 0)]
        # x.sum() == sum(x) (np.sum) and the other argument-free reductions: one spelling
        if isinstance(f, ast.Attribute) and f.attr in ("sum", "argmax", "argmin", "any", "all", "cumsum", "mean", "prod") and not node.args and not node.keywords and not (isinstance(f.value, ast.Name) and f.value.id in ("np", "numpy", "torch", "math")):
            return ast.Call(func=ast.Name(id=f.attr, ctx=ast.Load()), args=[f.value], keywords=[])
        # x.flatten() == x.ravel() == ravel(x) (same values, 1-d)
        if isinstance(f, ast.Attribute) and f.attr in ("flatten", "ravel") and not node.args and not node.keywords and not (isinstance(f.value, ast.Name) and f.value.id in ("np", "numpy")):
            return ast.Call(func=ast.Name(id="ravel", ctx=ast.Load()), args=[f.value], keywords=[])
        # split(x, <sequence of indices>) == array_split(x, <the same sequence>)
        if name == "split" and len(node.args) == 2 and not node.keywords and (isinstance(node.args[1], (ast.List, ast.Tuple)) or (isinstance(node.args[1], ast.Call) and isinstance(node.args[1].func, ast.Name) and node.args[1].func.id in ("range", "arange"))) and not isinstance(f, ast.Attribute) or (name == "split" and isinstance(f, ast.Name) and len(node.args) == 2 and isinstance(node.args[1], ast.Call) and isinstance(node.args[1].func, ast.Name) and node.args[1].func.id in ("range", "arange")):
            node.func = ast.Name(id="array_split", ctx=ast.Load())
            return node
        # delete(x, s_[:n]) == x[n:]
        if name == "delete" and len(node.args) == 2 and not node.keywords and isinstance(node.args[1], ast.Subscript) and isinstance(node.args[1].value, ast.Name) and node.args[1].value.id == "s_" and isinstance(node.args[1].slice, ast.Slice) and node.args[1].slice.lower is None and node.args[1].slice.step is None and node.args[1].slice.upper is not None:
            return ast.Subscript(value=node.args[0], slice=ast.Slice(lower=node.args[1].slice.upper, upper=None, step=None), ctx=ast.Load())
        # isin(a, b, invert=True) == ~isin(a, b)
        if name == "isin" and any(k.arg == "invert" and isinstance(k.value, ast.Constant) and k.value.value is True for k in node.keywords):
            node.keywords = [k for k in node.keywords if k.arg != "invert"]
            return ast.UnaryOp(op=ast.Invert(), operand=node)
        # value-level identities: a copy of x has the value of x (aliasing rules read the raw tree, not this form)
        if isinstance(f, ast.Attribute) and f.attr == "copy" and not node.args and not node.keywords:
            return f.value
        if name in ("copy", "asarray", "asanyarray") and len(node.args) == 1 and not node.keywords:
            return node.args[0]
        # reciprocal(x) == 1 / x (value-level; the integer-division hazard of np.reciprocal is a rule of its own, C02.8)
        if name == "reciprocal" and len(node.args) == 1 and all(k.arg == "dtype" for k in node.keywords):
            return ast.BinOp(left=ast.Constant(value=1), op=ast.Div(), right=node.args[0])
        # expand_dims(a, axis=1) / expand_dims(a, 1) == a[:, newaxis]
        if name == "expand_dims" and len(node.args) >= 1 and ((len(node.args) == 2 and isinstance(node.args[1], ast.Constant) and node.args[1].value == 1 and not node.keywords) or (len(node.args) == 1 and len(node.keywords) == 1 and node.keywords[0].arg == "axis" and isinstance(node.keywords[0].value, ast.Constant) and node.keywords[0].value.value == 1)):
            return ast.Subscript(value=node.args[0], slice=ast.Tuple(elts=[ast.Slice(), ast.Name(id="newaxis", ctx=ast.Load())], ctx=ast.Load()), ctx=ast.Load())
        # count_nonzero(<comparison>) == sum(<comparison>) (a boolean mask)
        if name == "count_nonzero" and len(node.args) == 1 and not node.keywords and isinstance(node.args[0], (ast.Compare, ast.BoolOp)) or (name == "count_nonzero" and len(node.args) == 1 and not node.keywords and isinstance(node.args[0], ast.UnaryOp) and isinstance(node.args[0].op, (ast.Invert, ast.Not))):
            return ast.Call(func=ast.Name(id="sum", ctx=ast.Load()), args=node.args, keywords=[])
        if name in COMMUTATIVE and not node.keywords:
            node.args = sorted(node.args, key=ast.unparse)
        if name in ("arange", "zeros", "ones", "empty", "linspace", "full"):
            node.keywords = [k for k in node.keywords if k.arg != "dtype"]
        return node

    def visit_Subscript(self, node):
        self.generic_visit(node)
        v, sl = node.value, node.slice
        # where(mask)[0] == flatnonzero(mask) (one-dimensional masks)
        if isinstance(sl, ast.Constant) and sl.value == 0 and isinstance(v, ast.Call) and isinstance(v.func, ast.Name) and v.func.id == "where" and len(v.args) == 1 and not v.keywords:
            return ast.Call(func=ast.Name(id="flatnonzero", ctx=ast.Load()), args=v.args, keywords=[])
        # a field and a row of a structured array commute: x[i]['f'] == x['f'][i] (field first)
        if isinstance(sl, ast.Constant) and isinstance(sl.value, str) and isinstance(v, ast.Subscript) and isinstance(v.value, (ast.Name, ast.Attribute)) and not isinstance(v.slice, (ast.Tuple, ast.List)) and not (isinstance(v.slice, ast.Constant) and isinstance(v.slice.value, str)):
            return ast.Subscript(value=ast.Subscript(value=v.value, slice=sl, ctx=ast.Load()), slice=v.slice, ctx=node.ctx)
        # a[:len(a)] == a[:a.size] == a (one-dimensional)
        if isinstance(sl, ast.Slice) and sl.lower is None and sl.step is None and sl.upper is not None and isinstance(v, (ast.Name, ast.Attribute)):
            up = sl.upper
            vt = ast.unparse(v)
            if (isinstance(up, ast.Call) and isinstance(up.func, ast.Name) and up.func.id == "len" and len(up.args) == 1 and ast.unparse(up.args[0]) == vt) or (isinstance(up, ast.Attribute) and up.attr == "size" and ast.unparse(up.value) == vt):
                return v
        # arange(N)[:n] == arange(n) and arange(N)[n:] == arange(n, N)
        if isinstance(v, ast.Call) and isinstance(v.func, ast.Name) and v.func.id == "arange" and len(v.args) == 1 and not v.keywords and isinstance(sl, ast.Slice) and sl.step is None:
            if sl.lower is None and sl.upper is not None:
                return ast.Call(func=v.func, args=[sl.upper], keywords=[])
            if sl.upper is None and sl.lower is not None:
                return ast.Call(func=v.func, args=[sl.lower, v.args[0]], keywords=[])
        return node

    def visit_Tuple(self, node):
        self.generic_visit(node)
        # (*a, *()) == (*a,) ; (*a,) == tuple(a)
        if isinstance(node.ctx, ast.Load) and any(isinstance(e, ast.Starred) for e in node.elts):
            elts = [e for e in node.elts if not (isinstance(e, ast.Starred) and ((isinstance(e.value, ast.Tuple) and not e.value.elts) or (isinstance(e.value, ast.Call) and isinstance(e.value.func, ast.Name) and e.value.func.id == "tuple" and not e.value.args)))]
            if len(elts) == 1 and isinstance(elts[0], ast.Starred):
                return ast.Call(func=ast.Name(id="tuple", ctx=ast.Load()), args=[elts[0].value], keywords=[])
            node.elts = elts
        return node

    def visit_ListComp(self, node):
        self.generic_visit(node)
        # [f(v) for v in X] == list(map(f, X))
        if len(node.generators) == 1 and not node.generators[0].ifs and isinstance(node.generators[0].target, ast.Name) and isinstance(node.elt, ast.Call) and len(node.elt.args) == 1 and not node.elt.keywords \
                and isinstance(node.elt.args[0], ast.Name) and node.elt.args[0].id == node.generators[0].target.id and not any(isinstance(x, ast.Name) and x.id == node.generators[0].target.id for x in ast.walk(node.elt.func)):
            return ast.Call(func=ast.Name(id="list", ctx=ast.Load()), args=[ast.Call(func=ast.Name(id="map", ctx=ast.Load()), args=[node.elt.func, node.generators[0].iter], keywords=[])], keywords=[])
        return node

    def visit_JoinedStr(self, node):
        self.generic_visit(node)
        # f"{a}{b}/" == a + b + "/" for string pieces (no conversion, no format spec)
        parts = []
        for v in node.values:
            if isinstance(v, ast.Constant):
                parts.append(v)
            elif isinstance(v, ast.FormattedValue) and v.conversion == -1 and v.format_spec is None:
                parts.append(v.value)
            else:
                return node
        if len(parts) < 2:
            return node
        out = parts[0]
        for p_ in parts[1:]:
            out = ast.BinOp(out, ast.Add(), p_)
        return out

    def visit_Compare(self, node):
        self.generic_visit(node)
        # b > a  ->  a < b ;  b >= a  ->  a <= b   (one normal form per ordering test)
        if len(node.ops) == 1 and isinstance(node.ops[0], (ast.Gt, ast.GtE)):
            op = ast.Lt() if isinstance(node.ops[0], ast.Gt) else ast.LtE()
            return ast.Compare(left=node.comparators[0], ops=[op], comparators=[node.left])
        return node

    def visit_If(self, node):
        self.generic_visit(node)
        # one polarity per two-armed test: `if not c: B else: A` == `if c: A else: B`; likewise
        # is not / != / not in / <= are rewritten to is / == / in / < with the arms swapped
        if node.orelse:
            t = node.test
            neg = None
            if isinstance(t, ast.UnaryOp) and isinstance(t.op, ast.Not):
                neg = t.operand
            elif isinstance(t, ast.Compare) and len(t.ops) == 1:
                op = t.ops[0]
                if isinstance(op, ast.IsNot):
                    neg = ast.Compare(t.left, [ast.Is()], t.comparators)
                elif isinstance(op, ast.NotEq):
                    neg = ast.Compare(t.left, [ast.Eq()], t.comparators)
                elif isinstance(op, ast.NotIn):
                    neg = ast.Compare(t.left, [ast.In()], t.comparators)
                elif isinstance(op, ast.LtE):
                    neg = ast.Compare(t.comparators[0], [ast.Lt()], [t.left])
            if neg is not None:
                node.test, node.body, node.orelse = neg, node.orelse, node.body
                return self.visit_If(node) if isinstance(neg, ast.UnaryOp) and isinstance(neg.op, ast.Not) else node
        return node

    def visit_BinOp(self, node):
        self.generic_visit(node)
        # (-a) / b, (-a) * b, a * (-b)  ->  -(a op b)
        if isinstance(node.op, (ast.Div, ast.Mult)):
            neg = False
            l, r = node.left, node.right
            if isinstance(l, ast.UnaryOp) and isinstance(l.op, ast.USub):
                l, neg = l.operand, not neg
            if isinstance(l, ast.Constant) and isinstance(l.value, (int, float)) and l.value < 0:
                l, neg = ast.Constant(-l.value), not neg
            if isinstance(r, ast.UnaryOp) and isinstance(r.op, ast.USub):
                r, neg = r.operand, not neg
            node = ast.BinOp(l, node.op, r)
            if neg:
                return ast.UnaryOp(ast.USub(), node)
        return node


def canon_node(expr, rename=None, inline=None):
    t = _Canon(rename, inline).visit(copy.deepcopy(expr))
    return ast.fix_missing_locations(t)


def canon(expr, rename=None, inline=None) -> str:
    return ast.unparse(canon_node(expr, rename, inline))


def cexpr(text: str, rename=None) -> str:
    """Canonical text of an expression given as source (for expectations written the way the repository writes them)."""
    return canon(ast.parse(text, mode="eval").body, rename=rename)


def linform(expr, rename=None, inline=None):
    """{canonical atom text: Fraction} for a sum/difference of terms."""
    t = canon_node(expr, rename, inline)
    return linear(t, atom=lambda n: ast.unparse(n))


_LOG_LEVELS = ("debug", "info", "warning", "warn", "error", "critical", "exception", "log")


def is_noise(st):
    """A statement with no effect on any property: a module-logger call, `pass`, a bare string."""
    if isinstance(st, ast.Pass):
        return True
    if isinstance(st, ast.Expr):
        v = st.value
        if isinstance(v, ast.Constant) and isinstance(v.value, str):
            return True
        if isinstance(v, ast.Call) and isinstance(v.func, ast.Attribute) and v.func.attr in _LOG_LEVELS and isinstance(v.func.value, ast.Name) and v.func.value.id in ("logger", "logging"):
            return True
    return False


def strip_noise(stmts):
    return [s for s in stmts if not is_noise(s)]


def single_assignments(fnode, allow_mutated=False):
    """name -> value for locals assigned exactly once by a plain `name = expr`
    (never augmented / re-bound, and - unless allow_mutated - never mutated in place)."""
    mutated = set()
    counts = {}
    vals = {}
    a = fnode.args
    for arg in a.posonlyargs + a.args + a.kwonlyargs:
        counts[arg.arg] = 2  # parameters are never inlined
    for n in ast.walk(fnode):
        if isinstance(n, ast.Assign):
            for t in n.targets:
                for x in ast.walk(t):
                    if isinstance(x, ast.Name) and isinstance(x.ctx, ast.Store):
                        counts[x.id] = counts.get(x.id, 0) + 1
                        if len(n.targets) == 1 and isinstance(n.targets[0], ast.Name):
                            vals[x.id] = n.value
        elif isinstance(n, (ast.AugAssign, ast.AnnAssign)) and isinstance(n.target, ast.Name):
            counts[n.target.id] = counts.get(n.target.id, 0) + 2
        elif isinstance(n, (ast.For, ast.comprehension)):
            for x in ast.walk(n.target):
                if isinstance(x, ast.Name):
                    counts[x.id] = counts.get(x.id, 0) + 2
        # mutated in place: element / slice stores, mutating method calls
        if isinstance(n, ast.Subscript) and isinstance(n.ctx, (ast.Store, ast.Del)):
            b = n.value
            while isinstance(b, ast.Subscript):
                b = b.value
            if isinstance(b, ast.Name):
                mutated.add(b.id)
        if isinstance(n, ast.Call) and isinstance(n.func, ast.Attribute) and n.func.attr in ("append", "extend", "insert", "pop", "sort", "update", "fill") and isinstance(n.func.value, ast.Name):
            mutated.add(n.func.value.id)
    out = {k: v for k, v in vals.items() if counts.get(k) == 1 and (allow_mutated or k not in mutated)}
    # a local with two bindings, one of which only reads back a cache this function fills with that very local
    # (`w = getattr(self, "_w", None)` / `w = self._w` ... `w = <computation>; self._w = w`), denotes the computation
    for k, c in counts.items():
        if c != 2 or k in out or (k in mutated and not allow_mutated):
            continue
        defs = [n for n in ast.walk(fnode) if isinstance(n, ast.Assign) and len(n.targets) == 1 and isinstance(n.targets[0], ast.Name) and n.targets[0].id == k]
        if len(defs) != 2:
            continue
        kept = {t.attr for n in ast.walk(fnode) if isinstance(n, ast.Assign) and isinstance(n.value, ast.Name) and n.value.id == k for t in n.targets if isinstance(t, ast.Attribute) and isinstance(t.value, ast.Name) and t.value.id == "self"}

        def cache_read(v):
            if isinstance(v, ast.Attribute) and isinstance(v.value, ast.Name) and v.value.id == "self":
                return v.attr
            if isinstance(v, ast.Call) and isinstance(v.func, ast.Name) and v.func.id == "getattr" and len(v.args) >= 2 and isinstance(v.args[0], ast.Name) and v.args[0].id == "self" and isinstance(v.args[1], ast.Constant):
                return v.args[1].value
            return None

        reads = [d for d in defs if cache_read(d.value) in kept]
        if len(reads) == 1:
            out[k] = next(d for d in defs if d is not reads[0]).value
    return out
