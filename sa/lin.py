"""Linear forms  sum c_i * atom_i  over syntactic atoms (syntactic algebra:
no path conditions, no solver).  The constant term lives under atom '1'."""

import ast
from fractions import Fraction
from typing import Dict

from .pm import src

Lin = Dict[str, Fraction]


def _clean(d: Lin) -> Lin:
    return {k: v for k, v in d.items() if v != 0}


def lin_add(a: Lin, b: Lin, sign=1) -> Lin:
    out = dict(a)
    for k, v in b.items():
        out[k] = out.get(k, 0) + sign * v
    return _clean(out)


def lin_sub(a: Lin, b: Lin) -> Lin:
    return lin_add(a, b, -1)


def lin_scale(a: Lin, c) -> Lin:
    return _clean({k: v * c for k, v in a.items()})


def lin_const(a: Lin):
    if all(k == "1" for k in a):
        return a.get("1", Fraction(0))
    return None


def lin_eq(a, b) -> bool:
    if a is None or b is None:
        return False
    a = _clean({k: Fraction(v) for k, v in a.items()})
    b = _clean({k: Fraction(v) for k, v in b.items()})
    return a == b


def linear(node, atom=None) -> Lin:
    """Linear form of an expression; non-linear sub-expressions become opaque
    atoms named by their normalised source (or by atom(node) if given)."""
    if isinstance(node, ast.Constant) and isinstance(node.value, (int, float)) and not isinstance(node.value, bool):
        return _clean({"1": Fraction(node.value)})
    if isinstance(node, ast.UnaryOp) and isinstance(node.op, ast.USub):
        return lin_scale(linear(node.operand, atom), -1)
    if isinstance(node, ast.UnaryOp) and isinstance(node.op, ast.UAdd):
        return linear(node.operand, atom)
    if isinstance(node, ast.BinOp):
        if isinstance(node.op, ast.Add):
            return lin_add(linear(node.left, atom), linear(node.right, atom))
        if isinstance(node.op, ast.Sub):
            return lin_sub(linear(node.left, atom), linear(node.right, atom))
        if isinstance(node.op, ast.Mult):
            l, r = linear(node.left, atom), linear(node.right, atom)
            cl, cr = lin_const(l), lin_const(r)
            if cl is not None:
                return lin_scale(r, cl)
            if cr is not None:
                return lin_scale(l, cr)
        if isinstance(node.op, ast.Div):
            l, r = linear(node.left, atom), linear(node.right, atom)
            cr = lin_const(r)
            if cr is not None and cr != 0:
                return lin_scale(l, 1 / cr)
    name = atom(node) if atom else None
    if name is None:
        name = src(node)
    return {name: Fraction(1)}


def fmt(a: Lin) -> str:
    if not a:
        return "0"
    return " + ".join(f"{v}*{k}" if k != "1" else str(v) for k, v in sorted(a.items()))
