"""One module per property: run(ctx) enumerates obligations from the source."""
import os

ALL = sorted(
    f[:-3] for f in os.listdir(os.path.dirname(__file__)) if f.startswith("C") and f.endswith(".py")
)
