"""One module per property: run(ctx) enumerates obligations from the source."""
import os
import re

ALL = sorted(
    f[:-3] for f in os.listdir(os.path.dirname(__file__)) if re.fullmatch(r"C\d{2,3}\.py", f)
)
