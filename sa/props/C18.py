"""C18 - live-point conversions preserve names, order, values and defaults."""

import ast

from .. import tables
from ..canon import canon, single_assignments
from ..pm import src
from ..q import FA, call_name, guard_facts, is_self_attr, walk_no_nested, const, stored_value, store_target
from ..pat import find_stmt, find_expr, match_stmt, match_expr

TECHNIQUE = "R-SIB on the parallel core-field tables, R-ORDER on registry co-update, R-WRITERS set equality between lazily cached properties and the invalidation method, def-use on dtype construction and positional pairing, effect rule (no copying primitive) for the unstructured view; R-MEMO memoisation rule; path-summary comparison of dtype / constructor / view forms"

CFG = "nessai.config:LivepointsConfig"
LP = "nessai.livepoint"


def _default_factory_value(node):
    """field(default_factory=lambda: X) -> X ; plain default -> node"""
    if isinstance(node, ast.Call) and call_name(node) == "field":
        for k in node.keywords:
            if k.arg == "default_factory" and isinstance(k.value, ast.Lambda):
                return k.value.body
            if k.arg == "default":
                return k.value
    return node


def _keeps_column_order(e):
    """(ok, why): e denotes columns of `df` in the frame's own order: df.columns, a slice of it, an order-preserving
    selection (Index.difference(.., sort=False), Index.drop, Index.intersection, a comprehension over df.columns)."""
    t = canon(e)
    if t == "df.columns":
        return True, ""
    if isinstance(e, ast.Subscript) and isinstance(e.slice, ast.Slice) and (e.slice.step is None):
        return _keeps_column_order(e.value)
    if isinstance(e, ast.Call) and isinstance(e.func, ast.Attribute):
        a = e.func.attr
        if a == "difference":
            srt = next((k.value for k in e.keywords if k.arg == "sort"), e.args[1] if len(e.args) > 1 else None)
            if isinstance(srt, ast.Constant) and srt.value is False:
                return _keeps_column_order(e.func.value)
            return False, f"`{src(e)[:60]}`: pandas.Index.difference sorts its result unless sort=False - the fields come out in alphabetical, not in the frame's, order"
        if a in ("drop", "intersection", "copy", "tolist", "to_list"):
            srt = next((k.value for k in e.keywords if k.arg == "sort"), None)
            if srt is not None and not (isinstance(srt, ast.Constant) and srt.value is False):
                return False, f"`{src(e)[:60]}` sorts the columns"
            return _keeps_column_order(e.func.value)
        return False, f"`{src(e)[:60]}`: not a recognised order-preserving selection of the columns"
    if isinstance(e, ast.Call) and isinstance(e.func, ast.Name) and e.func.id in ("list", "tuple") and len(e.args) == 1:
        return _keeps_column_order(e.args[0])
    if isinstance(e, ast.ListComp) and len(e.generators) == 1 and isinstance(e.elt, ast.Name) and isinstance(e.generators[0].target, ast.Name) and e.elt.id == e.generators[0].target.id:
        return _keeps_column_order(e.generators[0].iter)
    return False, f"`{src(e)[:60]}`: not a recognised order-preserving selection of the columns"


def run(ctx):
    prog = ctx.prog
    c = prog.cls(CFG)
    attrs = {k: _default_factory_value(v) for k, v in c.class_attrs.items()}

    # ---- C18.1 parallel tables ------------------------------------------
    core = attrs.get("core_parameters")
    ctx.ob("R-SIB", "C18.1", CFG, "core non-sampling fields are ['logP', 'logL', 'it'] in this order", core is not None and canon(core) == "['logP', 'logL', 'it']", f"`{src(core)}`")

    def cached_value(prop):
        p = c.methods.get(prop)
        ctx.require(p is not None and p.is_property, f"{CFG}.{prop} property vanished")
        ifs = [n for n in walk_no_nested(p.node) if isinstance(n, ast.If)]
        if len(ifs) != 1 or len(ifs[0].body) != 1 or not isinstance(ifs[0].body[0], ast.Assign):
            return None, None, p
        t = ifs[0].test
        cache = None
        if isinstance(t, ast.Compare) and isinstance(t.ops[0], ast.Is) and const(t.comparators[0]) and t.comparators[0].value is None and is_self_attr(t.left):
            cache = t.left.attr
        asg = ifs[0].body[0]
        ok = cache is not None and is_self_attr(asg.targets[0], cache)
        rets = [n for n in walk_no_nested(p.node) if isinstance(n, ast.Return)]
        ok = ok and len(rets) == 1 and is_self_attr(rets[0].value, cache)
        return (cache if ok else None), asg.value, p

    cache_d, v_d, p_d = cached_value("core_parameters_dtype")
    cache_v, v_v, p_v = cached_value("core_parameters_defaults")
    ctx.ob("R-SIB", "C18.1", p_d, "core dtypes are position-wise [float dtype (logP), logl dtype (logL), it dtype (it)]", v_d is not None and canon(v_d) == "[self.default_float_dtype, self.logl_dtype, self.it_dtype]", f"`{src(v_d)}`")
    ctx.ob("R-SIB", "C18.1", p_v, "core defaults are position-wise (float default, float default, it default)", v_v is not None and canon(v_v) == "(self.default_float_value, self.default_float_value, self.it_default)", f"`{src(v_v)}`")
    ctx.ob("R-SIB", "C18.1", CFG, "documented defaults: log-prior / log-likelihood NaN, iteration 0", canon(attrs.get("default_float_value", ast.Constant(None))) == "nan" and canon(attrs.get("it_default", ast.Constant(None))) == "0", f"default_float_value={src(attrs.get('default_float_value'))}, it_default={src(attrs.get('it_default'))}")
    ctx.ob("R-SIB", "C18.1", CFG, "no extra fields are registered by default", canon(attrs.get("extra_parameters", ast.Constant(0))) == "[]" and canon(attrs.get("extra_parameters_dtype", ast.Constant(0))) == "[]" and canon(attrs.get("extra_parameters_defaults", ast.Constant(0))) == "()", "")
    caches = {cache_d, cache_v}
    for prop, want in (("non_sampling_parameters", "self.core_parameters + self.extra_parameters"), ("non_sampling_defaults", "self.core_parameters_defaults + self.extra_parameters_defaults"), ("non_sampling_dtype", "self.core_parameters_dtype + self.extra_parameters_dtype")):
        ch, v, p = cached_value(prop)
        caches.add(ch)
        ctx.ob("R-SIB", "C18.1", p, f"{prop} = core ++ extra, in that order", v is not None and canon(v) == want, f"`{src(v)}`")
    ctx.floor("C18.1", 8)

    # ---- C18.3 cache invalidation completeness ------------------------------
    rp = c.methods.get("reset_properties")
    ctx.require(rp is not None, "reset_properties vanished")
    cleared = {n.targets[0].attr for n in walk_no_nested(rp.node) if isinstance(n, ast.Assign) and is_self_attr(n.targets[0]) and const(n.value) and n.value.value is None}
    ctx.ob("R-WRITERS", "C18.3", rp, "reset_properties clears exactly the caches the lazy properties fill", None not in caches and cleared == caches and len(caches) == 5, f"lazy caches {sorted(str(x) for x in caches)}; cleared {sorted(cleared)}")
    # caches are written nowhere else
    for f in prog.all_functions:
        for n in walk_no_nested(f.node):
            if isinstance(n, ast.Attribute) and isinstance(n.ctx, ast.Store) and n.attr in cleared:
                ctx.ob("R-WRITERS", "C18.3", f, "cache attributes are written only by their property and by reset_properties", f.cls is c and (f.name == "reset_properties" or f.is_property), f"`{src(n)}`", node=n)
    # memoised functions (functools.lru_cache / cache) are caches too: one that reads the live-point registry
    # (config.livepoints.*) keeps answering with the registry of its first call unless every function that changes the
    # registry clears it.  Zero instances are expected; the matcher is re-decided on a failing and a passing fixture.
    ctx.require(_memo_selfcheck(), "R-MEMO fixtures: the registry-reading memoised function is not reported / the keyed twin is")
    memo_ = [(f_, why_) for f_ in prog.all_functions for why_ in [_memo_reads_registry(f_.node)] if why_ is not None]
    mutators_ = [ctx.fn(LP + ":add_extra_parameters_to_live_points"), ctx.fn(LP + ":reset_extra_live_points_parameters")]
    for f_, why_ in memo_:
        cleared_ = all(any(isinstance(c_, ast.Call) and isinstance(c_.func, ast.Attribute) and c_.func.attr == "cache_clear" and src(c_.func.value).split(".")[-1] == f_.name for c_ in walk_no_nested(m_.node)) for m_ in mutators_)
        ctx.ob("R-MEMO", "C18.3", f_, "a memoised function does not read the live-point registry (or is cleared by everything that changes the registry)", cleared_, why_)
    ctx.ob("R-MEMO", "C18.3", "nessai", "every function of the package was examined for memoisation decorators", True, f"{len(prog.all_functions)} functions, {len(memo_)} memoised functions that read config.livepoints")
    ctx.floor("C18.3", 8)

    # ---- C18.2 registry co-update ---------------------------------------------
    add = ctx.fn(LP + ":add_extra_parameters_to_live_points")
    aa = FA(add)
    ap_p = aa.find_calls("config.livepoints.extra_parameters.append")
    ap_t = aa.find_calls("config.livepoints.extra_parameters_dtype.append")
    st_d = aa.find(lambda s: store_target(s) is not None and src(store_target(s)) == "config.livepoints.extra_parameters_defaults")
    rs = aa.find_calls("config.livepoints.reset_properties")
    ctx.require(len(ap_p) == 1 and len(ap_t) == 1 and len(st_d) == 1 and len(rs) == 1, "add_extra_parameters_to_live_points: expected one update of each of the three tables and one reset_properties call")
    same = _same_block(add.node, [aa.stmt(ap_p[0][0]), aa.stmt(ap_t[0][0]), aa.stmt(st_d[0])])
    ctx.ob("R-ORDER", "C18.2", add, "name, dtype and default of an extra field are registered together (same block, unconditionally w.r.t. each other)", same, "")
    loops = [n for n in aa.nodes() if n.kind == "for"]
    lb = match_stmt("for $$p, $$dv in zip(parameters, default_values):\n    $_rest", loops[0].ast) if len(loops) == 1 else None
    ctx.ob("R-SIB", "C18.2", add, "names and default values are paired positionally (zip(parameters, default_values))", lb is not None, "")
    P, DV = (src(lb["p"]), src(lb["dv"])) if lb else ("p", "dv")
    ctx.ob("R-SIB", "C18.2", add, "the registered default is appended at the same position as the name (tuple + (dv,))", canon(stored_value(aa.stmt(st_d[0]))) == f"config.livepoints.extra_parameters_defaults + ({DV},)" and src(ap_p[0][1].args[0]) == P and canon(ap_t[0][1].args[0]) == "config.livepoints.default_float_dtype", f"`{src(aa.stmt(st_d[0]))[:100]}`")
    facts = [(canon(e), t) for e, t in guard_facts(aa, ap_p[0][0])]
    ctx.ob("R-DOM", "C18.2", add, "a field is registered at most once (guard: not already registered)", (f"{P} not in config.livepoints.extra_parameters", True) in facts or (f"{P} in config.livepoints.extra_parameters", False) in facts, f"{facts}")
    ctx.ob("R-ORDER", "C18.2", add, "every path that may change the registry ends by invalidating the caches (reset_properties after the loop, on every path)", aa.on_every_normal_path(rs[0][0]) and all(aa.cfg.can_follow(x, rs[0][0]) for x in (ap_p[0][0], ap_t[0][0], st_d[0])) and not aa.cfg.in_loop(rs[0][0]), "")
    rst = c.methods.get("reset")
    ra = FA(rst)
    vals = {src(s.targets[0]): canon(s.value) for s in walk_no_nested(rst.node) if isinstance(s, ast.Assign)}
    rc = ra.find_calls("self.reset_properties")
    ctx.ob("R-ORDER", "C18.2", rst, "reset() empties all three extra tables and invalidates the caches", vals == {"self.extra_parameters": "[]", "self.extra_parameters_defaults": "()", "self.extra_parameters_dtype": "[]"} and len(rc) == 1 and ra.on_every_normal_path(rc[0][0]), f"{vals}")
    rr = ctx.fn(LP + ":reset_extra_live_points_parameters")
    ctx.ob("R-ORDER", "C18.2", rr, "the public reset delegates to config.livepoints.reset()", any(isinstance(n, ast.Call) and call_name(n) == "config.livepoints.reset" for n in walk_no_nested(rr.node)), "")
    # the extra tables are mutated nowhere else in the package
    for f in prog.all_functions:
        for n in walk_no_nested(f.node):
            hit = None
            if isinstance(n, ast.Attribute) and isinstance(n.ctx, ast.Store) and n.attr.startswith("extra_parameters"):
                hit = n
            if isinstance(n, ast.Call) and isinstance(n.func, ast.Attribute) and n.func.attr in ("append", "extend", "insert", "pop", "remove", "clear") and isinstance(n.func.value, ast.Attribute) and n.func.value.attr.startswith("extra_parameters"):
                hit = n
            if hit is not None:
                ctx.ob("R-WRITERS", "C18.2", f, "the extra-field registry is mutated only by add_extra_parameters_to_live_points and LivepointsConfig.reset", f.qual in (add.qual, rst.qual), f"`{src(hit)[:80]}`", node=hit)
    ctx.floor("C18.2", 10)

    # ---- C18.4 dtype construction and positional pairing --------------------------
    gd = ctx.fn(LP + ":get_dtype")
    from ..summ import summarise as _summ184
    from ..q import conjuncts as _conj184

    def _flag(pa_, name_="non_sampling_parameters"):
        v_ = None
        for t_, tr_ in pa_.guards:
            for e_, x_ in _conj184(t_, tr_):
                if canon(e_) == name_:
                    v_ = x_
        return v_

    def _nolist(e_):
        # list(zip(..)) / zip(..): the same elements when they are only appended to a list
        return e_.args[0] if isinstance(e_, ast.Call) and isinstance(e_.func, ast.Name) and e_.func.id == "list" and len(e_.args) == 1 and isinstance(e_.args[0], ast.Call) else e_

    BASE_D = "[(n, array_dtype) for n in names]"
    ZIP_D = "zip(config.livepoints.non_sampling_parameters, config.livepoints.non_sampling_dtype)"
    gpaths = [pa_ for pa_ in _summ184(gd.node) if pa_.end == "return"]
    ok = len(gpaths) in (2, 4)
    ok_iff = ok
    for pa_ in gpaths:
        r_ = pa_.ret
        a_ = r_.args[0] if isinstance(r_, ast.Call) and canon(r_.func) == "dtype" and len(r_.args) == 1 else None
        fl_ = _flag(pa_)
        if a_ is None or fl_ is None:
            ok = ok_iff = False
            continue
        if isinstance(a_, ast.BinOp) and isinstance(a_.op, ast.Add):
            good = canon(a_.left, rename={}) is not None and match_expr("[($$n, $t) for $$n in names]", a_.left) is not None and canon(match_expr("[($$n, $t) for $$n in names]", a_.left)["t"]) in ("array_dtype", "config.livepoints.default_float_dtype") and canon(_nolist(a_.right)) == ZIP_D
            ok = ok and good
            ok_iff = ok_iff and fl_ is True
        else:
            ok = ok and match_expr("[($$n, $t) for $$n in names]", a_) is not None and canon(match_expr("[($$n, $t) for $$n in names]", a_)["t"]) in ("array_dtype", "config.livepoints.default_float_dtype")
            ok_iff = ok_iff and fl_ is False
    ctx.ob("R-SIB", "C18.4", gd, "dtype = caller's names in caller's order, then (non-sampling name, dtype) pairs zipped from the two registry tables", ok, "")
    ctx.ob("R-DOM", "C18.4", gd, "non-sampling fields are appended iff requested", ok_iff, "")
    es = ctx.fn(LP + ":empty_structured_array")
    ea = FA(es)
    # the fill may sit in the function itself or in a module-level helper it calls (one level)
    helpers_ = [g_ for g_ in prog.functions_in(LP) if g_.cls is None and g_ is not es and any(isinstance(c_, ast.Call) and call_name(c_) == g_.name for c_ in walk_no_nested(es.node)) and g_.name not in ("get_dtype",)]
    scope_ = [es.node] + [g_.node for g_ in helpers_]
    fills = [n for sc_ in scope_ for n in walk_no_nested(sc_) if isinstance(n, ast.For)]
    okf = len(fills) == 1 and match_stmt("for $$k, $$v in zip(config.livepoints.non_sampling_parameters, config.livepoints.non_sampling_defaults):\n    $$arr[$$k] = $$v", fills[0]) is not None
    ctx.ob("R-SIB", "C18.4", es, "non-sampling fields take their registered defaults, paired by position (zip of names and defaults)", okf, "")
    pf = [x_ for sc_ in scope_ for pat_ in ("$$arr[names] = config.livepoints.default_float_value", "$$arr[list(names)] = config.livepoints.default_float_value") for x_ in find_stmt(pat_, sc_)]
    ctx.ob("R-SIB", "C18.4", es, "parameter fields default to the float default (NaN)", len(pf) == 1, "")
    dt = [c_ for c_ in walk_no_nested(es.node) if isinstance(c_, ast.Call) and call_name(c_) == "get_dtype"]
    ctx.ob("R-SIB", "C18.4", es, "empty arrays get their dtype from get_dtype(names, ...)", len(dt) == 1 and src(dt[0].args[0]) == "names", "")
    na = ctx.fn(LP + ":numpy_array_to_live_points")
    loops = [n for n in walk_no_nested(na.node) if isinstance(n, ast.For)]
    okn = len(loops) == 1 and match_stmt("for $$i, $$n in enumerate(names):\n    $$arr[$$n] = array[..., $$i]", loops[0]) is not None
    naa = FA(na)
    loop_ids = [n_.id for n_ in naa.nodes() if n_.kind == "for" and n_.ast in loops]
    # ... on every path - or, where the rows are known to be C-contiguous, by re-reading each row of the buffer as one
    # record (an F-ordered or transposed array has the same bytes in another order: numpy accepts it as a buffer, and every
    # field but the first gets values of other points)
    fast_ids, fast_ok = [], True
    for nid_ in naa.find(lambda s_: isinstance(s_, ast.Assign) and isinstance(s_.value, ast.Call) and canon(s_.value.func) == "ndarray" and any(canon(a_) == "array" for a_ in list(s_.value.args) + [k_.value for k_ in s_.value.keywords])):
        fast_ids.append(nid_)
        facts_ = guard_facts(naa, nid_)
        fast_ok = fast_ok and any(t_ is True and canon(e_) in ("array.flags.c_contiguous", "array.flags['C_CONTIGUOUS']", "array.flags['C']") for e_, t_ in facts_)
    import networkx as _nx18

    g18 = naa.cfg.g.copy()
    g18.remove_nodes_from(loop_ids + fast_ids)
    rets18 = [r_ for r_ in naa.find(lambda s_: isinstance(s_, ast.Return)) if not (isinstance(naa.stmt(r_).value, ast.Call) and canon(naa.stmt(r_).value.func) == "empty_structured_array")]
    bypass = any(r_ in g18 and naa.cfg.entry in g18 and _nx18.has_path(g18, naa.cfg.entry, r_) for r_ in rets18)
    okn = okn and bool(loop_ids) and bool(rets18) and not bypass and fast_ok
    ctx.ob("R-SIB", "C18.4", na, "column i of a plain array goes to field names[i] (enumerate(names))", okn, "" if fast_ok else "the rows are re-read as records without a test that they are C-contiguous")
    DEF_ = "config.livepoints.non_sampling_defaults"

    def _array_calls(e_):
        return [c_ for c_ in ast.walk(e_) if isinstance(c_, ast.Call) and canon(c_.func) == "array" and any(k_.arg == "dtype" for k_ in c_.keywords)] if e_ is not None else []

    for q, P_, want_names in ((LP + ":parameters_to_live_point", ("parameters",), "names"), (LP + ":dict_to_live_points", ("tuple(d.values())", "d.values()"), "d.keys()")):
        f = ctx.fn(q)
        ok, n_c, detail = True, 0, ""
        for pa_ in [x_ for x_ in _summ184(f.node, max_paths=400) if x_.end == "return"]:
            for c_ in _array_calls(pa_.ret):
                dtc = next(k_.value for k_ in c_.keywords if k_.arg == "dtype")
                if not (isinstance(dtc, ast.Call) and canon(dtc.func) == "get_dtype" and dtc.args):
                    continue
                rows = c_.args[0] if c_.args else None
                if not (isinstance(rows, ast.List) and len(rows.elts) == 1):
                    continue  # the many-points path (arrays of values): decided by the array conversion rules
                n_c += 1
                detail = src(c_)[:120]
                fl_ = next((k_.value for k_ in dtc.keywords if k_.arg == "non_sampling_parameters"), dtc.args[2] if len(dtc.args) > 2 else None)
                fv_ = _flag(pa_, canon(fl_)) if fl_ is not None else None
                row = canon(rows.elts[0])
                want_t = {f"(*{x_}, *{DEF_})" for x_ in P_} | {f"tuple({x_}) + {DEF_}" for x_ in P_}
                want_f = {f"tuple({x_})" for x_ in P_} | {f"tuple(tuple({x_}))" for x_ in P_}
                ok = ok and canon(dtc.args[0]) == want_names and ((fv_ is True and row in want_t) or (fv_ is False and row in want_f))
        ctx.ob("R-SIB", "C18.4", f, "single-point constructor builds its dtype with get_dtype(<caller's names>) and appends the non-sampling defaults after the parameters", ok and n_c >= 2, detail)
    df = ctx.fn(LP + ":dataframe_to_live_points")
    okdf, n_df = True, 0
    why_df = ""
    for pa_ in [x_ for x_ in _summ184(df.node) if x_.end == "return"]:
        for c_ in _array_calls(pa_.ret):
            n_df += 1
            dtc = next(k_.value for k_ in c_.keywords if k_.arg == "dtype")
            fl_ = next((k_.value for k_ in dtc.keywords if k_.arg == "non_sampling_parameters"), None) if isinstance(dtc, ast.Call) else None
            fv_ = _flag(pa_, canon(fl_)) if fl_ is not None else None
            r0 = c_.args[0] if c_.args else None
            # rows: [tuple(r) + defaults for r in ROWS] with ROWS = df.values (all columns) or df[NAMES].values; the dtype is
            # built from list(NAMES) for the same NAMES, and NAMES keeps the frame's own column order
            rows_t = rows_f = False
            names_ = None
            if r0 is not None:
                for pt_, kind_ in ((f"[tuple($$r) + {DEF_} for $$r in $rows]", "t"), ("[tuple($$r) + tuple() for $$r in $rows]", "f"), ("[tuple($$r) + () for $$r in $rows]", "f"), ("[tuple($$r) for $$r in $rows]", "f")):
                    b_ = match_expr(pt_, r0)
                    if b_ is None:
                        continue
                    rows_e = b_["rows"]
                    if canon(rows_e) in ("df.values", "df.to_numpy()"):
                        names_ = ast.parse("df.columns", mode="eval").body
                    else:
                        bb_ = match_expr("df[$n].values", rows_e) or match_expr("df[$n].to_numpy()", rows_e)
                        names_ = bb_["n"] if bb_ else None
                    if names_ is not None:
                        rows_t, rows_f = kind_ == "t", kind_ == "f"
                    break
            okn_, whyn_ = (False, "rows not recognised") if names_ is None else _keeps_column_order(names_)
            if not okn_:
                why_df = whyn_
            okdf = okdf and okn_ and isinstance(dtc, ast.Call) and canon(dtc.func) == "get_dtype" and dtc.args and canon(dtc.args[0]) in (f"list({canon(names_)})", canon(names_) if isinstance(names_, ast.List) else "") and ((fv_ is True and rows_t) or (fv_ is False and rows_f))
    ctx.ob("R-SIB", "C18.4", df, "data-frame rows become tuple(row) + defaults with dtype get_dtype(list(<the same columns, in the frame's order>))", okdf and n_df >= 2, why_df)
    # live_points_to_dict hands back one *array* per name - of length 1 for a single point - so the way back must send
    # every sequence, of any length, down the array path; the tuple path is for scalars only.  Its guard must therefore
    # be "the values have no __len__", not "N == 1" (a tuple of length-1 arrays is not a valid row for np.array)
    d2l = ctx.fn(LP + ":dict_to_live_points")
    da_ = FA(d2l)
    from ..q import holds as _holds18
    tup_ = [r_ for r_ in da_.find(lambda s_: isinstance(s_, ast.Return)) if any(isinstance(c_, ast.Call) and call_name(c_) in ("np.array", "numpy.array") for c_ in ast.walk(da_.stmt(r_)))]
    vals_ = [src(s_.targets[0]) for s_ in walk_no_nested(d2l.node) if isinstance(s_, ast.Assign) and len(s_.targets) == 1 and isinstance(s_.targets[0], ast.Name) and match_expr("tuple(d.values())", s_.value) is not None]
    ok_ = len(tup_) == 1 and bool(vals_) and _holds18(guard_facts(da_, tup_[0]), f"hasattr({vals_[0]}[0], '__len__')", False)
    ctx.ob("R-DOM", "C18.4", d2l, "the single-point tuple path of dict_to_live_points is taken for scalar values only (sequences of length 1 - what live_points_to_dict returns for one point - take the array path)", ok_, f"guards of the tuple path: {[(src(e_)[:40], t_) for e_, t_ in guard_facts(da_, tup_[0])] if tup_ else None}")
    ld = ctx.fn(LP + ":live_points_to_dict")
    rr = [n for n in walk_no_nested(ld.node) if isinstance(n, ast.Return)]
    ctx.ob("R-SIB", "C18.4", ld, "dict conversion maps each name to its own field", len(rr) == 1 and match_expr("{$$f: live_points[$$f] for $$f in names}", rr[0].value) is not None, "")
    la = ctx.fn(LP + ":live_points_to_array")
    rr = [n for n in walk_no_nested(la.node) if isinstance(n, ast.Return)]
    ctx.ob("R-SIB", "C18.4", la, "array conversion selects the requested names in the requested order", len(rr) == 1 and canon(rr[0].value) == "rfn.structured_to_unstructured(live_points[names], copy=copy)", f"`{src(rr[0].value) if rr else None}`")
    ctx.floor("C18.4", 11)

    # ---- C18.5 zero-copy view ----------------------------------------------------------
    COPYING = {"np.array", "numpy.array", "np.copy", "np.ascontiguousarray", "rfn.structured_to_unstructured", "np.asarray", "copy.copy", "copy.deepcopy"}
    for q in (LP + ":unstructured_view", LP + ":_unstructured_view_dtype", tables.MODEL + ".unstructured_view"):
        f = ctx.fn(q)
        bad = [src(n)[:60] for n in walk_no_nested(f.node) if isinstance(n, ast.Call) and ((call_name(n) or "") in COPYING or (isinstance(n.func, ast.Attribute) and n.func.attr in ("copy", "astype", "tolist")))]
        ctx.ob("R-API", "C18.5", f, "no copying primitive on the unstructured-view path", not bad, f"{bad}")
    uv = ctx.fn(LP + ":unstructured_view")
    vd = ctx.fn(LP + ":_unstructured_view_dtype")
    from ..summ import summarise as _summ18

    # the dtype of the window: exactly the requested names with the source array's formats and offsets, in either spelling
    # of np.dtype - {name: (format, offset)} (numpy sorts the fields by offset) or names / formats / offsets lists (kept
    # in the order given)
    vpaths = [pa for pa in _summ18(vd.node) if pa.end == "return"]
    sorted_form = explicit_form = False
    if len(vpaths) == 1 and isinstance(vpaths[0].ret, ast.Call) and canon(vpaths[0].ret.func) == "dtype" and len(vpaths[0].ret.args) == 1:
        a0 = vpaths[0].ret.args[0]
        sorted_form = match_expr("{$$n: x.dtype.fields[$$n] for $$n in names}", a0) is not None
        if isinstance(a0, ast.Dict) and all(isinstance(k_, ast.Constant) for k_ in a0.keys):
            d0 = {k_.value: v_ for k_, v_ in zip(a0.keys, a0.values)}
            explicit_form = set(d0) == {"names", "formats", "offsets"} and canon(d0["names"]) in ("names", "list(names)") and match_expr("[x.dtype.fields[$$n][0] for $$n in $N]", d0["formats"]) is not None and match_expr("[x.dtype.fields[$$n][1] for $$n in $N]", d0["offsets"]) is not None
    ctx.ob("R-SIB", "C18.5", vd, "the view's dtype takes exactly the requested names with the offsets of the source array", sorted_form or explicit_form, f"`{src(vpaths[0].ret)[:100] if vpaths else None}`")
    # the window itself: the caller's buffer re-read without a copy - either the records re-read from byte 0 as len(dtype)
    # floats, or a float window of len(dtype) columns that starts at the LOWEST offset of the requested fields (the offset of
    # the first *name* is that only while the dtype is built in the offset-sorted spelling)
    upaths = [pa for pa in _summ18(uv.node) if pa.end == "return"]
    ok_view, seen_v = bool(upaths), ""
    for pa in upaths:
        r_ = pa.ret
        seen_v = src(r_)[:120]
        form_a = canon(r_) in ("ndarray(x.shape, dtype, x, 0, x.strides).view((config.livepoints.default_float_dtype, len(dtype)))", "ndarray(x.shape, _unstructured_view_dtype(x, names), x, 0, x.strides).view((config.livepoints.default_float_dtype, len(_unstructured_view_dtype(x, names))))")
        form_b = False
        if isinstance(r_, ast.Call) and canon(r_.func) == "ndarray" and len(r_.args) == 5 and not r_.keywords:
            shp, dt_, buf, off, strd = r_.args
            dts = {"dtype", "_unstructured_view_dtype(x, names)"}
            n_ok = any(canon(shp) == f"x.shape + (len({d_}),)" for d_ in dts)
            fl = canon(dt_) in ("config.livepoints.default_float_dtype", "dtype(config.livepoints.default_float_dtype)")
            st_ok = canon(strd) in ("x.strides + (dtype(config.livepoints.default_float_dtype).itemsize,)", "x.strides + (8,)")
            lowest = any(match_expr(p_, off) is not None for d_ in dts for p_ in (f"min($$f[1] for $$f in {d_}.fields.values())", f"min({d_}.fields[$$n][1] for $$n in {d_}.names)", f"min([$$f[1] for $$f in {d_}.fields.values()])"))
            first = any(canon(off) == f"{d_}.fields[{d_}.names[0]][1]" for d_ in dts)
            form_b = n_ok and fl and st_ok and canon(buf) == "x" and ((isinstance(off, ast.Constant) and off.value == 0) or lowest or (first and sorted_form))
        ok_view = ok_view and (form_a or form_b)
    ctx.ob("R-SIB", "C18.5", uv, "the view is a strided reinterpretation of the same buffer: ndarray(x.shape, dtype, x, 0, x.strides).view((float dtype, len(dtype)))", ok_view, f"`{seen_v}`")
    mv = ctx.fn(tables.MODEL + ".unstructured_view")
    rr = [n for n in walk_no_nested(mv.node) if isinstance(n, ast.Return)]
    ctx.ob("R-SIB", "C18.5", mv, "Model.unstructured_view windows exactly the model's parameters (dtype computed from self.names)", len(rr) == 1 and canon(rr[0].value) == "unstructured_view(x, dtype=self._view_dtype)" and len([1 for n_, b_ in find_stmt("self._dtype = $v", prog.cls(tables.MODEL).methods["_view_dtype"].node) if match_expr("_unstructured_view_dtype(empty_structured_array(0, self.names), self.names)", b_["v"], inline=single_assignments(prog.cls(tables.MODEL).methods["_view_dtype"].node)) is not None]) == 1, "")
    # positional views of caller-supplied arrays are only combined with scalars (their columns follow the caller's memory order)
    from ..rules import fieldorder as _fo2
    _pv = _fo2.positional_view_uses(prog)
    ctx.require(len(_pv) >= 4, f"only {len(_pv)} uses of a positional view found (in_unit_hypercube / log_prior_unit_hypercube expected)")
    for _f, _n, _ok, _why in _pv:
        ctx.ob("R-FIELDS", "C18.5", _f, "a positional (memory-order) view of a structured array is combined only with scalars, never with a per-parameter array", _ok, _why, node=_n)
    ctx.floor("C18.5", 6)
    ctx.assumptions += ["numpy structured-array semantics (field assignment by name, np.ndarray(buffer=...) shares memory); value round-trips for arbitrary names/shapes and pandas behaviour are not decided"]


def _same_block(fnode, stmts):
    for n in ast.walk(fnode):
        for fld in ("body", "orelse"):
            blk = getattr(n, fld, None)
            if isinstance(blk, list) and all(any(s is b or any(s is x for x in ast.walk(b)) and isinstance(b, ast.Expr) for b in blk) for s in stmts):
                return True
    return False



_MEMO_DECOS = ("lru_cache", "cache", "cached", "memoize", "memoise")


def _memo_reads_registry(fnode):
    """Explanation if fnode is memoised and reads config.livepoints.* (directly), else None."""
    if not isinstance(fnode, (ast.FunctionDef, ast.AsyncFunctionDef)):
        return None
    decos = []
    for d in fnode.decorator_list:
        t = d.func if isinstance(d, ast.Call) else d
        nm = t.attr if isinstance(t, ast.Attribute) else (t.id if isinstance(t, ast.Name) else "")
        if nm in _MEMO_DECOS:
            decos.append(nm)
    if not decos:
        return None
    reads = sorted({src(n) for n in ast.walk(fnode) if isinstance(n, ast.Attribute) and isinstance(n.ctx, ast.Load) and src(n).startswith("config.livepoints.")})
    # also through helpers of this module that are known to read the registry
    helpers = sorted({(n.func.id if isinstance(n.func, ast.Name) else n.func.attr) for n in ast.walk(fnode) if isinstance(n, ast.Call) and (n.func.id if isinstance(n.func, ast.Name) else getattr(n.func, "attr", "")) in ("get_dtype", "empty_structured_array")})
    if not reads and not helpers:
        return None
    return f"@{decos[0]} `{fnode.name}` reads {reads + [h + '()' for h in helpers]}: the registry is not part of the cache key"


def _memo_selfcheck():
    bad = ast.parse("@lru_cache(maxsize=8)\ndef f(dtype, names):\n    r = make(dtype)\n    for nm, v in zip(config.livepoints.non_sampling_parameters, config.livepoints.non_sampling_defaults):\n        r[nm] = v\n    return r\n").body[0]
    good = ast.parse("@lru_cache(maxsize=8)\ndef f(dtype, names, defaults):\n    r = make(dtype)\n    for nm, v in zip(names, defaults):\n        r[nm] = v\n    return r\n").body[0]
    return _memo_reads_registry(bad) is not None and _memo_reads_registry(good) is None

CLAIM = {
    "text": "Decides the table-and-pairing discipline every conversion relies on: the three parallel core tables (names, dtypes, defaults) have matching positions with the documented defaults (NaN, NaN, 0); non_sampling_* = core ++ extra; registering an extra field updates name, dtype and default together, at most once, and every path ends by invalidating the caches; the set of lazily cached attributes equals the set cleared by reset_properties and nothing else writes them or the registry; get_dtype puts the caller's names first in the caller's order and zips non-sampling names with dtypes; empty arrays zip names with defaults; plain arrays are copied column i -> names[i]; single-point constructors append the non-sampling defaults after the parameters; the unstructured view contains no copying primitive and is ndarray(shape, dtype, buffer=x, 0, strides).view(...) over exactly the requested fields. A memoised function (lru_cache / cache) does not read the live-point registry unless everything that changes the registry clears it (R-MEMO, fixtures re-decided on every run); positional views are combined only with scalars. Plain arrays are copied column by name on every path, or re-read row-wise as records only under a C-contiguity test (C18.4). The data-frame constructor may select columns, but rows and dtype use the same selection and it keeps the frame's own column order (pandas.Index.difference sorts unless sort=False).",
    "note": "Value round-trips for arbitrary names, shapes and float values (NaN/inf) are runtime behaviour of numpy/pandas and are not decided; only the construction discipline is.",
}

_C = "nessai/config.py"
_L = "nessai/livepoint.py"
MUTANTS = [
    {"id": "core-order-swapped", "file": _C, "old": 'default_factory=lambda: ["logP", "logL", "it"]', "new": 'default_factory=lambda: ["logL", "logP", "it"]', "expect": "core non-sampling fields"},
    {"id": "core-dtypes-misordered", "file": _C, "old": "                self.default_float_dtype,\n                self.logl_dtype,\n                self.it_dtype,", "new": "                self.logl_dtype,\n                self.it_dtype,\n                self.default_float_dtype,", "expect": "core dtypes are position-wise"},
    {"id": "it-default-nonzero", "file": _C, "old": "    it_default: int = 0", "new": "    it_default: int = -1", "expect": "documented defaults"},
    {"id": "extra-before-core", "file": _C, "old": "                self.core_parameters_defaults + self.extra_parameters_defaults", "new": "                self.extra_parameters_defaults + self.core_parameters_defaults", "expect": "non_sampling_defaults = core ++ extra"},
    {"id": "cache-not-invalidated", "file": _C, "old": "        self._non_sampling_dtype = None\n\n\n@dataclass\nclass PlottingConfig", "new": "\n\n@dataclass\nclass PlottingConfig", "expect": "clears exactly the caches"},
    {"id": "add-without-invalidate", "file": _L, "old": "    config.livepoints.reset_properties()\n\n\ndef reset_extra", "new": "\n\ndef reset_extra", "expect": "ANALYSIS"},
    {"id": "dtype-not-registered", "file": _L, "old": "            config.livepoints.extra_parameters_dtype.append(\n                config.livepoints.default_float_dtype\n            )\n        else:", "new": "        else:", "expect": "ANALYSIS"},
    {"id": "default-prepended", "file": _L, "old": "                config.livepoints.extra_parameters_defaults + (dv,)", "new": "                (dv,) + config.livepoints.extra_parameters_defaults", "expect": "same position as the name"},
    {"id": "reset-forgets-dtype", "file": _C, "old": "        self.extra_parameters_dtype = []\n        self.reset_properties()", "new": "        self.reset_properties()", "expect": "empties all three"},
    {"id": "dtype-non-sampling-first", "file": _L, "old": "        dtype += list(\n            zip(\n                config.livepoints.non_sampling_parameters,\n                config.livepoints.non_sampling_dtype,\n            )\n        )", "new": "        dtype = list(\n            zip(\n                config.livepoints.non_sampling_parameters,\n                config.livepoints.non_sampling_dtype,\n            )\n        ) + dtype", "expect": "caller's names in caller's order"},
    {"id": "defaults-paired-with-dtype-table", "file": _L, "old": "            for nm, v in zip(\n                config.livepoints.non_sampling_parameters,\n                config.livepoints.non_sampling_defaults,\n            ):", "new": "            for nm, v in zip(\n                config.livepoints.non_sampling_parameters,\n                config.livepoints.core_parameters_defaults,\n            ):", "expect": "registered defaults"},
    {"id": "columns-reversed", "file": _L, "old": "        struct_array[n] = array[..., i]", "new": "        struct_array[n] = array[..., -(i + 1)]", "expect": "column i"},
    {"id": "view-copies", "file": _L, "old": "    return np.ndarray(x.shape, dtype, x, 0, x.strides).view(", "new": "    return np.ndarray(x.shape, dtype, x.copy(), 0, x.strides).view(", "expect": "C18.5"},
    {"id": "registry-mutated-elsewhere", "file": "nessai/samplers/importancesampler.py", "old": '        add_extra_parameters_to_live_points(["logW", "logQ", "logU"])', "new": '        add_extra_parameters_to_live_points(["logW", "logQ", "logU"])\n        config.livepoints.extra_parameters.append("logG")', "expect": "registry is mutated only"},
]
