"""C12 - resuming restores the checkpointed state and yields an accounted run.

R-PICKLE: everything a custom __getstate__ drops / nulls is re-established on
the resume path before it is read (interprocedural must-write-before-read on
the receiver), pickle-only attributes are read only on the resume path,
counters continue cumulatively, stale-by-construction fields are refreshed,
and no local on the resume path can be unbound.
"""

import ast

import networkx as nx

from .. import AnalysisError, tables
from ..callgraph import callgraph
from ..canon import canon, single_assignments
from ..pm import FunctionInfo, src, dotted
from ..q import FA, call_name, const, guard_facts, is_self_attr, walk_no_nested
from ..resolve import resolver
from ..rules import undef
from ..rules.selfattrs import SelfAttrs

KEEP_LOGGING = True  # attribute reads inside log calls on the resume path are reads like any other
TECHNIQUE = "R-PICKLE: extraction of dropped/nulled/added keys from every __getstate__, interprocedural must-write-before-read of self attributes along the resume entry points, who-reads pickle-only attributes; R-WRITERS on cumulative counters; R-ORDER over sibling loops for stale-after-unpickle fields; R-UNDEF on the resume call tree; generic value-preservation rule over every __getstate__; R-COVER; call-graph rule from the resume path into the state-changing methods of the reparameterisations"

GETSTATE_CLASSES = [
    tables.BASE, tables.INS, tables.OS_, tables.PROPOSAL, tables.FP, tables.IFP, tables.FM, tables.IFM, tables.MODEL,
]

# attribute -> (rebuilding function, why reads cannot precede it); reviewed.
LAZY = {
    (tables.FP, "_draw_func"): ("prep_latent_prior", "populate() calls prep_latent_prior() before the only reader draw_latent_prior()"),
    (tables.FP, "_populate_dist"): ("prep_latent_prior", "only read inside prep_latent_prior right after being assigned"),
    (tables.IFM, "_optimiser"): ("reset_optimiser", "add_new_flow() calls reset_optimiser(); ImportanceFlowProposal.train adds a flow before training (checked under C11.4)"),
}


NULL_GUARDS = {}  # (getstate qual, key) -> options that are all falsy whenever the key is nulled


def _falsy_options(fi, stmt):
    """Option names o such that the guards of `stmt` imply `state[o]` / `state.get(o, ..)` / `self.o` is falsy."""
    fa = FA(fi)
    nid = next(iter(fa.find(lambda x: x is stmt)), None)
    out = set()
    if nid is None:
        return out
    for e, t in guard_facts(fa, nid):
        if t is not False:
            continue
        for x in ([e] if not (isinstance(e, ast.BoolOp) and isinstance(e.op, ast.Or)) else e.values):
            if isinstance(x, ast.Call) and isinstance(x.func, ast.Attribute) and x.func.attr == "get" and x.args and isinstance(x.args[0], ast.Constant):
                out.add(x.args[0].value)
            elif isinstance(x, ast.Subscript) and isinstance(x.slice, ast.Constant) and isinstance(x.slice.value, str):
                out.add(x.slice.value)
            elif isinstance(x, ast.Attribute) and isinstance(x.value, ast.Name) and x.value.id == "self":
                out.add(x.attr)
    return out


def _reads_guarded_by(prog, c, attr, options):
    """Every read of self.<attr> in the class family that is not preceded, in its function, by a store of it on every path
    happens only where one of `options` is known to be truthy.  Returns (ok, first offending read)."""
    for k in [c] + prog.subclasses(c) + [x for x in prog.mro(c) if x is not c]:
        for m in k.methods.values():
            if m.name in ("__getstate__", "__init__"):
                continue
            fa = None
            for n in walk_no_nested(m.node):
                if not (isinstance(n, ast.Attribute) and n.attr == attr and isinstance(n.ctx, ast.Load) and isinstance(n.value, ast.Name) and n.value.id == "self"):
                    continue
                fa = fa or FA(m)
                nid = next((i for i, e in fa.find_expr(lambda e, n=n: e is n)), None)
                if nid is None:
                    continue
                stores = fa.find(lambda s: isinstance(s, ast.Assign) and not (isinstance(s.value, ast.Constant) and s.value.value is None) and any(isinstance(t, ast.Attribute) and t.attr == attr and isinstance(t.value, ast.Name) and t.value.id == "self" for t in s.targets))
                if any(s != nid and fa.dominates(s, nid) for s in stores):
                    continue
                facts = guard_facts(fa, nid)
                if any(t is True and any(isinstance(x, ast.Attribute) and isinstance(x.value, ast.Name) and x.value.id == "self" and x.attr.lstrip("_") in {o.lstrip("_") for o in options} for x in ([e] if not isinstance(e, ast.BoolOp) else e.values)) for e, t in facts):
                    continue
                if any(isinstance(e, ast.Compare) and len(e.ops) == 1 and isinstance(e.ops[0], ast.Is) and src(e.left) == f"self.{attr}" and t is False for e, t in facts):
                    continue  # `if self.a is not None:`
                # ... or the function is only ever called (within the class family) after the attribute was stored
                if _called_after_store(prog, c, m, attr, options):
                    continue
                return False, f"{m.short}: `{src(n)}` read with guards {[src(e)[:30] for e, _t in facts]}"
    return True, ""


def _called_after_store(prog, c, m, attr, options, depth=0):
    sites = 0
    for k in [c] + prog.subclasses(c) + [x for x in prog.mro(c) if x is not c]:
        for g in k.methods.values():
            if g is m:
                continue
            fa = None
            for call in walk_no_nested(g.node):
                if not (isinstance(call, ast.Call) and isinstance(call.func, ast.Attribute) and call.func.attr == m.name and isinstance(call.func.value, ast.Name) and call.func.value.id == "self"):
                    continue
                sites += 1
                fa = fa or FA(g)
                nid = next((i for i, e in fa.find_expr(lambda e, call=call: e is call)), None)
                stores = fa.find(lambda s: isinstance(s, ast.Assign) and not (isinstance(s.value, ast.Constant) and s.value.value is None) and any(isinstance(t, ast.Attribute) and t.attr == attr and isinstance(t.value, ast.Name) and t.value.id == "self" for t in s.targets))
                if nid is not None and any(s != nid and fa.dominates(s, nid) for s in stores):
                    continue
                facts = guard_facts(fa, nid) if nid is not None else []
                if any(t is True and any(isinstance(x, ast.Attribute) and isinstance(x.value, ast.Name) and x.value.id == "self" and x.attr.lstrip("_") in {o.lstrip("_") for o in options} for x in ([e] if not isinstance(e, ast.BoolOp) else e.values)) for e, t in facts):
                    continue
                if depth < 2 and _called_after_store(prog, c, g, attr, options, depth + 1):
                    continue
                return False
    return sites > 0


def _state_saved_around(fi, stmt):
    """stmt sits in a block in which, before it, a dict `{k: copy.deepcopy(r.__dict__) for k, r in self._reparameterisation.items()}`
    is bound and, after it, a loop `for k, r in self._reparameterisation.items(): r.__dict__.update(<that dict>[k])` writes it back."""
    for owner in ast.walk(fi.node):
        for fld in ("body", "orelse", "finalbody"):
            blk = getattr(owner, fld, None)
            if not (isinstance(blk, list) and any(stmt is s_ or any(stmt is x_ for x_ in ast.walk(s_)) for s_ in blk)):
                continue
            i = next(k_ for k_, s_ in enumerate(blk) if stmt is s_ or any(stmt is x_ for x_ in ast.walk(s_)))
            saved = None
            for s_ in blk[:i]:
                if isinstance(s_, ast.Assign) and len(s_.targets) == 1 and isinstance(s_.targets[0], ast.Name) and isinstance(s_.value, ast.DictComp) and "deepcopy" in src(s_.value.value) and "__dict__" in src(s_.value.value) and "_reparameterisation" in src(s_.value.generators[0].iter):
                    saved = s_.targets[0].id
            if saved is None:
                continue
            for s_ in blk[i + 1:]:
                if isinstance(s_, ast.For) and "_reparameterisation" in src(s_.iter) and any(isinstance(c_, ast.Call) and isinstance(c_.func, ast.Attribute) and c_.func.attr == "update" and src(c_.func.value).endswith(".__dict__") and c_.args and saved in src(c_.args[0]) for c_ in ast.walk(s_)):
                    return True
    return False


def getstate_effects(fi):
    """(dropped, nulled, added, extras) extracted from a __getstate__ body."""
    dropped, nulled, added, extras = set(), {}, {}, []
    excl_names = {}
    for n in walk_no_nested(fi.node):
        if isinstance(n, ast.Assign) and len(n.targets) == 1:
            t, v = n.targets[0], n.value
            if isinstance(t, ast.Name) and isinstance(v, ast.Set) and all(isinstance(e, ast.Constant) for e in v.elts):
                excl_names[t.id] = {e.value for e in v.elts}
            if isinstance(t, ast.Subscript) and isinstance(t.slice, ast.Constant) and isinstance(t.slice.value, str):
                if isinstance(v, ast.Constant) and v.value is None:
                    nulled[t.slice.value] = v.value
                    NULL_GUARDS.setdefault((fi.qual, t.slice.value), set()).update(_falsy_options(fi, n))
                else:
                    added[t.slice.value] = v
        if isinstance(n, ast.Delete):
            for t in n.targets:
                if isinstance(t, ast.Subscript) and isinstance(t.slice, ast.Constant):
                    dropped.add(t.slice.value)
    for n in walk_no_nested(fi.node):
        if isinstance(n, ast.DictComp):
            for x in ast.walk(n):
                if isinstance(x, ast.BinOp) and isinstance(x.op, ast.Sub) and isinstance(x.right, ast.Name) and x.right.id in excl_names:
                    dropped |= excl_names[x.right.id]
        if isinstance(n, ast.Return) and isinstance(n.value, ast.Tuple):
            for e in n.value.elts[1:]:
                if isinstance(e, ast.Attribute) and isinstance(e.value, ast.Name):
                    extras.append(e.attr)
    # conditional assignment of the same key to a real value in another branch is "added", not "nulled"
    for k in list(nulled):
        if k in added:
            pass
    return dropped, nulled, added, extras


def _stored_attrs(prog, c):
    out = set()
    for k_ in prog.mro(c):
        for m_ in k_.methods.values():
            if m_.name == "__getstate__":
                continue
            for n_ in walk_no_nested(m_.node):
                if isinstance(n_, ast.Attribute) and isinstance(n_.ctx, ast.Store) and isinstance(n_.value, ast.Name) and n_.value.id == "self":
                    out.add(n_.attr)
    return out


def getstate_value_rule(ctx, prog, clause):
    """For every __getstate__ in the package (reviewed or new): a pickled attribute keeps its live value - the state
    may drop it, null it, reset a boolean flag or add pickle-only keys, but not replace an attribute by a *different*
    value (the restored object would not be observationally identical to the one that was checkpointed)."""
    n = 0
    for c in sorted((c for c in prog.classes.values() if "__getstate__" in c.methods), key=lambda c: c.qual):
        gs = c.methods["__getstate__"]
        stored_attrs = _stored_attrs(prog, c)
        dict_names = {"self"} | {t_.id for s_ in walk_no_nested(gs.node) if isinstance(s_, ast.Assign) for t_ in s_.targets if isinstance(t_, ast.Name)}
        for s_ in walk_no_nested(gs.node):
            if not (isinstance(s_, ast.Assign) and len(s_.targets) == 1 and isinstance(s_.targets[0], ast.Subscript) and isinstance(s_.targets[0].slice, ast.Constant) and isinstance(s_.targets[0].slice.value, str)):
                continue
            k_, v_ = s_.targets[0].slice.value, s_.value
            if k_ not in stored_attrs:
                continue  # pickle-only key
            same = (isinstance(v_, ast.Attribute) and isinstance(v_.value, ast.Name) and v_.value.id == "self" and v_.attr == k_) or (isinstance(v_, ast.Subscript) and isinstance(v_.value, ast.Name) and v_.value.id in dict_names and isinstance(v_.slice, ast.Constant) and v_.slice.value == k_)
            reset = isinstance(v_, ast.Constant) and (v_.value is None or v_.value is False)
            n += 1
            ctx.ob("R-PICKLE", clause, gs, f"{c.name}.__getstate__ pickles attribute `{k_}` with its live value (or drops / nulls / resets it), never a different value", same or reset, f"`{src(s_)[:90]}`" + ("" if same or reset else f": the restored `{k_}` differs from the checkpointed object's"), node=s_)
    ctx.require(n >= 8, f"only {n} attribute stores found in the __getstate__ methods")
    return n



def setstate_restores(prog, c):
    f = prog.find_method(c, "__setstate__")
    out = set()
    if f is None:
        return out
    for n in walk_no_nested(f.node):
        if isinstance(n, ast.Attribute) and isinstance(n.ctx, ast.Store) and isinstance(n.value, ast.Name) and n.value.id == "self":
            out.add(n.attr)
    return out


def run(ctx):
    prog = ctx.prog
    res = resolver(prog)
    g, _ = callgraph(prog)

    effects = {}
    for cq in GETSTATE_CLASSES:
        c = prog.cls(cq)
        gs = c.methods.get("__getstate__")
        ctx.require(gs is not None, f"{cq}.__getstate__ vanished")
        effects[cq] = getstate_effects(gs)
    found = [c.qual for c in prog.classes.values() if "__getstate__" in c.methods]
    ctx.ob("R-PICKLE", "C12.1", "nessai", "every reviewed class still has its custom __getstate__", set(GETSTATE_CLASSES) <= set(found), f"found {sorted(found)}")
    getstate_value_rule(ctx, prog, "C12.1")
    for cq in sorted(found):
        c = prog.cls(cq)
        gs = c.methods["__getstate__"]
        stored_attrs = _stored_attrs(prog, c)
        if cq not in GETSTATE_CLASSES:
            dropped_, nulled_, added_, extras_ = getstate_effects(gs)
            restored_ = setstate_restores(prog, c)
            rs_ = prog.find_method(c, "resume")
            if rs_ is not None:
                restored_ |= {n_.attr for n_ in walk_no_nested(rs_.node) if isinstance(n_, ast.Attribute) and isinstance(n_.ctx, ast.Store) and isinstance(n_.value, ast.Name) and n_.value.id == "self"}
            for a_ in sorted(set(dropped_) | set(nulled_)):
                ctx.ob("R-PICKLE", "C12.1", gs, f"{c.name}.__getstate__ (not in the reviewed table): dropped / nulled `{a_}` is re-assigned by __setstate__ or resume()", a_ in restored_ or a_ not in stored_attrs, f"re-assigned there: {sorted(restored_)[:12]}")

    # ---- samplers -----------------------------------------------------
    base_r = ctx.fn(tables.BASE + ".resume_from_pickled_sampler")
    recv = base_r.params()[1]
    stored = {n.attr for n in walk_no_nested(base_r.node) if isinstance(n, ast.Attribute) and isinstance(n.ctx, ast.Store) and isinstance(n.value, ast.Name) and n.value.id == recv}
    for cq in (tables.BASE, tables.INS):
        dropped, nulled, added, extras = effects[cq]
        restored = setstate_restores(prog, prog.cls(cq))
        if extras:
            ctx.ob("R-PICKLE", "C12.1", cq + ".__setstate__", "objects pickled beside the state dict are re-attached by __setstate__", set(extras) <= restored, f"extras {extras}; __setstate__ assigns {sorted(restored)}")
        for a in sorted(dropped):
            if a in restored:
                ctx.ob("R-PICKLE", "C12.1", cq + ".__setstate__", f"dropped `{a}` is restored by __setstate__", True, "")
            elif a == "proposal":
                ini = ctx.fn(tables.NS + ".initialise")
                sa = SelfAttrs(prog, prog.cls(tables.NS))
                w = "proposal" in sa.writes(ini)
                nd = sa.needs(ini, "proposal")
                ctx.ob("R-PICKLE", "C12.1", ini, "dropped `proposal` (standard sampler) is re-assigned on every path through initialise() before it is read there", w and nd is None, f"must-write={w}; early read={nd and src(nd[1])[:80]}")
                run_ = ctx.fn(tables.FS + ".run_standard_sampler")
                ra = FA(run_)
                i1 = ra.find_calls("self.ns.initialise")
                i2 = ra.find_calls("self.ns.nested_sampling_loop")
                ctx.ob("R-ORDER", "C12.1", run_, "run() calls ns.initialise() before ns.nested_sampling_loop() on every path (re-attaches `proposal` after a resume)", len(i1) == 1 and len(i2) == 1 and ra.dominates(i1[0][0], i2[0][0]), "")
            else:
                ctx.ob("R-PICKLE", "C12.1", base_r, f"dropped sampler attribute `{a}` is re-attached by resume_from_pickled_sampler", a in stored, f"stores on `{recv}`: {sorted(stored)}")
    # resumed flag and model re-attachment happen before the subclass hooks use the model
    for cq, hook in ((tables.NS, "_flow_proposal.resume"), (tables.NS, "_uninformed_proposal.resume"), (tables.INS, "proposal.resume")):
        f = ctx.fn(cq + ".resume_from_pickled_sampler")
        fa = FA(f)
        sup = fa.find_expr(lambda e: isinstance(e, ast.Call) and isinstance(e.func, ast.Attribute) and e.func.attr == "resume_from_pickled_sampler")
        hk = fa.find_expr(lambda e, hook=hook: isinstance(e, ast.Call) and isinstance(e.func, ast.Attribute) and isinstance(e.func.value, ast.Attribute) and isinstance(e.func.value.value, ast.Name) and f"{e.func.value.attr}.{e.func.attr}" == hook)
        ctx.ob("R-ORDER", "C12.1", f, f"<sampler>.{hook}(model, ...) runs after the base class re-attached the model, on every path", len(sup) == 1 and len(hk) == 1 and fa.dominates(sup[0][0], hk[0][0]) and fa.on_every_normal_path(hk[0][0]) and src(hk[0][1].args[0]) == "model", f"`{src(hk[0][1]) if hk else None}`")

    # ---- proposals / flow models: must-write-before-read on the receiver -------
    def check_receiver(cq, entry, subclasses=True):
        c0 = prog.cls(cq)
        dropped, nulled, added, extras = effects[cq]
        restored = setstate_restores(prog, c0)
        for c in [c0] + (prog.subclasses(c0) if subclasses else []):
            own = c.methods.get("__getstate__")
            if own is not None and c is not c0:
                continue  # has its own rule instance
            sa = SelfAttrs(prog, c)
            e = prog.find_method(c, entry)
            ctx.require(e is not None, f"{c.qual}: resume entry {entry} not found")
            ctx.analysed_functions.add(e.qual)
            for a in sorted((dropped | set(nulled)) - (set(added) - set(nulled)) - {k for k in added if k in nulled and k not in dropped}):
                if a in restored:
                    ctx.ob("R-PICKLE", "C12.1", c.qual + ".__setstate__", f"`{a}` restored by __setstate__", True, "")
                    continue
                if a in ("initialised",):
                    continue  # flag deliberately reset; re-initialisation is checked through the attributes it rebuilds
                if (cq, a) in LAZY:
                    fn_name, why = LAZY[(cq, a)]
                    rb = prog.find_method(c, fn_name)
                    ok = rb is not None and any(isinstance(n, ast.Attribute) and n.attr == a and isinstance(n.ctx, ast.Store) for n in ast.walk(rb.node))
                    ctx.ob("R-PICKLE", "C12.1", c.qual, f"`{a}` (nulled in the pickle) is rebuilt lazily by {fn_name}()", ok, why)
                    continue
                writes = a in sa.writes(e)
                if a in nulled:
                    # present but None in the pickle: reading it cannot fail; it must be rebuilt by the entry point
                    # ... unless it is nulled only in configurations in which nothing reads it before it is assigned again
                    opts_ = NULL_GUARDS.get((prog.find_method(c, "__getstate__").qual, a), set()) if prog.find_method(c, "__getstate__") is not None else set()
                    cond_ok, cond_why = (False, "")
                    if not writes and opts_:
                        cond_ok, cond_why = _reads_guarded_by(prog, c, a, opts_)
                    ctx.ob("R-PICKLE", "C12.1", c.qual, f"`{a}` (None in the pickle) is rebuilt by {entry}() on every path", writes or cond_ok, cond_why if opts_ else "")
                    continue
                wit = sa.needs(e, a)
                ok = wit is None and writes
                ctx.ob("R-PICKLE", "C12.1", c.qual, f"`{a}` (dropped by __getstate__) is written by {entry}() before anything on that path reads it", ok,
                       (f"read before write at {wit[0].qual}: `{src(wit[1])[:90]}`" if wit else "") + ("" if writes else f" {entry}() does not assign `{a}` on every path"))

    check_receiver(tables.PROPOSAL, "resume", subclasses=False)
    for cq in (tables.ANALYTIC, tables.REJECTION):
        c = prog.cls(cq)
        sa = SelfAttrs(prog, c)
        e = prog.find_method(c, "resume")
        ctx.ob("R-PICKLE", "C12.1", c.qual, "`model` (dropped by Proposal.__getstate__) is written by resume() before it is read", sa.needs(e, "model") is None and "model" in sa.writes(e), "")
    check_receiver(tables.FP, "resume")
    check_receiver(tables.IFP, "resume")
    check_receiver(tables.IFM, "resume")
    # lazily rebuilt: populate() calls prep_latent_prior() before draw_latent_prior()
    pop = ctx.fn(tables.FP + ".populate")
    pa = FA(pop)
    prep = pa.find_calls("self.prep_latent_prior")
    draws = pa.find_calls("self.draw_latent_prior")
    ctx.ob("R-ORDER", "C12.1", pop, "populate(): prep_latent_prior() dominates every draw_latent_prior()", len(prep) == 1 and draws and all(pa.dominates(prep[0][0], d[0]) for d in draws), "")
    readers = [f.short for f in prog.all_functions if f.cls is not None and prog.cls(tables.FP) in prog.mro(f.cls) and any(isinstance(n, ast.Attribute) and n.attr == "_draw_func" and isinstance(n.ctx, ast.Load) for n in ast.walk(f.node))]
    ctx.ob("R-PICKLE", "C12.1", tables.FP, "`_draw_func` is read only by draw_latent_prior()", set(r.split(".")[-1] for r in readers) <= {"draw_latent_prior"}, f"readers {readers}")
    # FlowModel itself is never unpickled on the standard resume path: FlowProposal drops `flow`
    ctx.ob("R-PICKLE", "C12.1", tables.FP + ".__getstate__", "the standard proposal drops its FlowModel and rebuilds it in initialise() (weights re-loaded from file)", "flow" in effects[tables.FP][0] and "flow" in SelfAttrs(prog, prog.cls(tables.FP)).writes(prog.fn(tables.FP + ".initialise")), "")
    # OrderedSamples.log_q
    os_d, os_n, os_a, _ = effects[tables.OS_]
    ir = ctx.fn(tables.INS + ".resume_from_pickled_sampler")
    ira = FA(ir)
    hk = ira.find_expr(lambda e: isinstance(e, ast.Call) and isinstance(e.func, ast.Attribute) and e.func.attr == "resume" and isinstance(e.func.value, ast.Attribute) and e.func.value.attr == "proposal")
    for store in ("training_samples.log_q", "iid_samples.log_q"):
        st = ira.find(lambda s: isinstance(s, ast.Assign) and any(src(x).endswith("." + store) for t in s.targets for x in ast.walk(t) if isinstance(x, ast.Attribute)))
        from ..rules import samestore as _ss12

        prod_ = [c_ for f_, s_, store_, c_, i_ in _ss12.sites(prog) if f_.qual == ir.qual and st and s_ is ira.stmt(st[0])]
        ok = len(st) == 1 and hk and ira.dominates(hk[0][0], st[0]) and len(prod_) == 1 and prod_[0] is not None and isinstance(prod_[0].func, ast.Attribute) and prod_[0].func.attr == "compute_meta_proposal_samples"
        guards = [src(e) for e, t in (ira.guards(st[0]) if st else []) if t is True]
        ctx.ob("R-PICKLE", "C12.1", ir, f"`<sampler>.{store}` (None in the pickle unless save_log_q) is recomputed from the re-loaded proposal when it is None", ok and any(g_.endswith(store + " is None") for g_ in guards), f"guards {guards}")
    from ..rules import samestore

    for site in [x for x in samestore.sites(prog) if x[0] is ir]:
        ok_, why_ = samestore.check(site)
        ctx.ob("R-PICKLE", "C12.1", ir, f"on resume the density table of `{site[2].split('.')[-1]}` is recomputed at the samples of that same store", ok_, why_, node=site[1])
    ctx.ob("R-PICKLE", "C12.1", tables.OS_ + ".__getstate__", "log_q is pickled iff save_log_q, else None (never silently dropped)", "log_q" in os_d and ("log_q" in os_a or "log_q" in os_n) and _key_on_every_path(prog.cls(tables.OS_).methods["__getstate__"], "log_q"), f"dropped {sorted(os_d)} nulled {os_n} added {sorted(os_a)}")
    # Model is never taken from the pickle
    for cq in (tables.BASE, tables.INS, tables.PROPOSAL, tables.FP, tables.IFP):
        ctx.ob("R-PICKLE", "C12.1", cq + ".__getstate__", "the user model is excluded from the pickle (re-supplied on resume)", "model" in effects[cq][0], "")
    ctx.floor("C12.1", 40)

    # ---- pickle-only attributes are read only on the resume path ------------
    resume_fns = {tables.FP + ".resume", tables.NS + ".check_resume", tables.BASE + ".resume_from_pickled_sampler", tables.IFM + ".resume"}
    resume_quals = {prog.fn(q).qual for q in resume_fns}
    for cq in GETSTATE_CLASSES:
        c = prog.cls(cq)
        _, _, added, _ = effects[cq]
        for a in sorted(added):
            defs = prog.attr_defs(c).get(a, [])
            only_pickle = all("pickle key" in d for d in defs)
            if not only_pickle:
                continue
            readers = []
            fam = set([c] + prog.subclasses(c))
            for f in prog.all_functions:
                for n in walk_no_nested(f.node):
                    if isinstance(n, ast.Attribute) and n.attr == a and isinstance(n.ctx, ast.Load):
                        tys = res.expr_type(f, n.value)
                        if tys is None or (tys & fam) or any(set(prog.mro(t)) & fam for t in tys):
                            if tys is None and f.cls is not None and not (set(prog.mro(f.cls)) & fam):
                                # untyped receiver inside an unrelated class: only `self`-less locals; keep conservative
                                if isinstance(n.value, ast.Name) and n.value.id == "self":
                                    continue
                            readers.append(f)
            readers = sorted({f.qual for f in readers})
            ctx.ob("R-PICKLE", "C12.2", cq, f"pickle-only attribute `{a}` is read only on the resume path", set(readers) <= resume_quals, f"readers {readers}")
            ctx.ob("R-PICKLE", "C12.2", cq, f"pickle-only attribute `{a}` that the resume path reads is written by __getstate__ on every path", _key_on_every_path(c.methods["__getstate__"], a), "")
    ks = [{k for k in effects[cq][2] if k.startswith("_previous_")} for cq in (tables.BASE, tables.INS)]
    reads = {n.attr for n in walk_no_nested(base_r.node) if isinstance(n, ast.Attribute) and n.attr.startswith("_previous_")}
    ctx.ob("R-SIB", "C12.2", base_r, "both sampler __getstate__ implementations write exactly the `_previous_*` keys the resume path reads", ks[0] == ks[1] == reads and len(reads) == 2, f"base {sorted(ks[0])}; INS {sorted(ks[1])}; read {sorted(reads)}")
    ctx.floor("C12.2", 6)

    # ---- cumulative counters -------------------------------------------------
    for n in walk_no_nested(base_r.node):
        if isinstance(n, (ast.Assign, ast.AugAssign)):
            tg = n.targets[0] if isinstance(n, ast.Assign) else n.target
            if isinstance(tg, ast.Attribute) and tg.attr in ("likelihood_evaluations", "likelihood_evaluation_time"):
                inl_br = single_assignments(base_r.node)
                val_ = n.value
                for _ in range(3):
                    if isinstance(val_, ast.Name) and val_.id in inl_br:
                        val_ = inl_br[val_.id]
                ok = isinstance(n, ast.AugAssign) and isinstance(n.op, ast.Add) and f"_previous_{tg.attr}" in src(val_)
                ctx.ob("R-WRITERS", "C12.3", base_r, f"model.{tg.attr} is augmented (+=) with the pickled count on resume, not assigned", ok, f"`{src(n)[:100]}`", node=n)
    from ..q import attr_stores

    for f, n, kind in attr_stores(prog, "sampling_time"):
        if f.cls is not None and prog.cls(tables.BASE) in prog.mro(f.cls):
            par = _enclosing_stmt(f.node, n)
            ok = (f.name == "__init__" and isinstance(par, ast.Assign)) or (isinstance(par, ast.AugAssign) and isinstance(par.op, ast.Add))
            ctx.ob("R-WRITERS", "C12.3", f, "sampling_time is only initialised in __init__ and augmented afterwards (never reset)", ok, f"`{src(par)[:80]}`", node=n)
    ck = ctx.fn(tables.BASE + ".checkpoint")
    cka = FA(ck)
    aug = cka.find(lambda s: isinstance(s, ast.AugAssign) and is_self_attr(s.target, "sampling_time"))
    dump = cka.find_calls("safe_file_dump")
    refresh = cka.find(lambda s: isinstance(s, ast.Assign) and any(is_self_attr(t, "sampling_start_time") for t in s.targets))
    ctx.ob("R-ORDER", "C12.3", ck, "checkpoint: elapsed time is added before pickling and the start time refreshed after it (no interval is counted twice within a process)", len(aug) == 1 and len(dump) == 1 and len(refresh) == 1 and cka.dominates(aug[0], dump[0][0]) and cka.dominates(aug[0], refresh[0]) and cka.cfg.can_follow(dump[0][0], refresh[0]) and not cka.cfg.can_follow(refresh[0], dump[0][0]) and cka.every_path_from_passes(aug[0], [refresh[0]]), "")
    # stale-after-unpickle: sampling_start_time is pickled before being refreshed, so every loop must re-assign it before the first checkpoint
    for cq in (tables.NS, tables.INS):
        lp = ctx.fn(cq + ".nested_sampling_loop")
        la = FA(lp)
        st = la.find(lambda s: isinstance(s, ast.Assign) and any(is_self_attr(t, "sampling_start_time") for t in s.targets))
        ckq = ck.qual
        bad = []
        for nid, c in la.find_expr(lambda e: isinstance(e, ast.Call)):
            tg = res.resolve_call(lp, c, count=False) or []
            if any(h.qual == ckq or (h.qual in g and ckq in nx.descendants(g, h.qual)) for h in tg):
                if not (st and la.dominates(st[0], nid)):
                    bad.append(src(c)[:60])
        ctx.ob("R-ORDER", "C12.3", lp, "the pickled (stale) sampling_start_time is re-assigned before the first call that can checkpoint", bool(st) and not bad,
               "no assignment to self.sampling_start_time in the loop; the first checkpoint after a resume adds the downtime since the pickle was written" if not st else f"calls not dominated: {bad}")
    ctx.floor("C12.3", 6)

    # ---- definedness on the resume call tree -----------------------------------
    roots = [prog.fn(q).qual for q in (tables.NS + ".resume_from_pickled_sampler", tables.INS + ".resume_from_pickled_sampler", tables.BASE + ".resume", tables.FS + "._resume_from_file", tables.FS + "._resume_from_data", tables.NS + ".check_resume")]
    reach = set()
    for r in roots:
        reach |= {r} | nx.descendants(g, r)
    fns = [prog.functions[q] for q in sorted(reach) if q in prog.functions]
    from .C20 import undef_reviewed

    n_un = 0
    for f, name, x in undef.scan(prog, fns):
        if undef_reviewed(f, name) is not None:
            continue
        n_un += 1
        ctx.ob("R-UNDEF", "C12.4", f, "every local is bound on every path of the resume call tree", False, f"`{name}` read at {f.loc(x)} on a path where it is unbound", node=x)
    ctx.ob("R-UNDEF", "C12.4", "nessai", "definite-assignment analysis over every function reachable from the resume entry points", True, f"{len(fns)} functions analysed, {n_un} reports")
    # every attribute read on a typed receiver in the resume call tree is defined (incl. pickle keys)
    from ..rules import attr as attr_rule

    def ob_attr(f, node, recv, a, ok, detail):
        ctx.ob("R-ATTR", "C12.4", f, f"resume path reads {recv}.{a}", ok, detail, node=node)

    attr_rule.scan(prog, fns, ob_attr)
    ctx.extra["resume_call_tree_functions"] = len(fns)
    ctx.require(len(fns) >= 60, f"resume call tree unexpectedly small ({len(fns)} functions)")
    # ---- C12.6 fixed-width batching covers every row (R-COVER) ----------------------------------------------------------
    # a density table that is evaluated / re-derived in batches must evaluate the last partial batch as well: rows that
    # are skipped keep the buffer's initial value, which is finite and plausible, so nothing fails
    from ..rules import cover as _cover
    ctx.require(_cover.self_check(), "R-COVER fixtures: the floor-division batching example is not reported / the rounding-up twin is")
    n_loops_, cov_ = _cover.scan(prog)
    ctx.ob("R-COVER", "C12.6", "nessai", f"every `for j in range(K)` loop over fixed-width slices [j*B:(j+1)*B] was examined ({n_loops_} for-loops in the package, {len(cov_)} batching loops; fixtures re-decided)", True, "")
    for f_, loop_, ok_, why_ in cov_:
        ctx.ob("R-COVER", "C12.6", f_, "fixed-width batches cover the whole array (the number of batches rounds up, or the remainder is processed)", ok_, why_, node=loop_)
    lpa_ = ctx.fn(tables.IFM + ".log_prob_all")
    st_ = [s_ for s_ in walk_no_nested(lpa_.node) if isinstance(s_, ast.Assign) and isinstance(s_.targets[0], ast.Subscript) and isinstance(s_.targets[0].slice, ast.Tuple) and len(s_.targets[0].slice.elts) == 2]
    full_ = [s_ for s_ in st_ if isinstance(s_.targets[0].slice.elts[0], ast.Slice) and s_.targets[0].slice.elts[0].lower is None and s_.targets[0].slice.elts[0].upper is None]
    ctx.ob("R-COVER", "C12.6", lpa_, "log_prob_all fills one column per saved flow: whole columns at once, or in batches decided above", bool(st_) and (len(full_) == len(st_) or any(f_ is lpa_ for f_, _l, _o, _w in cov_)), f"{[src(s_)[:60] for s_ in st_]}")
    ctx.floor("C12.6", 2)
    # ---- C12.7 a resumed loop does not repeat the bookkeeping of the checkpointed iteration ------------------------------
    # update_state records the history row of the current iteration and then (last statement) writes the periodic
    # checkpoint, so the pickle already contains that row; a call of update_state on loop entry, before the first
    # consume_sample of the resumed loop, records the same iteration a second time
    nl_ = ctx.fn(tables.NS + ".nested_sampling_loop")
    nla_ = FA(nl_)
    us_ = nla_.find_calls("self.update_state")
    cs_ = nla_.find_calls("self.consume_sample")
    ctx.require(len(cs_) == 1 and us_, "NestedSampler.nested_sampling_loop: consume_sample / update_state calls not found")
    ust_ = ctx.fn(tables.NS + ".update_state")
    usa_ = FA(ust_)
    ck_ = usa_.find_calls("self.checkpoint")
    hist_ = usa_.find_calls("self.update_history")
    ctx.ob("R-ORDER", "C12.7", ust_, "update_state records the history before it writes the periodic checkpoint (the pickle contains the row of its own iteration)", len(ck_) == 1 and len(hist_) == 1 and usa_.cfg.can_follow(hist_[0][0], ck_[0][0]) and not usa_.cfg.can_follow(ck_[0][0], hist_[0][0]), "")
    for nid_, c_ in us_:
        where_ = "inside the sampling loop" if nla_.cfg.in_loop(nid_) else "outside the sampling loop"
        ctx.ob("R-ORDER", "C12.7", nl_, f"the per-iteration bookkeeping (update_state: history row, checkpoint) called {where_} runs only after a sample was consumed in this call of nested_sampling_loop - not on entry of a resumed loop", nla_.dominates(cs_[0][0], nid_), f"`{src(c_)}` under {[(src(e_)[:30], t_) for e_, t_ in guard_facts(nla_, nid_)]}", node=c_)
    ctx.floor("C12.7", 3)
    # ---- C12.8 a resumed run does not rewind the random streams (shared with C14.2)
    from .C14 import seed_once_rule as _sor
    _sor(ctx, "C12.8")
    ctx.floor("C12.8", 1)

    # ---- C12.9 resuming does not run the state-changing methods of the pickled reparameterisations -----------------------
    # the reparameterisations are pickled with everything they learned from the live points (bounds, offsets, detected
    # inversion edges, prime-prior bounds); update() / reset() / reset_inversion() recompute or clear part of that state and
    # rely on the next training to re-detect the rest, so on the resume path (`initialise(resumed=True)` of an initialised
    # proposal) nothing may reach them - unless their state is saved before and written back afterwards
    import networkx as _nx9
    from ..callgraph import callgraph as _cg9

    g9, _u9 = _cg9(prog)
    mut9 = set()
    for f_ in prog.all_functions:
        if f_.cls is None or not (f_.module.name.startswith("nessai.reparameterisations") or f_.module.name == "nessai.gw.reparameterisations"):
            continue
        if f_.name in ("__init__",) or f_.is_property:
            continue
        stores_ = any(isinstance(n_, ast.Attribute) and isinstance(n_.ctx, ast.Store) and isinstance(n_.value, ast.Name) and n_.value.id == "self" for n_ in walk_no_nested(f_.node))
        if f_.name in ("update", "reset", "reset_inversion", "update_bounds", "set_bounds", "update_prime_prior_bounds", "reset_offsets", "set_offsets") and (stores_ or f_.cls.name == "CombinedReparameterisation"):
            mut9.add(f_.qual)
    ctx.require(len(mut9) >= 4, f"only {len(mut9)} state-changing reparameterisation methods found")
    n9 = 0
    fpc9 = prog.cls(tables.FP)
    for k_ in [fpc9] + prog.subclasses(fpc9):
        ini9 = k_.methods.get("initialise")
        if ini9 is None:
            continue
        fa9 = FA(ini9)
        for nid_, c_ in fa9.find_expr(lambda e_: isinstance(e_, ast.Call)):
            tg_ = res.resolve_call(ini9, c_, count=False) or []
            reach_ = any(h_.qual in mut9 or (h_.qual in g9 and _nx9.descendants(g9, h_.qual) & mut9) for h_ in tg_)
            sets_ = any(isinstance(h_, FunctionInfo) and any(isinstance(n_, ast.Attribute) and n_.attr == "_reparameterisation" and isinstance(n_.ctx, ast.Store) for n_ in ast.walk(h_.node)) for h_ in tg_)
            if not (reach_ or sets_):
                continue
            n9 += 1
            facts_ = guard_facts(fa9, nid_)
            fresh_ = _excludes_resume_path(facts_) or any((canon(e_) in ("resumed",) and t_ is False) or (canon(e_) in ("self.initialised", "self._initialised") and t_ is False) or (t_ is True and canon(e_) in ("not resumed or not self.initialised", "not self.initialised or not resumed", "not (resumed and self.initialised)", "not (self.initialised and resumed)")) for e_, t_ in facts_)
            ok9 = fresh_ or _state_saved_around(ini9, fa9.stmt(nid_))
            ctx.ob("R-PICKLE", "C12.9", ini9, "a call that can change the state of the reparameterisations runs only when the proposal is initialised afresh (not on the resume path), or inside a save / restore of that state", ok9, f"`{src(c_)[:60]}` under {[(src(e_)[:40], t_) for e_, t_ in facts_]}", node=c_)
    ctx.require(n9 >= 2, f"only {n9} state-changing calls found in FlowProposal.initialise (set_rescaling / verify_rescaling expected)")
    ctx.floor("C12.9", 2)
    ctx.assumptions += ["pickle restores every attribute not named in __getstate__ bit-for-bit", "observational equality of result-bearing fields after resume is not decided (needs a run)"]


def _key_on_every_path(gs, key):
    fa = FA(gs)
    st = fa.find(lambda s: isinstance(s, ast.Assign) and any(isinstance(t, ast.Subscript) and const(t.slice, key) for t in s.targets))
    if not st:
        return False
    return fa.cfg.every_exit_path_passes(fa.cfg.entry, st)


def _enclosing_stmt(fnode, node):
    best = None
    for s in ast.walk(fnode):
        if isinstance(s, ast.stmt):
            for x in ast.walk(s):
                if x is node:
                    if best is None or (s.lineno >= best.lineno):
                        best = s
    return best


def _excludes_resume_path(facts):
    """Do the branch facts exclude `resumed and self.initialised`?  Each fact is evaluated as a Boolean expression over the
    two atoms with both set to True; a fact that mentions anything else is taken as satisfiable."""
    def ev(e):
        t = canon(e)
        if t in ("resumed", "self.initialised", "self._initialised"):
            return True
        if isinstance(e, ast.UnaryOp) and isinstance(e.op, ast.Not):
            v = ev(e.operand)
            return None if v is None else (not v)
        if isinstance(e, ast.BoolOp):
            vs = [ev(x) for x in e.values]
            if isinstance(e.op, ast.And):
                return False if any(v is False for v in vs) else (None if any(v is None for v in vs) else True)
            return True if any(v is True for v in vs) else (None if any(v is None for v in vs) else False)
        return None

    for e, t in facts:
        v = ev(e)
        if v is not None and v != t:
            return True
    return False


CLAIM = {
    "text": "Decides pickle coverage for all nine classes with a custom __getstate__: the set of attributes each drops, nulls or adds is extracted from the source, and an interprocedural must-write-before-read analysis on the receiver (following self.m(), super().m(), property getters/setters) proves that each dropped attribute is re-established by the resume entry point (or __setstate__, or a reviewed lazy rebuilding site whose ordering is itself checked) before anything on that path reads it - for every in-package subclass that inherits the entry point. Also decides: pickle-only attributes (mask, weights_file, resume_populated, _previous_*) are written on every __getstate__ path and read only on the resume path; evaluation counters/times are augmented not assigned; sampling_time is never reset; every sampling loop refreshes the stale pickled start time before the first checkpoint (found missing in the importance sampler: repaired); no local in the ~100-function resume call tree can be unbound (found in FlowProposal.resume: repaired). On resume the density table of each INS store is recomputed at the samples of that same store. In every __getstate__ of the package (reviewed or new) an existing attribute is pickled with its live value, dropped, nulled or flag-reset, never replaced by a different value; for classes outside the reviewed table whatever is dropped must be re-assigned by __setstate__ / resume(). Density tables re-derived in batches cover every row (R-COVER, C12.6). Nothing on the resume path of FlowProposal.initialise reaches a state-changing method of the pickled reparameterisations, unless inside a save / write-back of their state (C12.9).",
    "note": "Does not decide observational equality of the restored state (needs a run), float32 agreement of recomputed densities, or multi-kill histories beyond C11/C13. Trusted: pickle round-trips attributes that __getstate__ keeps.",
}


_B = "nessai/samplers/base.py"
_NS = "nessai/samplers/nestedsampler.py"
_INS = "nessai/samplers/importancesampler.py"
_FPF = "nessai/proposal/flowproposal.py"
_PB = "nessai/proposal/base.py"
MUTANTS = [
    {"id": "reverify-on-resume", "file": "nessai/proposal/flowproposal.py", "old": "            self.configure_constant_volume()\n        self.update_flow_config()", "new": "            self.configure_constant_volume()\n        else:\n            self.verify_rescaling()\n        self.update_flow_config()", "expect": "change the state of the reparameterisations"},
    {"id": "resume-table-from-other-store", "file": _INS, "old": "            ) = obj.proposal.compute_meta_proposal_samples(\n                obj.training_samples.samples\n            )", "new": "            ) = obj.proposal.compute_meta_proposal_samples(obj.samples_unit)", "expect": "recomputed at the samples of that same store"},
    {"id": "weights-file-key-not-pickled", "file": _FPF, "old": '        state["weights_file"] = getattr(\n            state.get("flow"), "weights_file", None\n        )\n', "new": "", "expect": "weights_file"},
    {"id": "proposal-not-reattached", "file": _NS, "old": "        else:\n            self.proposal = self._flow_proposal\n\n        if live_points and", "new": "        else:\n            pass\n\n        if live_points and", "expect": "dropped `proposal`"},
    {"id": "model-not-reattached", "file": _PB, "old": '        Resume the proposal with the model\n        """\n        self.model = model\n', "new": '        Resume the proposal with the model\n        """\n        pass\n', "expect": "`model`"},
    {"id": "initialise-before-config", "file": _FPF, "edits": [(_FPF, "        self.initialise(resumed=True)\n\n        if weights_file is None:", "        if weights_file is None:"), (_FPF, "        super().resume(model)\n        self.flow_config = flow_config\n", "        super().resume(model)\n        self.initialise(resumed=True)\n        self.flow_config = flow_config\n")], "expect": "`_flow_config`"},
    {"id": "counter-assigned-not-augmented", "file": _B, "old": "        model.likelihood_evaluations += (\n            sampler._previous_likelihood_evaluations\n        )", "new": "        model.likelihood_evaluations = (\n            sampler._previous_likelihood_evaluations\n        )", "expect": "model.likelihood_evaluations is augmented"},
    {"id": "ins-stale-start-time", "file": _INS, "old": "        self.sampling_start_time = datetime.datetime.now()\n        self.initialise()\n", "new": "        self.initialise()\n", "expect": "stale"},
    {"id": "ns-stale-start-time", "file": _NS, "old": "        self.sampling_start_time = datetime.datetime.now()\n        if not self.initialised:", "new": "        if not self.initialised:", "expect": "stale"},
    {"id": "sampling-time-reset", "file": _B, "old": "        self.sampling_time += now - self.sampling_start_time\n", "new": "        self.sampling_time = now - self.sampling_start_time\n", "expect": "sampling_time is only initialised"},
    {"id": "previous-key-mismatch", "file": _INS, "old": '            state["_previous_likelihood_evaluations"] = d[\n                "model"\n            ].likelihood_evaluations', "new": '            state["_previous_evaluations"] = d[\n                "model"\n            ].likelihood_evaluations', "expect": "_previous_"},
    {"id": "log-q-silently-dropped", "file": _INS, "old": '        else:\n            state["log_q"] = None\n        return state', "new": "        return state", "expect": "log_q is pickled iff save_log_q"},
    {"id": "log-q-recomputed-before-flows-loaded", "file": _INS, "edits": [(_INS, "        obj.proposal.resume(model, flow_config, weights_path=weights_path)\n\n        if obj.training_samples.log_q is None:", "        if obj.training_samples.log_q is None:"), (_INS, '        logger.info("Finished resuming sampler")\n', '        obj.proposal.resume(model, flow_config, weights_path=weights_path)\n        logger.info("Finished resuming sampler")\n')], "expect": "log_q"},
    {"id": "unbound-on-resume-path", "file": _FPF, "old": "                m = np.array(self.mask)\n            else:\n                m = self.mask\n", "new": "                m = np.array(self.mask)\n", "expect": "every local is bound"},
    {"id": "flow-pickled-with-proposal", "file": _FPF, "old": '        del state["flow"]\n', "new": "", "expect": "drops its FlowModel"},
    {"id": "setstate-forgets-iid", "file": _INS, "old": "        self.iid_samples = state[3]\n", "new": "", "expect": "__setstate__"},
]
