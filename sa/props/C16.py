"""C16 - posterior resampling follows the posterior weights."""

import ast
from fractions import Fraction

from .. import AnalysisError
from ..canon import canon, single_assignments
from ..deg import DegChecker, TOP
from ..pm import src
from ..q import FA, call_name, compare_parts, guard_facts, walk_no_nested
from ..pat import find_expr, find_stmt, match_expr, match_stmt

TECHNIQUE = "def-use on the returned samples/indices, structural match of the two resampling branches against the statement (R-SIB), shift-degree typing of the three effective-sample-size implementations (R-DEG); log-space algebra (sa/lsa.py) on path summaries; R-ALIAS"


def stmts_in_order(node):
    return sorted([x for x in walk_no_nested(node) if isinstance(x, ast.stmt)], key=lambda x: (x.lineno, x.col_offset))


def run(ctx):
    prog = ctx.prog
    f = ctx.fn("nessai.posterior:draw_posterior_samples")
    ns = f.params()[0]
    from .. import lsa
    from ..summ import summarise as _summ, guard_texts as _gt
    from ..q import norm_args, conjuncts

    try:
        paths = [pa for pa in _summ(f.node, max_paths=400)]
    except ValueError as e_:
        raise AnalysisError(f"draw_posterior_samples: {e_} (ANALYSIS-INCOMPLETE)")
    def _feasible(pa):
        # `X is None` where X is the result of a numpy call (never None), or the literal None tested against None
        for t_, tr_ in pa.guards:
            for e_, v_ in conjuncts(t_, tr_):
                if isinstance(e_, ast.Compare) and len(e_.ops) == 1 and isinstance(e_.ops[0], (ast.Is, ast.IsNot)) and isinstance(e_.comparators[0], ast.Constant) and e_.comparators[0].value is None:
                    is_none_ = v_ if isinstance(e_.ops[0], ast.Is) else (not v_)
                    l_ = e_.left
                    if isinstance(l_, ast.Constant) and l_.value is None and not is_none_:
                        return False
                    if isinstance(l_, ast.Call) and src(l_.func).split(".")[0] in ("np", "numpy") and is_none_:
                        return False
        return True

    paths = [pa for pa in paths if _feasible(pa)]
    rpaths = [pa for pa in paths if pa.end == "return"]
    ctx.require(len(rpaths) >= 4, "draw_posterior_samples: fewer than four returning paths (two methods x return_indices)")

    def lits(pa):
        out = {}
        for t_, tr_ in pa.guards:
            for e_, v_ in conjuncts(t_, tr_):
                out[canon(e_)] = v_
        return out

    def is_w(e_):
        # the weight vector: the caller's log_w, or the second result of compute_weights when none was given
        t_ = src(e_)
        return t_ == "log_w" or (isinstance(e_, ast.Subscript) and isinstance(e_.value, ast.Call) and src(e_.value.func).split(".")[-1] == "compute_weights" and isinstance(e_.slice, ast.Constant) and e_.slice.value == 1)

    N_OK = {f"{ns}.size", f"len({ns})", f"{ns}.shape[0]"}

    def count_ok(e_, mask_=None):
        if canon(e_) in N_OK:
            return True
        if mask_ is None:
            return False
        m_ = canon(mask_)
        # the number of samples kept by the mask
        if canon(e_) in (f"sum({m_})", f"count_nonzero({m_})", f"{m_}.sum()", f"len(flatnonzero({m_}))", f"flatnonzero({m_}).size"):
            return True
        v_ = e_.value if isinstance(e_, ast.Attribute) and e_.attr == "size" else (e_.args[0] if isinstance(e_, ast.Call) and canon(e_.func) == "len" and len(e_.args) == 1 else (e_.value.value if isinstance(e_, ast.Subscript) and isinstance(e_.value, ast.Attribute) and e_.value.attr == "shape" and isinstance(e_.slice, ast.Constant) and e_.slice.value == 0 else None))
        return isinstance(v_, ast.Subscript) and canon(v_.value) == ns and canon(v_.slice) == m_

    def is_w_(e_):
        while isinstance(e_, ast.Call) and src(e_.func).split(".")[-1] in ("asarray", "array", "asanyarray") and e_.args:
            e_ = e_.args[0]
        return is_w(e_)

    def unmask(ie_):
        """indices drawn among the samples kept by a mask M and mapped back, `flatnonzero(M)[sub]`: (sub, M).  M must keep
        every sample of non-zero weight (isfinite(w), ~isneginf(w), w > -inf): the normalisers (max, logsumexp) of the
        kept weights are then those of all weights."""
        if isinstance(ie_, ast.Subscript):
            b_ = ie_.value
            m_ = None
            if isinstance(b_, ast.Call) and src(b_.func).split(".")[-1] == "flatnonzero" and len(b_.args) == 1:
                m_ = b_.args[0]
            elif isinstance(b_, ast.Subscript) and isinstance(b_.slice, ast.Constant) and b_.slice.value == 0 and isinstance(b_.value, ast.Call) and src(b_.value.func).split(".")[-1] in ("where", "nonzero") and len(b_.value.args) == 1:
                m_ = b_.value.args[0]
            if m_ is not None:
                ok_ = False
                if isinstance(m_, ast.Call) and src(m_.func).split(".")[-1] == "isfinite" and len(m_.args) == 1 and is_w_(m_.args[0]):
                    ok_ = True
                elif isinstance(m_, ast.UnaryOp) and isinstance(m_.op, ast.Invert) and isinstance(m_.operand, ast.Call) and src(m_.operand.func).split(".")[-1] in ("isneginf", "isnan") and len(m_.operand.args) == 1 and is_w_(m_.operand.args[0]):
                    ok_ = True
                elif isinstance(m_, ast.Compare) and len(m_.ops) == 1 and isinstance(m_.ops[0], ast.Gt) and is_w_(m_.left) and canon(m_.comparators[0]) in ("-inf",):
                    ok_ = True
                if ok_:
                    return ie_.slice, m_
        return ie_, None

    def split_ret(pa):
        r_ = pa.ret
        if isinstance(r_, ast.Tuple) and len(r_.elts) == 2:
            return r_.elts[0], r_.elts[1]
        return r_, None

    # ---- C16.1: what is returned ------------------------------------------------------------------------------------
    n_pair = n_single = 0
    ok_sel = ok_same = True
    idx_exprs = {}
    for pa in rpaths:
        S_, I_ = split_ret(pa)
        if I_ is not None:
            n_pair += 1
        else:
            n_single += 1
        sel = isinstance(S_, ast.Subscript) and canon(S_.value) == ns
        ok_sel = ok_sel and sel
        if sel:
            idx_exprs[id(pa)] = S_.slice
            if I_ is not None:
                ok_same = ok_same and canon(I_) == canon(S_.slice)
    g0 = [lits(pa).get("return_indices") for pa in rpaths]
    ctx.ob("R-SIB", "C16.1", f, "the function returns exactly the selected samples (and their indices when asked)", n_pair >= 2 and n_single >= 2 and all((split_ret(pa)[1] is not None) == (lits(pa).get("return_indices") is True) for pa in rpaths), f"{n_pair} paths return (samples, indices), {n_single} return samples")
    ctx.ob("R-SIB", "C16.1", f, "on both branches the posterior samples are nested_samples[indices] for the returned indices", ok_sel and ok_same, "")
    ctx.ob("R-ORDER", "C16.1", f, "indices are computed before they are used to select the samples (same branch)", ok_sel and all(not any(isinstance(x_, ast.Name) and x_.id in ("indices",) for x_ in ast.walk(idx_exprs[k_])) for k_ in idx_exprs), "the selecting expression is fully determined by values computed earlier on the path")
    ctx.ob("R-ORDER", "C16.1", f, "every returning path has selected samples", ok_sel, "")
    ctx.ob("R-SIB", "C16.1", f, "every path that does not return raises (unknown method)", all(pa.end in ("return", "raise") for pa in paths), "")

    # ---- C16.2: how the indices are drawn -----------------------------------------------------------------------------
    rej = [pa for pa in rpaths if lits(pa).get("method == 'rejection_sampling'") is True]
    mul = [pa for pa in rpaths if lits(pa).get("method == 'rejection_sampling'") is False]
    ctx.require(rej and mul, "could not identify the rejection and multinomial branches")
    ok_cmp = ok_norm = ok_u = True
    seen_r = ""
    for pa in rej:
        ie = idx_exprs.get(id(pa))
        mask_ = None
        if ie is not None:
            ie, mask_ = unmask(ie)
        cmp_ = None
        if ie is not None:
            c_ = ie
            if isinstance(c_, ast.Subscript) and isinstance(c_.slice, ast.Constant) and c_.slice.value == 0 and isinstance(c_.value, ast.Call) and src(c_.value.func).split(".")[-1] in ("where", "nonzero") and len(c_.value.args) == 1:
                cmp_ = c_.value.args[0]
            elif isinstance(c_, ast.Call) and src(c_.func).split(".")[-1] == "flatnonzero" and len(c_.args) == 1:
                cmp_ = c_.args[0]
        seen_r = src(ie)[:110] if ie is not None else "None"
        if not (isinstance(cmp_, ast.Compare) and len(cmp_.ops) == 1 and isinstance(cmp_.ops[0], (ast.Gt, ast.GtE, ast.Lt, ast.LtE))):
            ok_cmp = ok_norm = ok_u = False
            continue
        big, small = (cmp_.left, cmp_.comparators[0]) if isinstance(cmp_.ops[0], (ast.Gt, ast.GtE)) else (cmp_.comparators[0], cmp_.left)
        ev = lsa.Eval(set(), is_vector=is_w)
        vb = ev.ev(big)
        ok_cmp = ok_cmp and vb[0] == "vec" and vb[1] == 1
        ok_norm = ok_norm and vb[0] == "vec" and vb[2] == {("M",): -1}
        u_ok = False
        if isinstance(small, ast.Call) and src(small.func).split(".")[-1] == "log" and len(small.args) == 1 and isinstance(small.args[0], ast.Call):
            u_ = small.args[0]
            nm_ = canon(u_.func)
            a_ = u_.args[0] if u_.args else next((k_.value for k_ in u_.keywords if k_.arg == "size"), None)
            u_ok = nm_ in ("random.rand", "random.uniform", "random.random", "random.random_sample") and a_ is not None and count_ok(a_, mask_) and (nm_ != "random.uniform" or not u_.args)
        ok_u = ok_u and u_ok
    ctx.ob("R-SIB", "C16.2", f, "rejection sampling keeps sample i iff its normalised log-weight exceeds log(U_i): indices = where(log_w > log_u)[0]", ok_cmp, f"`{seen_r}`")
    ctx.ob("R-SIB", "C16.2", f, "rejection branch normalises the log-weights by their maximum (max-weight sample always kept, -inf never)", ok_norm, f"`{seen_r}`")
    ctx.ob("R-SIB", "C16.2", f, "one independent uniform per nested sample: log_u = log(rand(nested_samples.size))", ok_u, f"`{seen_r}`")
    ok_m = ok_p = ok_n = ok_e = True
    seen_m = ""
    n_default = 0
    for pa in mul:
        ie = idx_exprs.get(id(pa))
        mask_ = None
        if ie is not None:
            ie, mask_ = unmask(ie)
        seen_m = src(ie)[:140] if ie is not None else "None"
        if not (isinstance(ie, ast.Call) and canon(ie.func) == "random.choice"):
            ok_m = ok_p = ok_n = False
            continue
        pos = list(ie.args)
        kw = {k_.arg: k_.value for k_ in ie.keywords}
        a_ = pos[0] if pos else kw.get("a")
        size_ = pos[1] if len(pos) > 1 else kw.get("size")
        repl_ = pos[2] if len(pos) > 2 else kw.get("replace")
        p_ = pos[3] if len(pos) > 3 else kw.get("p")
        ok_m = ok_m and a_ is not None and count_ok(a_, mask_) and (repl_ is None or (isinstance(repl_, ast.Constant) and repl_.value is True))
        ev = lsa.Eval(set(), is_vector=is_w)
        vp = ev.ev(p_) if p_ is not None else ("opaque", "")
        ok_p = ok_p and vp[0] == "exp" and vp[1][0] == "vec" and vp[1][1] == 1 and vp[1][2] == {("L", Fraction(1)): Fraction(-1)}
        if lits(pa).get("n is None") is True:
            n_default += 1
            vn = ev.ev(size_) if size_ is not None else ("opaque", "")
            ok_n = ok_n and vn == ("int", lsa.KISH)
        else:
            ok_n = ok_n and size_ is not None and src(size_) == "n"
    ctx.ob("R-SIB", "C16.2", f, "multinomial resampling: n draws with replacement over all nested samples with p = exp(normalised log-weights)", ok_m and ok_p, f"`{seen_m}`")
    ctx.ob("R-SIB", "C16.2", f, "multinomial branch normalises the log-weights to sum to one (logsumexp)", ok_p, f"`{seen_m}`")
    ctx.ob("R-SIB", "C16.2", f, "default number of draws is the integer part of the effective sample size", ok_n and n_default >= 1, f"{n_default} path(s) with n unset")
    ctx.ob("R-SIB", "C16.2", f, "that effective sample size is computed from the posterior log-weights", ok_n and n_default >= 1, "")
    from .C20_reg import _chain_ends_in_raise

    ctx.ob("R-SIB", "C16.2", f, "an unknown method is rejected", _chain_ends_in_raise(f, "method"), "")
    ctx.floor("C16.1", 5)

    # the importance sampler's wrapper hands the library function the caller's n unchanged - or, if it fills in a default
    # itself, the integer part of the ESS of the very weights it passes (the sampler's posterior_effective_sample_size is
    # that of the final samples whenever those exist, whatever is being resampled)
    wr = ctx.fn("nessai.samplers.importancesampler:ImportanceNestedSampler.draw_posterior_samples")
    n_w = 0
    ok_w = True
    seen_w = ""
    for pa in [x_ for x_ in _summ(wr.node, max_paths=400) if x_.end == "return"]:
        roots_ = [v_ for v_ in pa.env.values() if isinstance(v_, ast.AST)] + ([pa.ret] if pa.ret is not None else [])
        for r_ in roots_:
            for c_ in ast.walk(r_):
                if isinstance(c_, ast.Call) and src(c_.func).split(".")[-1] == "draw_posterior_samples" and not (isinstance(c_.func, ast.Attribute) and src(c_.func.value) == "self"):
                    kw_ = {k_.arg: k_.value for k_ in c_.keywords}
                    lw_ = kw_.get("log_w", c_.args[2] if len(c_.args) > 2 else None)
                    nn_ = kw_.get("n", c_.args[4] if len(c_.args) > 4 else None)
                    n_w += 1
                    if nn_ is None or (isinstance(nn_, ast.Name) and nn_.id == "n") or (isinstance(nn_, ast.Constant) and nn_.value is None):
                        continue
                    good_ = lw_ is not None and canon(nn_) in (f"int(effective_sample_size({canon(lw_)}))",)
                    if not good_:
                        ok_w, seen_w = False, f"n=`{src(nn_)[:60]}` with log_w=`{src(lw_)[:40] if lw_ is not None else None}`"
    ctx.ob("R-SIB", "C16.2", wr, "the sampler's wrapper passes the caller's n through, or the integer part of the ESS of the weights it resamples", ok_w and n_w >= 1, seen_w)
    ctx.floor("C16.2", 9)
    ess_rule(ctx, "C16.3")
    # the effective sample size is computed on the posterior log-weights handed out by a property: normalising or squaring
    # them in place is harmless only while every getter of that name returns a fresh array (a getter that caches its
    # result would hand the squared weights to the resampler next) - R-ALIAS, shared with C02.7 / C05.5
    from ..rules import alias as _alias

    ctx.require(_alias.self_check(), "R-ALIAS fixtures: the caching getter with an in-place consumer is not reported / the fresh twin is")
    for _f, _mod, _attr, _c, _ok, _why in _alias.scan(prog):
        ctx.ob("R-ALIAS", "C16.3", _f, f"the value of property `{_attr}` is modified in place only because every getter of that name returns a fresh object", _ok, _why, node=_mod)
    ctx.floor("C16.3", 7)
    ctx.assumptions += ["np.random.choice / np.where semantics; selection frequencies and ESS bounds are statistical / numeric and not decided"]


def ess_rule(ctx, clause, only=None):
    """Every effective-sample-size implementation of the package is the log-space Kish form (shared by C16.3 and C15.4)."""
    prog = ctx.prog
    # ---- ESS implementations ---------------------------------------------
    impls = [
        (ctx.fn("nessai.utils.stats:effective_sample_size"), "log_w"),
        (ctx.fn("nessai.evidence:_BaseNSIntegralState.effective_n_posterior_samples"), "log_p"),
        (ctx.fn("nessai.utils.stats:weighted_quantile"), "log_weights"),
    ]
    # every other function / property of the package that computes an effective sample size - overrides of the state's
    # property in particular - is either the same log-space form or a pure delegation to one of the implementations
    import re as _re
    fam_ = _re.compile(r"(^|_)(ess|neff)($|_)|effective_(n|sample)")
    known_ = {g_.qual for g_, _v in impls}
    for g_ in prog.all_functions:
        if g_.qual in known_ or not fam_.search(g_.name) or g_.is_setter or g_.is_abstract:
            continue
        rets_ = [r_ for r_ in walk_no_nested(g_.node) if isinstance(r_, ast.Return) and r_.value is not None]
        body_ = [s_ for s_ in g_.node.body if not (isinstance(s_, ast.Expr) and isinstance(s_.value, ast.Constant))]
        if len(body_) == 1 and isinstance(body_[0], ast.Raise):
            continue
        # a delegation: every return hands back another member of the family, and the body computes nothing itself
        # (it may select *which* state to ask: `state = self.final_state or self.state`)
        computes_ = any(isinstance(x_, (ast.BinOp, ast.AugAssign)) or (isinstance(x_, ast.Call) and not fam_.search((call_name(x_) or "").split(".")[-1])) for x_ in walk_no_nested(g_.node))
        deleg_ = bool(rets_) and not computes_ and all((isinstance(r_.value, ast.Attribute) and fam_.search(r_.value.attr)) or (isinstance(r_.value, ast.Call) and fam_.search((call_name(r_.value) or "").split(".")[-1])) for r_ in rets_)
        if deleg_:
            ctx.ob("R-SIB", clause, g_, "an effective-sample-size accessor only delegates to one of the Kish implementations", True, f"`{src(rets_[0])[:70]}`")
        else:
            var_ = next((p_ for p_ in g_.params() if "log" in p_ or p_.startswith("w")), "log_p")
            impls.append((g_, var_))
    from .. import lsa
    from ..summ import summarise as _summ

    for g, var in impls:
        if only is not None and g.name not in only:
            continue
        vecs = {var, "self.log_posterior_weights"} if g.name == "effective_n_posterior_samples" else {var}
        ess_like, reports, n_paths = [], [], 0
        try:
            paths = [pa for pa in _summ(g.node) if pa.end != "raise"]
        except ValueError as e_:
            raise AnalysisError(f"{g.short}: {e_} (ANALYSIS-INCOMPLETE)")
        for pa in paths:
            n_paths += 1
            ev = lsa.Eval(vecs, is_vector=lambda e_: isinstance(e_, ast.Call) and src(e_.func).split(".")[-1] in ("zeros", "ones", "full"))
            roots = [v_ for v_ in pa.env.values() if isinstance(v_, ast.AST)] + ([pa.ret] if pa.ret is not None else []) + [x_ for eff in pa.effects for x_ in eff[1:] if isinstance(x_, ast.AST)]
            seen = set()
            for r_ in roots:
                for c_ in ast.walk(r_):
                    if isinstance(c_, ast.Call) and src(c_.func).split(".")[-1] in ("exp", "effective_sample_size") and src(c_) not in seen:
                        seen.add(src(c_))
                        v_ = ev.ev(c_)
                        if v_[0] == "exp" and v_[1][0] == "sca" and any(k_[0] == "L" and k_[1] != 1 for k_ in v_[1][1]):
                            ess_like.append((c_, v_))
            reports += ev.reports
        bad = [(c_, v_) for c_, v_ in ess_like if not lsa.is_kish(v_)]
        ctx.ob("R-SIB", clause, g, "Kish effective sample size in log space: exp(-logsumexp(2 (w - logsumexp w)))", bool(ess_like) and not bad, f"{len(ess_like)} effective-sample-size expression(s) on {n_paths} path(s)" + (f"; `{src(bad[0][0])[:70]}` evaluates to {lsa.show(bad[0][1])} instead of exp(2*L1 - L2)" if bad else ""))
        ctx.ob("R-DEG", clause, g, "the effective sample size does not change when all log-weights are shifted (degree 0, no exp of a shift-dependent value)", bool(ess_like) and not reports and all(lsa.degree(v_) == 0 for _c, v_ in ess_like), f"reports {sorted(set(reports))[:2]}")


def _branch_body(fnode, stmt):
    for n in ast.walk(fnode):
        for fld in ("body", "orelse"):
            blk = getattr(n, fld, None)
            if isinstance(blk, list) and stmt in blk:
                return blk
    return []


CLAIM = {
    "text": "Decides the structural clauses of posterior resampling: on both branches the returned samples are nested_samples[indices] for the returned indices, on every returning path; the rejection branch normalises by the maximum weight, draws one uniform per nested sample and keeps i iff log_w_i is on the greater side of log U_i; the multinomial branch normalises with logsumexp and calls choice(size=n, p=exp(log_w), replace=True) over all nested samples with n defaulting to int(ESS of the same weights); unknown methods raise. The three Kish-ESS implementations canonicalise to exp(-logsumexp(2(w - logsumexp w))) and are typed shift-invariant (degree 0) by the shift-degree checker. The ESS rule enumerates by family name over the whole package, overrides through the class table included. The importance sampler's wrapper passes the caller's n through or the integer part of the ESS of the very weights it resamples (C16.2). Indices may be drawn among the samples kept by an isfinite-type mask of the weights and mapped back through flatnonzero(mask); the returned samples are still the caller's array at the returned indices.",
    "note": "Strictness of the rejection comparison is deliberately not an obligation (> and >= agree almost surely). Inclusion probabilities, selection frequencies and the bounds 1 <= ESS <= N are statistical / numeric and are not decided.",
}

_P = "nessai/posterior.py"
_S = "nessai/utils/stats.py"
MUTANTS = [
    {"id": "samples-not-from-indices", "file": _P, "old": "        indices = np.where(log_w > log_u)[0]\n        samples = nested_samples[indices]", "new": "        indices = np.where(log_w > log_u)[0]\n        samples = nested_samples[log_w > log_u - 1e-3]", "expect": "on both branches the posterior samples"},
    {"id": "rejection-flipped", "file": _P, "old": "np.where(log_w > log_u)[0]", "new": "np.where(log_w < log_u)[0]", "expect": "rejection sampling keeps sample i"},
    {"id": "rejection-sum-normalised", "file": _P, "old": "        log_w = log_w - np.max(log_w)\n", "new": "        log_w = log_w - logsumexp(log_w)\n", "expect": "by their maximum"},
    {"id": "rejection-single-uniform", "file": _P, "old": "np.log(np.random.rand(nested_samples.size))", "new": "np.log(np.random.rand())", "expect": "one independent uniform"},
    {"id": "multinomial-no-replacement", "file": _P, "old": "p=np.exp(log_w), replace=True", "new": "p=np.exp(log_w), replace=False", "expect": "multinomial resampling"},
    {"id": "multinomial-unnormalised", "file": _P, "old": "        log_w = log_w - logsumexp(log_w)\n        indices = np.random.choice(", "new": "        log_w = log_w - np.max(log_w)\n        indices = np.random.choice(", "expect": "sum to one"},
    {"id": "default-n-rounded-up", "file": _P, "old": "            n = int(ess)\n", "new": "            n = int(ess) + 1\n", "expect": "integer part of the effective sample size"},
    {"id": "ess-not-normalised", "file": _S, "old": "    log_w = np.array(log_w)\n    log_w -= logsumexp(log_w)\n", "new": "    log_w = np.array(log_w)\n", "expect": "C16.3"},
    {"id": "ess-state-wrong-power", "file": "nessai/evidence.py", "old": "        n = np.exp(-logsumexp(2 * log_p))\n", "new": "        n = np.exp(-logsumexp(log_p))\n", "expect": "Kish effective sample size"},
]
