"""C16 - posterior resampling follows the posterior weights."""

import ast
from fractions import Fraction

from ..canon import canon, single_assignments
from ..deg import DegChecker, TOP
from ..pm import src
from ..q import FA, call_name, compare_parts, guard_facts, walk_no_nested
from ..pat import find_expr, find_stmt, match_expr, match_stmt

TECHNIQUE = "def-use on the returned samples/indices, structural match of the two resampling branches against the statement (R-SIB), shift-degree typing of the three effective-sample-size implementations (R-DEG)"


def stmts_in_order(node):
    return sorted([x for x in walk_no_nested(node) if isinstance(x, ast.stmt)], key=lambda x: (x.lineno, x.col_offset))


def run(ctx):
    prog = ctx.prog
    f = ctx.fn("nessai.posterior:draw_posterior_samples")
    fa = FA(f)
    ns = f.params()[0]
    rets = [fa.stmt(r) for r in fa.find(lambda s: isinstance(s, ast.Return))]
    pair = [match_stmt("return $$S, $$I", r) for r in rets]
    pair = [b for b in pair if b is not None]
    ctx.require(len(pair) == 1, "draw_posterior_samples: `return samples, indices` not found")
    S, I = src(pair[0]["S"]), src(pair[0]["I"])
    single = [r for r in rets if match_stmt("return $$S", r, {"S": pair[0]["S"]}) is not None]
    ctx.ob("R-SIB", "C16.1", f, "the function returns exactly the selected samples (and their indices when asked)", len(rets) == 2 and len(single) == 1, f"{[src(r) for r in rets]}")
    samp = fa.find(lambda s: match_stmt(f"$$S = {ns}[$$I]", s, pair[0]) is not None)
    idxs = fa.find(lambda s: isinstance(s, ast.Assign) and len(s.targets) == 1 and src(s.targets[0]) == I)
    ctx.require(len(idxs) == 2, "draw_posterior_samples: expected two branches computing the indices")
    anyS = fa.find(lambda s: isinstance(s, ast.Assign) and any(src(t) == S for t in s.targets))
    ctx.ob("R-SIB", "C16.1", f, "on both branches the posterior samples are nested_samples[indices] for the returned indices", len(samp) == 2 and anyS == samp, f"{[fa.text(x) for x in anyS]}")
    for sid in samp:
        prev = [i for i in idxs if fa.dominates(i, sid)]
        ctx.ob("R-ORDER", "C16.1", f, "indices are computed before they are used to select the samples (same branch)", len(prev) >= 1, "")
    ctx.ob("R-ORDER", "C16.1", f, "every returning path has selected samples", fa.cfg.every_exit_path_passes(fa.cfg.entry, samp), "")

    # which branch is which
    rej = mul = None
    for iid in idxs:
        facts = [(src(e), t) for e, t in guard_facts(fa, iid)]
        if ("method == 'rejection_sampling'", True) in facts:
            rej = iid
        else:
            mul = iid
    ctx.require(rej is not None and mul is not None, "could not identify the rejection and multinomial branches")
    W = "log_w"  # parameter of the function
    rst = fa.stmt(rej)
    inl_f = single_assignments(f.node)
    unif = (f"log(random.rand({ns}.size))", f"log(random.uniform(size={ns}.size))", f"log(random.random({ns}.size))", f"log(random.random_sample({ns}.size))")
    # the comparison and the uniforms are read off the (inlined) index expression: locals may or may not be used
    b = next((m_ for op_ in (">", ">=") for m_ in [match_expr(f"where({W} {op_} $u)[0]", rst.value, inline=inl_f) if isinstance(rst, ast.Assign) else None] if m_ is not None), None)
    ctx.ob("R-SIB", "C16.2", f, "rejection sampling keeps sample i iff its normalised log-weight exceeds log(U_i): indices = where(log_w > log_u)[0]", b is not None, f"`{src(rst)}`", node=rst)
    body = _branch_body(f.node, rst)
    norm = [s_ for s_ in body if match_stmt(f"{W} = {W} - max({W})", s_) is not None or match_stmt(f"{W} = {W} - amax({W})", s_) is not None or match_stmt(f"{W} -= max({W})", s_) is not None]
    ctx.ob("R-SIB", "C16.2", f, "rejection branch normalises the log-weights by their maximum (max-weight sample always kept, -inf never)", len(norm) == 1 and norm[0].lineno < rst.lineno, f"`{src(norm[0]) if norm else None}`")
    oku = b is not None and any(match_expr(p_, b["u"]) is not None for p_ in unif)
    ctx.ob("R-SIB", "C16.2", f, "one independent uniform per nested sample: log_u = log(rand(nested_samples.size))", oku, f"`{src(b['u']) if b is not None else None}`")
    mst = fa.stmt(mul)
    okm = match_stmt(f"{I} = random.choice({ns}.size, size=n, p=exp({W}), replace=True)", mst) is not None
    ctx.ob("R-SIB", "C16.2", f, "multinomial resampling: n draws with replacement over all nested samples with p = exp(normalised log-weights)", okm, f"`{src(mst)}`", node=mst)
    body = _branch_body(f.node, mst)
    norm = [s_ for s_ in body if match_stmt(f"{W} = {W} - logsumexp({W})", s_) is not None or match_stmt(f"{W} -= logsumexp({W})", s_) is not None]
    ctx.ob("R-SIB", "C16.2", f, "multinomial branch normalises the log-weights to sum to one (logsumexp)", len(norm) == 1 and norm[0].lineno < mst.lineno, f"`{src(norm[0]) if norm else None}`")
    dn = [s_ for s_ in body if isinstance(s_, ast.If) and canon(s_.test) == "n is None"]
    eb = match_stmt("n = int($$e)", dn[0].body[0]) if len(dn) == 1 and len(dn[0].body) == 1 else None
    okn = eb is not None and not dn[0].orelse and dn[0].lineno < mst.lineno
    ctx.ob("R-SIB", "C16.2", f, "default number of draws is the integer part of the effective sample size", okn, "")
    ess = [s_ for s_ in stmts_in_order(f.node) if eb is not None and match_stmt(f"$$e = effective_sample_size({W})", s_, eb) is not None]
    ctx.ob("R-SIB", "C16.2", f, "that effective sample size is computed from the posterior log-weights", len(ess) == 1, f"`{src(ess[0]) if ess else None}`")
    from .C20_reg import _chain_ends_in_raise

    ctx.ob("R-SIB", "C16.2", f, "an unknown method is rejected", _chain_ends_in_raise(f, "method"), "")
    ctx.floor("C16.1", 5)
    ctx.floor("C16.2", 8)

    ess_rule(ctx, "C16.3")
    ctx.floor("C16.3", 6)
    ctx.assumptions += ["np.random.choice / np.where semantics; selection frequencies and ESS bounds are statistical / numeric and not decided"]


def ess_rule(ctx, clause):
    """Every effective-sample-size implementation of the package is the log-space Kish form (shared by C16.3 and C15.4)."""
    prog = ctx.prog
    # ---- ESS implementations ---------------------------------------------
    impls = [
        (ctx.fn("nessai.utils.stats:effective_sample_size"), "log_w"),
        (ctx.fn("nessai.evidence:_BaseNSIntegralState.effective_n_posterior_samples"), "log_p"),
        (ctx.fn("nessai.utils.stats:weighted_quantile"), "log_weights"),
    ]
    # every other function / property of the package that computes an effective sample size - overrides of the state's
    # property in particular - is either the same log-space form or a pure delegation to one of the implementations
    import re as _re
    fam_ = _re.compile(r"(^|_)(ess|neff)($|_)|effective_(n|sample)")
    known_ = {g_.qual for g_, _v in impls}
    for g_ in prog.all_functions:
        if g_.qual in known_ or not fam_.search(g_.name) or g_.is_setter or g_.is_abstract:
            continue
        rets_ = [r_ for r_ in walk_no_nested(g_.node) if isinstance(r_, ast.Return) and r_.value is not None]
        body_ = [s_ for s_ in g_.node.body if not (isinstance(s_, ast.Expr) and isinstance(s_.value, ast.Constant))]
        if len(body_) == 1 and isinstance(body_[0], ast.Raise):
            continue
        deleg_ = bool(rets_) and all((isinstance(r_.value, ast.Attribute) and fam_.search(r_.value.attr)) or (isinstance(r_.value, ast.Call) and fam_.search((call_name(r_.value) or "").split(".")[-1])) for r_ in rets_) and all(isinstance(s_, (ast.Return, ast.If)) or (isinstance(s_, ast.Expr) and isinstance(s_.value, ast.Constant)) for s_ in walk_no_nested(g_.node) if isinstance(s_, ast.stmt) and s_ is not g_.node)
        if deleg_:
            ctx.ob("R-SIB", clause, g_, "an effective-sample-size accessor only delegates to one of the Kish implementations", True, f"`{src(rets_[0])[:70]}`")
        else:
            var_ = next((p_ for p_ in g_.params() if "log" in p_ or p_.startswith("w")), "log_p")
            impls.append((g_, var_))
    for g, var in impls:
        sts = stmts_in_order(g.node)
        kish = find_expr("exp(-logsumexp(2 * $$w))", g.node)
        norm = []
        if len(kish) == 1:
            w = kish[0][1]["w"]
            # normalised in place, or into a new local (`p = w - logsumexp(w)`)
            norm = [s_ for s_ in sts if match_stmt("$$w -= logsumexp($$w)", s_, {"w": w}) is not None or match_stmt("$$w = $$w - logsumexp($$w)", s_, {"w": w}) is not None or match_stmt("$$w = $$v - logsumexp($$v)", s_, {"w": w}) is not None]
        if not kish:
            # ... or written into the Kish expression itself
            kish = find_expr("exp(-logsumexp(2 * ($v - logsumexp($v))))", g.node)
            norm = [kish[0][0]] if len(kish) == 1 else []
        ok = len(norm) == 1 and len(kish) == 1 and norm[0].lineno <= kish[0][0].lineno
        ctx.ob("R-SIB", clause, g, "Kish effective sample size in log space: exp(-logsumexp(2 (w - logsumexp w)))", ok, f"normalise `{src(norm[0]) if norm else None}` ; `{src(kish[0][0]) if kish else None}`")
        reports = []
        chk = DegChecker({}, set(), lambda node, msg: reports.append((node, msg)))
        env = {p: Fraction(0) for p in g.params()}
        if var in env:
            env[var] = Fraction(1)
        if g.name == "effective_n_posterior_samples":
            chk.fields["self.log_posterior_weights"] = Fraction(1)
        chk.function(g.node, env)
        # the degree of the Kish expression where it stands (the environment after the function mixes every path)
        d = None
        if kish:
            d = chk.node_deg[id(kish[0][0])] if id(kish[0][0]) in chk.node_deg else chk.deg(kish[0][0], env)
        bad = [m for n_, m in reports if "exponential" in m or "applies" in m]
        ctx.ob("R-DEG", clause, g, "the effective sample size does not change when all log-weights are shifted (degree 0, no exp of a shift-dependent value)", d == Fraction(0) and not [m for m in bad if "logsumexp" in m], f"degree {d}; reports {bad[:2]}")


def _branch_body(fnode, stmt):
    for n in ast.walk(fnode):
        for fld in ("body", "orelse"):
            blk = getattr(n, fld, None)
            if isinstance(blk, list) and stmt in blk:
                return blk
    return []


CLAIM = {
    "text": "Decides the structural clauses of posterior resampling: on both branches the returned samples are nested_samples[indices] for the returned indices, on every returning path; the rejection branch normalises by the maximum weight, draws one uniform per nested sample and keeps i iff log_w_i is on the greater side of log U_i; the multinomial branch normalises with logsumexp and calls choice(size=n, p=exp(log_w), replace=True) over all nested samples with n defaulting to int(ESS of the same weights); unknown methods raise. The three Kish-ESS implementations canonicalise to exp(-logsumexp(2(w - logsumexp w))) and are typed shift-invariant (degree 0) by the shift-degree checker. The ESS rule enumerates by family name over the whole package, overrides through the class table included.",
    "note": "Strictness of the rejection comparison is deliberately not an obligation (> and >= agree almost surely). Inclusion probabilities, selection frequencies and the bounds 1 <= ESS <= N are statistical / numeric and are not decided.",
}

_P = "nessai/posterior.py"
_S = "nessai/utils/stats.py"
MUTANTS = [
    {"id": "samples-not-from-indices", "file": _P, "old": "        indices = np.where(log_w > log_u)[0]\n        samples = nested_samples[indices]", "new": "        indices = np.where(log_w > log_u)[0]\n        samples = nested_samples[log_w > log_u - 1e-3]", "expect": "on both branches the posterior samples"},
    {"id": "rejection-flipped", "file": _P, "old": "np.where(log_w > log_u)[0]", "new": "np.where(log_w < log_u)[0]", "expect": "rejection sampling keeps sample i"},
    {"id": "rejection-sum-normalised", "file": _P, "old": "        log_w = log_w - np.max(log_w)\n", "new": "        log_w = log_w - logsumexp(log_w)\n", "expect": "by their maximum"},
    {"id": "rejection-single-uniform", "file": _P, "old": "np.log(np.random.rand(nested_samples.size))", "new": "np.log(np.random.rand())", "expect": "one independent uniform"},
    {"id": "multinomial-no-replacement", "file": _P, "old": "p=np.exp(log_w), replace=True", "new": "p=np.exp(log_w), replace=False", "expect": "multinomial resampling"},
    {"id": "multinomial-unnormalised", "file": _P, "old": "        log_w = log_w - logsumexp(log_w)\n        indices = np.random.choice(", "new": "        log_w = log_w - np.max(log_w)\n        indices = np.random.choice(", "expect": "sum to one"},
    {"id": "default-n-rounded-up", "file": _P, "old": "            n = int(ess)\n", "new": "            n = int(ess) + 1\n", "expect": "integer part of the effective sample size"},
    {"id": "ess-not-normalised", "file": _S, "old": "    log_w = np.array(log_w)\n    log_w -= logsumexp(log_w)\n", "new": "    log_w = np.array(log_w)\n", "expect": "C16.3"},
    {"id": "ess-state-wrong-power", "file": "nessai/evidence.py", "old": "        n = np.exp(-logsumexp(2 * log_p))\n", "new": "        n = np.exp(-logsumexp(log_p))\n", "expect": "Kish effective sample size"},
]
