"""C05 - returned results are mutually consistent and faithful to the model."""

import ast
from fractions import Fraction

from .. import AnalysisError, tables
from ..deg import DegChecker, TOP
from ..canon import single_assignments, canon
from ..pat import find_expr, find_stmt, match_expr, match_stmt
from ..pm import src
from ..prov import Prov
from ..q import FA, call_name, guard_facts, ifs_on, nfact, nfacts, walk_no_nested
from ..resolve import resolver

TECHNIQUE = "R-PROV: symbolic expansion of the property chains behind FlowSampler attributes and result-dictionary keys to canonical access paths, for every configuration of (draw_iid_live, redrawn samples) - finite space, enumerated exhaustively; R-SIB on the INS estimator definition; R-WRITERS on the provenance of every stored logL / logP field; R-ALIAS; path-signature comparison of update_evidence with a reference implementation; shift-degree rule on exponentials of the INS state (shared with C15.5)"

NS, INS, FS = tables.NS, tables.INS, tables.FS
ST = "nessai.evidence:_INSIntegralState"

# stores of a density into the logL field that are colour values of diagnostic plots (reviewed; never reach a sampler)
PLOT_ONLY = {tables.FP + "._plot_training_data", tables.CFP + "._plot_training_data"}


def dict_values(f):
    """{key: value expression} of the stores into the dictionary the function returns."""
    out = {}
    rets = [n for n in walk_no_nested(f.node) if isinstance(n, ast.Return) and isinstance(n.value, ast.Name)]
    dname = rets[0].value.id if len(rets) == 1 else "d"
    for n in walk_no_nested(f.node):
        if isinstance(n, ast.Assign) and isinstance(n.targets[0], ast.Subscript) and isinstance(n.targets[0].slice, ast.Constant) and src(n.targets[0].value) == dname:
            out[n.targets[0].slice.value] = n.value
    return out


def run(ctx):
    prog = ctx.prog
    res = resolver(prog)
    ins = prog.cls(INS)
    ns = prog.cls(NS)
    ins_dict_f = ctx.fn(INS + ".get_result_dictionary")
    ins_dict = dict_values(ins_dict_f)
    run_i = ctx.fn(FS + ".run_importance_nested_sampler")
    ra = FA(run_i)

    def fs_assignment(attr, redraw):
        """expression assigned to self.<attr> in run_importance_nested_sampler for this configuration"""
        cands = []
        for nid in ra.find(lambda s: isinstance(s, ast.Assign) and src(s.targets[0]) == f"self.{attr}"):
            facts = [(src(e), t) for e, t in guard_facts(ra, nid)]
            guarded = ("redraw_samples", True) in facts
            cands.append((nid, guarded))
        if not cands:
            raise AnalysisError(f"run_importance_nested_sampler never assigns self.{attr}")
        pick = [c for c in cands if c[1]] if redraw and any(c[1] for c in cands) else [c for c in cands if not c[1]]
        return ra.stmt(pick[-1][0]).value

    def strip_ns(e):
        """self.ns.X -> self.X (evaluated on the sampler)"""
        t = ast.parse(src(e).replace("self.ns.", "self."), mode="eval").body
        return t

    # ---- C05.1 provenance: importance sampler ---------------------------------
    n_cfg = 0
    samples_cfg = []
    for iid in (True, False):
        for redraw in (False, True):
            n_cfg += 1
            pv = Prov(prog, res, ins, {"iid": iid, "redraw": redraw})
            for t in ("self.draw_iid_live", "self.iid_samples", "self.iid_samples is not None"):
                pv.add_predicate(t, "iid")
            for t in ("self._final_samples", "self._final_samples is not None"):
                pv.add_predicate(t, "redraw")
            cfg = f"draw_iid_live={iid}, redraw_samples={redraw}"
            pairs = [("log_evidence", "logZ"), ("log_evidence_error", "logZ_error")]
            for key, attr in pairs:
                d_path = pv.eval(ins_dict[key], ins_dict_f) if key in ins_dict else "MISSING"
                s_path = pv.eval(strip_ns(fs_assignment(attr, redraw)), ins_dict_f)
                ok = d_path == s_path and "None" not in d_path
                ctx.ob("R-PROV", "C05.1", ins_dict_f, f"[{cfg}] result['{key}'] and FlowSampler.{attr} read the same, existing state object", ok, f"dict: {d_path} ; sampler: {s_path}")
            # weights: result vs. what the posterior samples were drawn with
            dps = ctx.fn(INS + ".draw_posterior_samples")
            wcall = [c for c in walk_no_nested(dps.node) if isinstance(c, ast.Call) and call_name(c) == "draw_posterior_samples"]
            wname = next((src(k.value) for c in wcall for k in c.keywords if k.arg == "log_w"), "log_w")
            # read from the path summaries of the method: on the path taken in this configuration, the expression finally
            # bound to the name handed to draw_posterior_samples as log_w (the state may be selected first and read afterwards)
            from ..summ import summarise as _summ05

            pick = None
            if isinstance(wname, str) and wname.isidentifier():
                for pa_ in _summ05(dps.node):
                    if pa_.end == "raise" or wname not in pa_.env:
                        continue
                    taken = None
                    for e, t in pa_.guards:
                        while isinstance(e, ast.UnaryOp) and isinstance(e.op, ast.Not):
                            e, t = e.operand, not t
                        if isinstance(e, ast.BoolOp) and isinstance(e.op, ast.And) and len(e.values) == 2 and "use_final_samples" in src(e):
                            # use_final_samples = redraw in run_importance_nested_sampler
                            val = redraw and pv.truth(e.values[1], dps, "self", ins)
                            taken = (val == t)
                    if taken:
                        pick = pa_.env[wname]
            if pick is not None:
                w_path = pv.eval(pick, dps)
                d_path = pv.eval(ins_dict["log_posterior_weights"], ins_dict_f)
                ctx.ob("R-PROV", "C05.1", ins_dict_f, f"[{cfg}] result['log_posterior_weights'] are the weights the posterior samples were drawn with", w_path == d_path and "None" not in d_path, f"dict: {d_path} ; draw: {w_path}")
            if not redraw:
                d_path = pv.eval(ins_dict["samples"], ins_dict_f)
                s_path = pv.eval(strip_ns(fs_assignment("_nested_samples", False)), ins_dict_f)
                ctx.ob("R-PROV", "C05.1", ins_dict_f, f"[{cfg}] result['samples'] and FlowSampler.nested_samples are the same stored samples", d_path == s_path and "None" not in d_path, f"dict: {d_path} ; sampler: {s_path}")
            samples_cfg.append(cfg)
    ctx.extra["exhaustive"] = True
    ctx.extra["configurations"] = samples_cfg
    # the two predicates are tied by the constructor: iid_samples is created iff draw_iid_live
    ini = ctx.fn(INS + ".__init__")
    tie = [1 for _n, then, other in ifs_on(ini.node, "self.draw_iid_live")
           if any(isinstance(s_, ast.Assign) and src(s_.targets[0]) == "self.iid_samples" and isinstance(s_.value, ast.Call) and call_name(s_.value) == "OrderedSamples" for s_ in then)
           and any(isinstance(s_, ast.Assign) and src(s_.targets[0]) == "self.iid_samples" and isinstance(s_.value, ast.Constant) and s_.value.value is None for s_ in other)]
    ctx.ob("R-PROV", "C05.1", ini, "iid_samples exists iff draw_iid_live (the two predicates of the configuration space are one)", len(tie) == 1, "")
    fsn = prog.cls(FS).methods["nested_samples"]
    fsa = FA(fsn)
    rets_ = {}
    for nid_, r_ in fsa.returns():
        rets_.setdefault(src(r_.value) if r_.value is not None else None, []).append(set(nfacts(guard_facts(fsa, nid_))))
    want_ = nfact("self._final_samples is not None")
    okpv = set(rets_) == {"self._final_samples", "self._nested_samples"} and all(len(v) == 1 for v in rets_.values()) \
        and rets_["self._final_samples"][0] == {want_} and rets_["self._nested_samples"][0] == {nfact("self._final_samples is not None", False)}
    ctx.ob("R-PROV", "C05.1", fsn, "FlowSampler.nested_samples prefers the redrawn samples and otherwise the run's samples", okpv, "")

    # ---- C05.1 provenance: standard sampler ------------------------------------------
    ns_dict_f = ctx.fn(NS + ".get_result_dictionary")
    ns_dict = dict_values(ns_dict_f)
    pv = Prov(prog, res, ns, {})
    lp = ctx.fn(NS + ".nested_sampling_loop")
    rets = [n for n in walk_no_nested(lp.node) if isinstance(n, ast.Return)]
    ctx.require(len(rets) >= 2 and all(isinstance(r.value, ast.Tuple) and len(r.value.elts) == 2 for r in rets), "NestedSampler.nested_sampling_loop: expected (evidence, samples) returns")
    run_s = ctx.fn(FS + ".run_standard_sampler")
    unpack = find_stmt("self.logZ, self._nested_samples = self.ns.nested_sampling_loop()", run_s.node)
    ctx.ob("R-PROV", "C05.1", run_s, "FlowSampler takes its evidence and nested samples from the loop's return value", len(unpack) == 1, "")
    d_ev = pv.eval(ns_dict["log_evidence"], ns_dict_f)
    d_ns = pv.eval(ns_dict["nested_samples"], ns_dict_f)
    for r in rets:
        ev, sm = pv.eval(r.value.elts[0], lp), pv.eval(r.value.elts[1], lp)
        ctx.ob("R-PROV", "C05.1", lp, "every return of the loop hands back the same evidence / samples objects that the result dictionary reports", ev == d_ev and sm == d_ns, f"return: ({ev}, {sm}) ; dict: ({d_ev}, {d_ns})", node=r)
    err = find_stmt("self.logZ_error = $e", run_s.node)
    ctx.ob("R-PROV", "C05.1", run_s, "FlowSampler.logZ_error and result['log_evidence_error'] read the same state", len(err) == 1 and pv.eval(strip_ns(err[0][1]["e"]), ns_dict_f) == pv.eval(ns_dict["log_evidence_error"], ns_dict_f), "")
    dps = [c for c in walk_no_nested(run_s.node) if isinstance(c, ast.Call) and call_name(c) == "draw_posterior_samples"]
    okw = len(dps) == 1 and src(dps[0].args[0]) == "self._nested_samples" and any(k.arg == "log_w" and pv.eval(strip_ns(k.value), ns_dict_f) == pv.eval(ns_dict["log_posterior_weights"], ns_dict_f) for k in dps[0].keywords)
    ctx.ob("R-PROV", "C05.1", run_s, "posterior samples are drawn from the returned nested samples with the weights the result dictionary reports", okw, "")
    ctx.floor("C05.1", 20)

    # ---- C05.2 birth likelihoods ----------------------------------------------------------------
    bl = prog.cls(NS).methods["birth_log_likelihoods"]
    rb_ = [n for n in walk_no_nested(bl.node) if isinstance(n, ast.Return)]
    okb = len(rb_) == 1 and match_expr("array(self.state.logLs)[array(self.nested_samples)['it']].flatten()", rb_[0].value, inline=single_assignments(bl.node)) is not None
    ctx.ob("R-SIB", "C05.2", bl, "birth likelihood of a sample = integrator likelihood list indexed by the sample's `it` stamp", okb, "")
    ctx.ob("R-SIB", "C05.2", ns_dict_f, "the result dictionary reports those birth likelihoods", "logL_birth" in ns_dict and src(ns_dict["logL_birth"]) == "self.birth_log_likelihoods", "")
    st0 = ctx.fn("nessai.evidence:_NSIntegralState.__init__")
    ctx.ob("R-SIB", "C05.2", st0, "index 0 of that list is -inf (birth likelihood of the initial prior draws, stamped it = 0)", len(find_stmt("self.logLs = [-inf]", st0.node)) == 1, "")
    pop = ctx.fn(NS + ".populate_live_points")
    ctx.ob("R-SIB", "C05.2", pop, "initial live points are stamped it = 0", len(find_stmt("self.live_points['it'] = 0", pop.node)) == 1, "")
    ctx.note("that list[it] is the likelihood of the point removed in the iteration the sample was born follows from C01.2 (it := iteration after the increment) and C02.6 (one append per increment)")

    # ---- C05.3 INS estimator definition -------------------------------------------------------------
    ue = ctx.fn(ST + ".update_evidence")
    # compared, path by path, with a reference implementation: the final value of every attribute the estimator reads
    # (temporaries, branch order, where the attributes are assigned do not matter; what each attribute ends up holding does)
    from ..summ import signatures as _sigs_

    REF_UE = (
        "def ref(self, nested_samples, live_points=None):\n"
        "    self._weights_ns = nested_samples['logL'] + nested_samples['logW']\n"
        "    if live_points is not None:\n"
        "        self._weights_lp = live_points['logL'] + live_points['logW']\n"
        "        self._weights = np.concatenate([nested_samples['logL'] + nested_samples['logW'], live_points['logL'] + live_points['logW']])\n"
        "    else:\n"
        "        self._weights = nested_samples['logL'] + nested_samples['logW']\n"
        "        self._weights_lp = None\n"
        "    self._logZ = logsumexp(self._weights)\n"
        "    self._n = self._weights.size\n"
    )
    trk_ = ("self._weights_ns", "self._weights_lp", "self._weights", "self._logZ", "self._n")
    try:
        ref_ue = {(s_[0], s_[1], s_[3]) for s_ in _sigs_(ast.parse(REF_UE).body[0], canon, track=trk_)}
        got_ue = {(s_[0], s_[1], s_[3]) for s_ in _sigs_(ue.node, canon, track=trk_)}
    except ValueError as e_:
        raise AnalysisError(f"_INSIntegralState.update_evidence: {e_} (ANALYSIS-INCOMPLETE)")
    ctx.ob("R-SIB", "C05.3", ue, "INS evidence state: weights = logL + logW over all stored samples, _logZ = logsumexp(weights), _n = their number", got_ue == ref_ue, f"paths that differ from the reference: {sorted(map(str, got_ue ^ ref_ue))[:2]}")
    ctx.ob("R-ORDER", "C05.3", ue, "both are updated on every path, after the weights", bool(got_ue) and all(dict(s_[1]).get("self._logZ") is not None and dict(s_[1]).get("self._n") is not None and s_[2] != "raise" for s_ in got_ue), "")
    lz = prog.cls(ST).methods["logZ"]
    ctx.ob("R-SIB", "C05.3", lz, "log Z = logsumexp(logL + logW) - log(n): the log of the mean importance weight", len(find_stmt("return self._logZ - log(self._n)", lz.node)) == 1, "")
    alias = prog.cls(ST).class_attrs.get("log_evidence")
    ctx.ob("R-SIB", "C05.3", ST, "log_evidence is an alias of logZ", isinstance(alias, ast.Name) and alias.id == "logZ", "")
    lf = ctx.fn("nessai.evidence:log_evidence_from_ins_samples")
    ctx.ob("R-SIB", "C05.3", lf, "the one-pass estimator is the same expression: logsumexp(logL + logW) - log(len(samples))", len(find_stmt("return logsumexp(samples['logL'] + samples['logW']) - log(len(samples))", lf.node)) == 1, "")
    pw = prog.cls(ST).methods["log_posterior_weights"]
    # (a getter that memoises its value is the plain getter as long as every writer of what the value depends on resets
    # the cache - sa/rules/memo.py)
    from ..rules import memo as _memo

    E_pw, slot_pw, prob_pw = _memo.value_of(prog, pw)
    ctx.ob("R-SIB", "C05.3", pw, "log posterior weights = (logL + logW) - log Z", E_pw is not None and canon(E_pw) == "self._weights - self.logZ" and not prob_pw, f"value `{src(E_pw) if E_pw is not None else None}`" + (f", cached in self.{slot_pw}" if slot_pw else "") + (f"; {prob_pw[0]}" if prob_pw else ""))
    reports = []
    chk = DegChecker({"self._weights": 1, "self._weights_ns": 1, "self._weights_lp": 1, "self._logZ": 1, "self._n": 0, "self.logZ": 1}, set(), lambda n, m: reports.append(m))
    d_ue = chk.function(ue.node, {"nested_samples": Fraction(1), "live_points": Fraction(1)})
    d_pw = chk.function(pw.node, {})
    # samples["logW"] has degree 0 and samples["logL"] degree 1: a structured array is typed by its logL field here, so logL + logW is typed 2; use a dedicated environment instead
    ctx.ob("R-DEG", "C05.3", pw, "INS log posterior weights do not move with a likelihood offset (degree 0)", d_pw == Fraction(0), f"degree {d_pw}")
    ctx.floor("C05.3", 7)

    # ---- C05.4 likelihood / prior provenance ------------------------------------------------------------
    mods = [m for m in prog.modules if m.startswith(("nessai.proposal", "nessai.samplers", "nessai.experimental", "nessai.gw", "nessai.flowsampler"))]
    n_l = n_p = 0
    for f in prog.all_functions:
        if f.module.name not in mods:
            continue
        for st in walk_no_nested(f.node):
            targets = []
            if isinstance(st, ast.Assign):
                for t in st.targets:
                    targets += list(t.elts) if isinstance(t, ast.Tuple) else [t]
                val = st.value
            elif isinstance(st, ast.AugAssign):
                targets, val = [st.target], st.value
            else:
                continue
            for t in targets:
                if not (isinstance(t, ast.Subscript) and isinstance(t.slice, ast.Constant) and t.slice.value in ("logL", "logP")):
                    continue
                fld = t.slice.value
                arr = src(t.value)
                if fld == "logL":
                    n_l += 1
                    ok = isinstance(st, ast.Assign) and isinstance(val, ast.Call) and isinstance(val.func, ast.Attribute) and val.func.attr in ("evaluate_log_likelihood", "batch_evaluate_log_likelihood") and val.args and src(val.args[0]) == arr
                    if not ok and f.qual in {prog.fn(q).qual for q in PLOT_ONLY}:
                        ctx.ob("R-WRITERS", "C05.4", f, "diagnostic plot reuses the logL field of a throw-away array as a colour value (reviewed)", True, f"`{src(st)[:70]}`", node=st)
                        continue
                    ctx.ob("R-WRITERS", "C05.4", f, "a stored log-likelihood is the model's evaluator applied to the same array", ok, f"`{src(st)[:90]}`", node=st)
                else:
                    n_p += 1
                    ok = isinstance(st, ast.Assign) and isinstance(val, ast.Call) and isinstance(val.func, ast.Attribute) and ((val.func.attr in ("batch_evaluate_log_prior", "log_prior") and val.args and src(val.args[0]) == arr and "model" in src(val.func.value)) or (val.func.attr == "compute_weights" and any(k.arg == "return_log_prior" for k in val.keywords) and src(val.args[0]) == arr))
                    ctx.ob("R-WRITERS", "C05.4", f, "a stored log-prior is the model's prior evaluator applied to the same array", ok, f"`{src(st)[:90]}`", node=st)
    # a log-prior that reaches the samples through compute_weights(return_log_prior=True) is the model's value, untouched:
    # the second element of every returned pair is a local bound once to model.batch_evaluate_log_prior(<points>) and neither
    # it nor anything that may share its buffer (asarray / view / reshape / plain alias) is modified in place
    rj = prog.cls("nessai.proposal.rejection:RejectionProposal")
    cwf = rj.methods["compute_weights"]
    ctx.analysed_functions.add(cwf.qual)
    pts = cwf.params()[1]
    pairs_ = [r.value for r in walk_no_nested(cwf.node) if isinstance(r, ast.Return) and isinstance(r.value, ast.Tuple) and len(r.value.elts) == 2]
    okp, whyp = bool(pairs_), ""
    for tv in pairs_:
        pn = tv.elts[1]
        if not isinstance(pn, ast.Name):
            okp, whyp = match_expr(f"self.model.batch_evaluate_log_prior({pts})", pn) is not None, f"second element `{src(pn)}`"
            continue
        binds_ = [n for n in walk_no_nested(cwf.node) if isinstance(n, ast.Assign) and any(isinstance(t, ast.Name) and t.id == pn.id for t in n.targets)]
        if not (len(binds_) == 1 and match_expr(f"self.model.batch_evaluate_log_prior({pts})", binds_[0].value) is not None):
            okp, whyp = False, f"`{pn.id}` is not bound exactly once to model.batch_evaluate_log_prior({pts})"
            continue
        shared = may_alias(cwf.node, pn.id)
        touched = sorted(n_ for n_ in shared if modified_in_place(cwf.node, n_))
        if touched:
            okp, whyp = False, f"`{pn.id}` shares its buffer with {sorted(shared)}; modified in place: {touched}"
    ctx.ob("R-WRITERS", "C05.4", cwf, "the log-prior handed back by compute_weights(return_log_prior=True) is the model's prior of the same points, never modified in place (directly or through an alias)", okp, whyp)
    ctx.require(n_l >= 8 and n_p >= 5, f"too few logL/logP stores found ({n_l}, {n_p})")
    ctx.floor("C05.4", 14)
    # ---- C05.5 reading results does not change them ------------------------------------------------------
    from ..q import guard_facts as _gf, attr_stores, is_self_attr
    n_prop = 0
    for f in prog.all_functions:
        if not (f.is_property and f.cls is not None):
            continue
        n_prop += 1
        fa = None
        for n in walk_no_nested(f.node):
            tgt = None
            if isinstance(n, ast.Attribute) and isinstance(n.ctx, (ast.Store, ast.Del)) and isinstance(n.value, ast.Name) and n.value.id == "self":
                tgt = n.attr
            elif isinstance(n, ast.Subscript) and isinstance(n.ctx, (ast.Store, ast.Del)) and is_self_attr(n.value):
                tgt = n.value.attr
            elif isinstance(n, ast.Call) and isinstance(n.func, ast.Attribute) and n.func.attr in ("append", "extend", "insert", "pop", "update", "clear", "sort") and is_self_attr(n.func.value):
                tgt = n.func.value.attr
            if tgt is None:
                continue
            fa = fa or FA(f)
            st = fa.cfg.stmt_of(n) or n
            try:
                facts = [(src(e), t) for e, t in _gf(fa, fa.cfg.id_of(st))]
            except Exception:
                facts = []
            lazy = (f"self.{tgt} is None", True) in facts and isinstance(n, ast.Attribute)
            if not lazy and isinstance(n, ast.Attribute) and tgt.startswith("_"):
                # caches filled together: `if self._a is None: self._a = ..; self._b = ..` (one guard for the pair)
                for g_txt, g_t in facts:
                    m_ = g_txt.startswith("self._") and g_txt.endswith(" is None") and g_t
                    if m_:
                        other = g_txt[len("self."):-len(" is None")]
                        blk_ = next((b_ for o_ in ast.walk(f.node) for fld_ in ("body", "orelse") for b_ in [getattr(o_, fld_, None)] if isinstance(b_, list) and st in b_), None)
                        if blk_ and any(isinstance(s_, ast.Assign) and any(src(t_) == f"self.{other}" for t_ in s_.targets) for s_ in blk_):
                            lazy = True
            if not lazy and isinstance(n, ast.Attribute):
                # a private cache: nothing but this getter ever reads the attribute, every other writer only resets it
                lazy = _private_cache(prog, f, tgt)
            ctx.ob("R-PURE", "C05.5", f, "a property getter only writes an attribute as a lazy cache fill (under `self.<attr> is None`): reading a result never changes the state it is computed from", lazy, f"`{src(st)[:90]}` writes self.{tgt} under {facts}", node=n)
    ctx.ob("R-PURE", "C05.5", "nessai", "purity rule ran over every property getter of the package", True, f"{n_prop} property getters")
    # an option attribute that is compared as stored must be stored normalised (class-level R-NORM)
    from ..rules import optnorm as _on2
    for _f, _n, _ok, _why in _on2.scan_attributes(prog):
        ctx.ob("R-NORM", "C05.5", _f, "an option that is accepted case-insensitively and compared as stored is stored in its normalised spelling", _ok, _why, node=_n)
    # a value handed out by a property is modified in place only if the getter returns a fresh object (R-ALIAS, with C02.7)
    from ..rules import alias as _alias
    _al = _alias.scan(prog)
    ctx.require(_alias.self_check(), "R-ALIAS fixtures: the caching getter with an in-place consumer is not reported / the fresh twin is")
    ctx.ob("R-ALIAS", "C05.5", "nessai", "every in-place consumer of a property value was paired with the getters of that name (fixtures re-decided)", True, f"{len(_al)} consumer(s)")
    for _f, _mod, _attr, _c, _ok, _why in _al:
        ctx.ob("R-ALIAS", "C05.5", _f, f"the value of property `{_attr}` is modified in place only because every getter of that name returns a fresh object", _ok, _why, node=_mod)
    stc = prog.cls("nessai.evidence:_NSIntegralState")
    writers = {"logZ": {"__init__", "increment", "finalise"}, "logw": {"__init__", "increment"}, "logLs": {"__init__", "increment"}, "log_vols": {"__init__", "increment"}, "info": {"__init__", "increment"}, "nlive": {"__init__", "increment"}}
    for attr_, who in writers.items():
        sites = [(fn, n, k) for fn, n, k in attr_stores(prog, attr_, [stc])]
        sites += [(fn, n, "call") for fn in stc.methods.values() for n in walk_no_nested(fn.node) if isinstance(n, ast.Call) and isinstance(n.func, ast.Attribute) and n.func.attr in ("append", "extend", "insert", "pop", "clear") and is_self_attr(n.func.value, attr_)]
        for fn, n, k in sites:
            ctx.ob("R-WRITERS", "C05.5", fn, f"the integrator's `{attr_}` is written only by {sorted(who)}", fn.name in who, f"`{src(n)[:60]}` ({k})", node=n)
    # ---- C05.6 the reported evidence error survives a constant factor in the likelihood ---------------------------------
    # result["log_evidence_error"] of the importance sampler is sqrt(sum((Z_i - Z)^2) / n(n-1)) / Z: the Z_i leave log space,
    # and only np.longdouble keeps them finite for |log Z| beyond ~700 (in float64 they all underflow to 0 and the reported
    # error collapses to 1/sqrt(n-1), a plausible finite number).  Shared with C15.5.
    from .C15 import wide_exp_rule as _wide05

    _wide05(ctx, "C05.6")
    ctx.floor("C05.6", 2)
    # ---- C05.7 the stored log-likelihood / log-prior is the model's value ------------------------------------------------
    # every stored logL / logP comes out of one of Model's batch wrappers (C05.4 / C09.1): the wrapper must hand back what
    # the user's function returned, at most cast to the configured dtype.  Shared with C10.4.
    from .C10 import wrapper_values_rule as _wrap05

    _wrap05(ctx, "C05.7")
    ctx.assumptions += ["numeric equality on real runs and sample counts are not decided; only which state object each reported quantity is read from"]


_ALIASING_CALLS = {"asarray", "asanyarray", "ascontiguousarray", "atleast_1d", "atleast_2d", "squeeze", "ravel", "reshape", "view", "transpose", "expand_dims", "broadcast_to", "array"}


def _private_cache(prog, getter, attr):
    for g in prog.all_functions:
        for n in walk_no_nested(g.node):
            if isinstance(n, ast.Attribute) and n.attr == attr:
                if isinstance(n.ctx, ast.Load) and g is not getter:
                    return False
                if isinstance(n.ctx, ast.Store) and g is not getter:
                    st = next((s for s in walk_no_nested(g.node) if isinstance(s, ast.Assign) and any(t is n for t in s.targets)), None)
                    if st is None or not (isinstance(st.value, ast.Constant) and st.value.value is None):
                        return False
            if isinstance(n, ast.Constant) and n.value == attr and g is not getter:
                return False  # getattr / setattr by name somewhere else
    return True


def may_alias(fnode, name):
    """Names that may share the buffer of `name`: plain aliases and the results of numpy calls that return
    their argument (or a view of it) when no conversion is needed. Transitive."""
    shared = {name}
    changed = True
    while changed:
        changed = False
        for n in walk_no_nested(fnode):
            if not (isinstance(n, ast.Assign) and len(n.targets) == 1 and isinstance(n.targets[0], ast.Name)):
                continue
            t, v = n.targets[0].id, n.value
            base = None
            if isinstance(v, ast.Name):
                base = v.id
            elif isinstance(v, ast.Call):
                f_ = v.func
                fname = f_.attr if isinstance(f_, ast.Attribute) else (f_.id if isinstance(f_, ast.Name) else None)
                if fname in _ALIASING_CALLS:
                    if fname == "array" and not any(k.arg == "copy" and isinstance(k.value, ast.Constant) and k.value.value is False for k in v.keywords):
                        pass
                    elif v.args and isinstance(v.args[0], ast.Name):
                        base = v.args[0].id
                    elif isinstance(f_, ast.Attribute) and isinstance(f_.value, ast.Name) and f_.value.id not in ("np", "numpy"):
                        base = f_.value.id
            elif isinstance(v, ast.Attribute) and v.attr == "T" and isinstance(v.value, ast.Name):
                base = v.value.id
            elif isinstance(v, ast.Subscript) and isinstance(v.value, ast.Name) and isinstance(v.slice, ast.Slice):
                base = v.value.id
            if base in shared and t not in shared:
                shared.add(t)
                changed = True
            if t in shared and base is not None and base not in shared:
                shared.add(base)
                changed = True
    return shared


def modified_in_place(fnode, name):
    for n in walk_no_nested(fnode):
        if isinstance(n, ast.AugAssign) and isinstance(n.target, ast.Name) and n.target.id == name:
            return True
        if isinstance(n, ast.Subscript) and isinstance(n.ctx, (ast.Store, ast.Del)):
            b = n.value
            while isinstance(b, ast.Subscript):
                b = b.value
            if isinstance(b, ast.Name) and b.id == name:
                return True
        if isinstance(n, ast.Call):
            if isinstance(n.func, ast.Attribute) and isinstance(n.func.value, ast.Name) and n.func.value.id == name and n.func.attr in ("fill", "sort", "put", "itemset", "resize", "partition", "clip") and (n.func.attr != "clip" or any(k.arg == "out" for k in n.keywords)):
                return True
            if any(k.arg == "out" and isinstance(k.value, ast.Name) and k.value.id == name for k in n.keywords):
                return True
    return False


CLAIM = {
    "text": "Exhaustive provenance check over the finite configuration space: for each of the four (draw_iid_live, redrawn-samples) configurations of the importance sampler, and for the standard sampler, the property chains behind FlowSampler.logZ / logZ_error / nested_samples / the weights used to draw the posterior and behind the result-dictionary keys are expanded symbolically (property bodies are decision trees over three predicates) to canonical access paths, which must coincide and must not be None; every return of the standard loop hands back the objects the dictionary reports. Also decides the INS estimator definition (logsumexp(logL+logW) - log n in both the incremental state and the one-pass function, weights minus logZ, shift degree 0), the birth-likelihood lookup, and that every store into a logL / logP field is the model's evaluator applied to the same array (diagnostic-plot colour values are a reviewed exception). Found and repaired: with draw_iid_live=False the dictionary read a None state and the run failed while saving. Property getters are side-effect free apart from 14 lazy-cache writes and the integrator's accumulators have a fixed writer set (R-PURE, who-may-write); the log-prior handed back by compute_weights(return_log_prior=True) is bound once to the model's value and nothing that may share its buffer is modified in place. R-ALIAS (with C02): in-place consumers of property values are paired with getters that return fresh objects; a private cache (an attribute only its getter reads) is an accepted lazy fill. The reported INS evidence error is formed in np.longdouble (C05.6). The batch wrappers of Model hand back the evaluator's values, at most cast to the configured dtype; only NaN entries may be replaced (C05.7, shared with C10.4).",
    "note": "Decides which object each reported quantity is read from, not numeric equality on runs nor sample counts. The configuration predicates are tied by the constructor (checked).",
}

_I = "nessai/samplers/importancesampler.py"
_F = "nessai/flowsampler.py"
_N = "nessai/samplers/nestedsampler.py"
_E = "nessai/evidence.py"
MUTANTS = [
    {"id": "likelihood-clipped-on-return", "file": "nessai/model.py", "old": "        return log_likelihood.astype(config.livepoints.logl_dtype)", "new": "        return np.nan_to_num(log_likelihood.astype(config.livepoints.logl_dtype))", "expect": "C05.7"},
    {"id": "prior-aliased-and-modified", "file": "nessai/proposal/rejection.py", "old": "        log_q = self.log_proposal(x)\n        log_w = log_p - log_q\n", "new": "        log_w = np.asarray(log_p, dtype=float)\n        log_w -= self.log_proposal(x)\n", "expect": "never modified in place"},
    {"id": "final-state-none-without-iid", "file": _I, "old": "        if self._final_samples is not None:\n            return self._final_samples.state\n        else:\n            return self._ordered_samples.state", "new": "        if self._final_samples is not None:\n            return self._final_samples.state\n        elif self.iid_samples is not None:\n            return self.iid_samples.state\n        else:\n            return None", "expect": "draw_iid_live=False"},
    {"id": "dict-evidence-from-training-set", "file": _I, "old": '        d["log_evidence"] = self.final_log_evidence\n', "new": '        d["log_evidence"] = self.training_samples.state.log_evidence\n', "expect": "result['log_evidence']"},
    {"id": "dict-error-from-other-state", "file": _I, "old": '        d["log_evidence_error"] = self.final_log_evidence_error', "new": '        d["log_evidence_error"] = self.training_samples.state.log_evidence_error', "expect": "result['log_evidence_error']"},
    {"id": "flowsampler-uses-training-evidence", "file": _F, "old": "        self.logZ = self.ns.log_evidence\n", "new": "        self.logZ = self.ns.training_samples.state.log_evidence\n", "expect": "result['log_evidence']"},
    {"id": "dict-weights-from-other-state", "file": _I, "old": '        d["log_posterior_weights"] = self.final_log_posterior_weights', "new": '        d["log_posterior_weights"] = self.training_samples.state.log_posterior_weights', "expect": "result['log_posterior_weights']"},
    {"id": "ns-dict-evidence-not-final", "file": _N, "old": '        d["log_evidence"] = self.log_evidence\n', "new": '        d["log_evidence"] = self.state.oldZ\n', "expect": "every return of the loop"},
    {"id": "ns-loop-returns-copy-of-other-list", "file": _N, "old": "        return self.state.logZ, np.array(self.nested_samples)", "new": "        return self.state.logZ, np.array(self.nested_samples[: self.iteration])", "expect": "every return of the loop"},
    {"id": "ns-posterior-weights-recomputed", "file": _F, "old": "            log_w=self.ns.state.log_posterior_weights,", "new": "            nlive=self.ns.nlive,", "expect": "posterior samples are drawn from"},
    {"id": "birth-index-shifted", "file": _N, "old": "        return logLs[its].flatten()", "new": "        return logLs[its + 1].flatten()", "expect": "birth likelihood of a sample"},
    {"id": "ins-logz-not-mean", "file": _E, "old": "        return self._logZ - np.log(self._n)", "new": "        return self._logZ", "expect": "log Z = logsumexp"},
    {"id": "ins-n-counts-nested-only", "file": _E, "old": "        self._n = self._weights.size", "new": "        self._n = self._weights_ns.size", "expect": "INS evidence state"},
    {"id": "ins-one-pass-estimator-differs", "file": _E, "old": '    return logsumexp(samples["logL"] + samples["logW"]) - np.log(len(samples))', "new": '    return logsumexp(samples["logL"] + samples["logW"])', "expect": "one-pass estimator"},
    {"id": "getter-overwrites-evidence", "file": _E, "edits": [(_E, "        log_Z = log_integrate_log_trap(log_L, log_vols)\n", "        self.logZ = log_integrate_log_trap(log_L, log_vols)\n"), (_E, "        log_post_w = log_L[1:-1] + log_w[:-1] - log_Z\n", "        log_post_w = log_L[1:-1] + log_w[:-1] - self.logZ\n")], "expect": "C05.5"},
    {"id": "likelihood-field-from-other-array", "file": _I, "old": '        new_points["logL"] = self.model.batch_evaluate_log_likelihood(\n            new_points,\n            unit_hypercube=True,\n        )', "new": '        new_points["logL"] = self.model.batch_evaluate_log_likelihood(\n            new_points[::-1],\n            unit_hypercube=True,\n        )', "expect": "stored log-likelihood is the model's evaluator"},
    {"id": "likelihood-field-overwritten", "file": _I, "old": "        self.draw_samples_time += datetime.datetime.now() - st\n        return new_points, log_q", "new": "        new_points[\"logL\"] = np.nan_to_num(new_points[\"logL\"])\n        self.draw_samples_time += datetime.datetime.now() - st\n        return new_points, log_q", "expect": "stored log-likelihood is the model's evaluator"},
]
