"""C20 - every algorithmic option runs to completion or is rejected up front.

Static necessary condition: no option-gated path contains a construct that
cannot execute (stale attribute, rejected keyword, missing third-party API,
unbound local, undefined name), registries agree with the tables that consume
them, and option validation happens before sampling starts.
"""

import ast
import builtins

from .. import AnalysisError
from ..pm import dotted, src
from ..q import FA, call_name, walk_no_nested
from ..pat import match_stmt
from ..resolve import resolver
from ..rules import api, arity, attr, sig, undef

KEEP_LOGGING = True  # the log calls are typed and name-checked like any other call
TECHNIQUE = "whole-package attribute-existence (R-ATTR), call-signature conformance incl. overrides (R-SIG), third-party API existence (R-API), definite assignment with syntactic path feasibility (R-UNDEF), undefined names (R-NAME), registry/branch-table agreement (R-REG), validation-before-sampling order (R-ORDER); R-NORM; dropped / nulled pickled attributes against their readers (adopted from C12.1); inference-mode block audit"

# Reviewed possibly-unbound reads: (function, name) -> why the unbound path is infeasible.
UNDEF_REVIEWED = {
    # function -> (pattern of the statement that binds the variable ($$V), why the unbound path is infeasible)
    "nessai.evidence:_NSIntegralState.get_logx_live_points": ("$$V = -1 / $_n", "expectation is validated against {'t','logt'} in __init__ (checked below as C20.4b)"),
    "nessai.model:Model._single_new_point": ("$$V = parameters_to_live_point($_a, self.names)", "`logP = -np.inf` immediately precedes `while logP == -np.inf`: first iteration always runs"),
    "nessai.model:Model.verify_model": ("$$V = numpy_array_to_live_points($_a, self.names)", "`logP = -np.inf` immediately precedes `while (logP == -np.inf) or ...`: first iteration always runs; else-branch binds x in the try"),
    "nessai.plot:plot_1d_comparison": ("$$V, $$_u = $$ax.get_legend_handles_labels()", "`axs` comes from plt.subplots with at least one axis"),
    "nessai.plot:plot_indices": ("for $$V, $$_c in zip($$_a, $$_b):\n    $_rest", "np.array_split returns n_breakdown >= 1 batches"),
    "nessai.flowmodel.base:FlowModel.train": ("for $$V in range(1, max_epochs + 1):\n    $_rest", "range(1, max_epochs + 1) is non-empty for the validated max_epochs >= 1"),
}


def undef_reviewed(f, name):
    """Reason if (function, variable) is a reviewed possibly-unbound read, else None.  The variable is
    identified by the statement that binds it, not by its name."""
    ent = UNDEF_REVIEWED.get(f.qual)
    if ent is None:
        return None
    pat, why = ent
    for n in ast.walk(f.node):
        if isinstance(n, (ast.Assign, ast.For)):
            names = {x.id for t in (n.targets if isinstance(n, ast.Assign) else [n.target]) for x in ast.walk(t) if isinstance(x, ast.Name)}
            if name not in names:
                continue
            if isinstance(n, ast.For):
                tg = n.target
                first = tg.elts[0] if isinstance(tg, ast.Tuple) else tg
                it = pat.split("\n")[0]
                if pat.startswith("for ") and isinstance(first, ast.Name) and first.id == name:
                    from ..pat import _match, _parse
                    from ..canon import canon_node
                    b = {}
                    hp = _parse(it + "\n    pass", "stmt")
                    if _match(hp.target, canon_node(n.target), b) and _match(hp.iter, canon_node(n.iter), b) and isinstance(b.get("V"), ast.Name) and b["V"].id == name:
                        return why
                continue
            b = match_stmt(pat, n) if not pat.startswith("for ") else None
            if b is not None and isinstance(b.get("V"), ast.Name) and b["V"].id == name:
                return why
    return None


def _covered_by_same_guards(prog, sa_, attr, witness):
    """The possibly-early read `witness` = (function, statement) of self.attr is correlated with a conditional write:
    a call that dominates the read (a base constructor / helper on the same receiver) writes self.attr under tests that
    are all among the tests guarding the read, and the read's function does not re-assign the attributes those tests read."""
    from ..q import guard_facts, nfacts

    f, st = witness
    fa = FA(f)
    try:
        rid = fa.cfg.id_of(st)
    except Exception:
        return False
    facts_r = set(nfacts(guard_facts(fa, rid)))
    if not facts_r:
        return False

    def writes_with_guards(g, seen):
        out = []
        if g in seen:
            return out
        seen.add(g)
        ga = FA(g)
        for node in ga.nodes():
            for k, x in sa_.node_events(g, ga.cfg, node):
                if k == "w" and x == attr:
                    out.append(set(nfacts(guard_facts(ga, node.id))))
                elif k == "call":
                    base = set(nfacts(guard_facts(ga, node.id)))
                    out += [base | w_ for w_ in writes_with_guards(x, seen)]
        return out

    stored_here = {n.attr for n in walk_no_nested(f.node) if isinstance(n, ast.Attribute) and isinstance(n.ctx, ast.Store) and isinstance(n.value, ast.Name) and n.value.id == "self"}
    for node in fa.nodes():
        if node.id == rid or not fa.dominates(node.id, rid):
            continue
        for k, x in sa_.node_events(f, fa.cfg, node):
            if k != "call":
                continue
            for gw in writes_with_guards(x, set()):
                if gw and gw <= facts_r and not any(f"self.{a_}" in t for t, _ in gw for a_ in stored_here):
                    return True
    return False


def run(ctx):
    prog = ctx.prog
    fns = prog.all_functions
    res = resolver(prog)

    # C20.1 R-ATTR ------------------------------------------------------
    def ob_attr(f, node, recv, a, ok, detail):
        ctx.ob("R-ATTR", "C20.1", f, f"read {recv}.{a}", ok, detail, node=node)

    n_dec, n_und = attr.scan(prog, fns, ob_attr)
    ctx.extra["attr_reads_decided"] = n_dec
    ctx.extra["attr_reads_undecidable_external_base"] = n_und
    ctx.floor("C20.1", 2000)

    # C20.1 R-INIT: definite assignment of instance attributes inside constructors ------------------
    # (R-ATTR asks whether *some* method defines the attribute; this asks whether the constructor can read it
    #  on a path on which neither it nor the base constructors / helpers it called have written it yet)
    from ..rules.selfattrs import SelfAttrs

    n_init = 0
    for c in sorted(prog.classes.values(), key=lambda k: k.qual):
        init = prog.find_method(c, "__init__")
        if init is None:
            continue
        sa_ = SelfAttrs(prog, c)
        inst, classlevel = set(), set()
        for k in prog.mro(c):
            classlevel |= set(k.class_attrs) | set(k.methods) | set(getattr(k, "setters", {}))
            for m_ in k.methods.values():
                for x in walk_no_nested(m_.node):
                    if isinstance(x, ast.Attribute) and isinstance(x.value, ast.Name) and x.value.id == "self" and isinstance(x.ctx, ast.Store):
                        inst.add(x.attr)
        for a in sorted(inst - classlevel):
            w = sa_.needs(init, a)
            n_init += 1
            if w is not None and _covered_by_same_guards(prog, sa_, a, w):
                ctx.ob("R-INIT", "C20.1", w[0], f"constructing {c.name}: self.{a} is read only under the tests under which an earlier constructor wrote it", True, f"`{src(w[1])[:80]}`", node=w[1])
                continue
            if w is not None:
                ctx.ob("R-INIT", "C20.1", w[0], f"constructing {c.name}: self.{a} is written before it is read on every path through the constructor chain", False, f"`{src(w[1])[:80]}` can run before any write of self.{a} (written only conditionally by the constructors / helpers called so far)", node=w[1])
    ctx.ob("R-INIT", "C20.1", "nessai", "definite-assignment analysis ran over every (class, instance attribute) pair of every constructor chain", n_init >= 600, f"{n_init} pairs")
    ctx.extra["constructor_attribute_pairs_checked"] = n_init

    # C20.2 R-SIG -------------------------------------------------------
    def ob_sig(f, call, g, ok, detail):
        kws = ",".join(sorted(k.arg for k in call.keywords if k.arg))
        ctx.ob("R-SIG", "C20.2", f, f"call {_receiver_free(f, call.func)}({kws}) -> {g.qual.split(':')[-1]}", ok, detail, node=call)

    n_sig = sig.scan(prog, fns, ob_sig)
    ctx.extra["calls_resolved"] = res.resolved_calls
    ctx.extra["calls_unresolved_or_external"] = res.unresolved_calls
    ctx.floor("C20.2", 600)

    # C20.2 R-ARITY -----------------------------------------------------
    def ob_ar(f, st, g, ok, detail):
        ctx.ob("R-ARITY", "C20.2", f, f"result of {g.qual.split(':')[-1]} is unpacked / used with the arity it returns", ok, detail, node=st)

    arity.scan(prog, fns, ob_ar)

    # C20.4 R-API -------------------------------------------------------
    def ob_api(m, f, node, path, ok, detail):
        where = f.qual if f is not None else m.name
        ctx.ob("R-API", "C20.4", where, f"third-party name {path}", ok, detail, node=node, fn=f)

    n_api = api.scan(prog, list(prog.modules.values()), ob_api)
    ctx.floor("C20.4", 800)

    # C20.4 R-API argument domain: torch's DataLoader rejects batch_size=0 (ValueError at construction), and a data set
    # can legitimately be empty (val_size=0): a batch size computed from a length is guarded against the empty case
    n_dl = 0
    for f_ in prog.all_functions:
        inl_ = None
        for c_ in walk_no_nested(f_.node):
            if not (isinstance(c_, ast.Call) and (call_name(c_) or "").split(".")[-1] == "DataLoader"):
                continue
            bs_ = next((k_.value for k_ in c_.keywords if k_.arg == "batch_size"), c_.args[1] if len(c_.args) > 1 else None)
            if bs_ is None:
                continue
            n_dl += 1
            if inl_ is None:
                from ..canon import single_assignments as _sa20
                inl_ = _sa20(f_.node)
            e_ = inl_.get(bs_.id, bs_) if isinstance(bs_, ast.Name) else bs_
            lens_ = [x_ for x_ in ast.walk(e_) if isinstance(x_, ast.Call) and isinstance(x_.func, ast.Name) and x_.func.id == "len"]
            guarded_ = (not lens_) or (isinstance(e_, ast.IfExp) and any(src(l_) in src(e_.test) or src(l_.args[0]) in src(e_.test) for l_ in lens_)) or (isinstance(e_, ast.BoolOp) and isinstance(e_.op, ast.Or)) or (isinstance(e_, ast.Call) and isinstance(e_.func, ast.Name) and e_.func.id == "max" and any(isinstance(a_, ast.Constant) and isinstance(a_.value, int) and a_.value >= 1 for a_ in e_.args))
            ctx.ob("R-API", "C20.4", f_, "a DataLoader batch size computed from a length is guarded against the empty data set (batch_size=0 raises in torch; val_size=0 is a supported option)", guarded_, f"batch_size = `{src(e_)[:70]}`", node=c_)
    ctx.require(n_dl >= 2, f"only {n_dl} DataLoader constructions found")

    # C20.4 R-UNDEF -----------------------------------------------------
    reported = set()
    for f, name, x in undef.scan(prog, fns):
        why = undef_reviewed(f, name)
        if why is not None:
            reported.add(f.qual)
            ctx.ob("R-UNDEF", "C20.4", f, "possibly-unbound local is a reviewed case (infeasible path)", True, f"`{name}`: {why}", node=x)
        else:
            ctx.ob("R-UNDEF", "C20.4", f, "every local is bound on every path to its reads", False,
                   f"`{name}` is read at {f.loc(x)} on a path where no assignment to it has executed", node=x)
    for key in UNDEF_REVIEWED:
        if key not in reported:
            ctx.note(f"reviewed R-UNDEF entry no longer matches anything (harmless, tree changed): {key}")
    ctx.ob("R-UNDEF", "C20.4", "nessai", "definite-assignment analysis ran over every function", True, f"{len(fns)} functions")

    # C20.4 R-NAME ------------------------------------------------------
    n_names = 0
    for f in fns:
        if f.parent is not None:
            continue  # analysed with its parent
        bad = undefined_names(prog, f)
        n_names += 1
        for name, node in bad:
            ctx.ob("R-NAME", "C20.4", f, f"name `{name}` resolves to a local, global, import or builtin", False, f"`{name}` at {f.loc(node)} is not defined anywhere in scope", node=node)
    ctx.ob("R-NAME", "C20.4", "nessai", "name-resolution ran over every top-level function/method", True, f"{n_names} functions")

    # C20.4b expectation validated before use (supports the reviewed R-UNDEF entry)
    st = prog.cls("nessai.evidence:_NSIntegralState")
    init = prog.find_method(st, "__init__")
    ok = False
    if init is not None:
        for n in ast.walk(init.node):
            if isinstance(n, ast.If) and "expectation" in src(n.test) and any(isinstance(x, ast.Raise) for x in ast.walk(n)):
                lits = {c.value for c in ast.walk(n.test) if isinstance(c, ast.Constant) and isinstance(c.value, str)}
                ok = {"t", "logt"} <= lits
    ctx.ob("R-ORDER", "C20.4", init or "nessai.evidence:_NSIntegralState.__init__", "shrinkage expectation restricted to {'t','logt'} at construction", ok, "supports UNDEF_REVIEWED[get_logx_live_points]")

    from . import C20_reg

    C20_reg.run(ctx)

    # C20.6 nothing that builds or re-binds module state runs under torch.inference_mode() -------------------------------
    # tensors created inside inference mode are inference tensors: they can be read anywhere but never updated in place
    # afterwards.  A module method that (re)creates buffers - finalise() of the LARS base distribution re-assigns its
    # `norm`, load_state_dict, reset / initialisation code - must therefore not run inside such a block, or a later in-place
    # reset (`reset_weights` under the `reset_weights=k` option) raises in the middle of a run.  Inside every
    # `with torch.inference_mode()` / `no_grad()` block of the package only evaluation calls are made.
    EVAL_CALLS = {"forward", "inverse", "log_prob", "sample", "sample_and_log_prob", "forward_and_log_prob", "base_distribution_log_prob", "sample_latent_distribution", "numpy_array_to_tensor", "item", "cpu", "numpy", "detach", "astype", "inference_mode", "no_grad", "sample_ith", "log_prob_ith", "to", "double", "float", "exp", "log", "sum", "mean", "max", "min", "isfinite", "isnan", "any", "all", "array", "asarray", "view", "reshape", "squeeze", "tolist", "size", "shape"}
    n_inf = 0
    for f_ in fns:
        for w_ in walk_no_nested(f_.node):
            if isinstance(w_, ast.With) and any(("inference_mode" in src(i_.context_expr) or "no_grad" in src(i_.context_expr)) for i_ in w_.items):
                n_inf += 1
                bad_ = sorted({src(c_.func)[:50] for b_ in w_.body for c_ in ast.walk(b_) if isinstance(c_, ast.Call) and isinstance(c_.func, ast.Attribute) and c_.func.attr not in EVAL_CALLS and not (isinstance(c_.func.value, ast.Name) and c_.func.value.id in ("logger", "logging", "warnings"))})
                ctx.ob("R-API", "C20.6", f_, "inside torch.inference_mode() / no_grad() only evaluation calls are made (nothing that creates or re-binds module state)", not bad_, f"calls {bad_}", node=w_)
    ctx.require(n_inf >= 8, f"only {n_inf} inference-mode blocks found")
    ctx.floor("C20.6", 8)

    # C20.5 an option that reads state the checkpoint does not carry -----------------------------------------------------
    # "runs to completion" includes a run that was checkpointed and resumed: an attribute that a __getstate__ drops or
    # nulls must be rebuilt on the resume path, or be read only under options that exclude the nulling (else the option
    # works in one go and dies with an AttributeError / TypeError after a resume).  The pickling analysis is C12's; its
    # dropped / nulled-attribute obligations (C12.1 R-PICKLE on the proposal and flow-model receivers) are adopted here.
    from ..core import Ctx as _Ctx, Ob as _Ob
    from . import C12 as _c12

    sub_ = _Ctx("C12", prog, ctx.tier, ctx.seed)
    _c12.run(sub_)
    n5_ = 0
    for o_ in sub_.obs:
        if o_.clause == "C12.1" and o_.rule == "R-PICKLE" and ("in the pickle" in o_.construct or "dropped by __getstate__" in o_.construct):
            n5_ += 1
            ctx.obs.append(_Ob(o_.rule, "C20.5", o_.where, o_.construct, o_.ok, o_.detail, o_.loc))
    ctx.require(n5_ >= 5, f"only {n5_} dropped / nulled-attribute obligations adopted from C12.1")
    ctx.floor("C20.5", 5)
    ctx.assumptions.append("user-supplied subclasses and entry-point proposals are outside the analysed program; termination of population loops is not decided")


def _receiver_free(f, func):
    """Source of a callee expression with a local receiver variable replaced by <local> (keys must not depend on local names)."""
    text = src(func)
    root = func
    while isinstance(root, (ast.Attribute, ast.Subscript, ast.Call)):
        root = root.value if not isinstance(root, ast.Call) else root.func
    if isinstance(root, ast.Name) and root.id not in ("self", "cls", "super") and root.id not in f.module.imports and root.id not in f.module.classes and root.id not in f.module.functions and root.id not in f.params():
        if text.startswith(root.id + "."):
            return "<local>" + text[len(root.id):]
    return text


def undefined_names(prog, f):
    """Names loaded in f (incl. nested defs/lambdas/comprehensions) that are
    bound nowhere: not in any enclosing function scope, module globals,
    imports or builtins."""
    m = f.module
    module_names = set(m.imports) | set(m.functions) | set(m.classes) | set(m.globals)
    for n in ast.walk(m.tree):
        # names bound at module level by other statements (for, with, try-imports...)
        pass
    for st in m.tree.body:
        for n in ast.walk(st):
            if isinstance(n, (ast.FunctionDef, ast.ClassDef)):
                break
        if not isinstance(st, (ast.FunctionDef, ast.ClassDef)):
            for n in ast.walk(st):
                if isinstance(n, ast.Name) and isinstance(n.ctx, ast.Store):
                    module_names.add(n.id)
                if isinstance(n, ast.alias):
                    module_names.add((n.asname or n.name).split(".")[0])
    bound = set()
    for n in ast.walk(f.node):
        if isinstance(n, ast.Name) and isinstance(n.ctx, (ast.Store, ast.Del)):
            bound.add(n.id)
        elif isinstance(n, ast.arg):
            bound.add(n.arg)
        elif isinstance(n, (ast.FunctionDef, ast.ClassDef)):
            bound.add(n.name)
        elif isinstance(n, ast.alias):
            bound.add((n.asname or n.name).split(".")[0])
        elif isinstance(n, ast.ExceptHandler) and n.name:
            bound.add(n.name)
        elif isinstance(n, (ast.Global, ast.Nonlocal)):
            bound |= set(n.names)
    out = []
    for n in ast.walk(f.node):
        if isinstance(n, ast.Name) and isinstance(n.ctx, ast.Load):
            if n.id in bound or n.id in module_names or hasattr(builtins, n.id):
                continue
            if f.cls is not None and n.id == "__class__":
                continue
            out.append((n.id, n))
    return out


CLAIM = {
    "text": "Decides the static necessary condition of the option property over the whole package: no code path (in particular none gated by a rarely used option) contains a construct that cannot execute - an attribute nobody defines (2500+ typed reads on self / typed fields / aliases), a keyword or positional the resolved callee or any possible override rejects (700+ resolved calls), a third-party name absent from the pinned numpy/scipy/torch/glasflow (1100+ paths), a local unbound on a syntactically feasible path, an undefined name; every option registry (proposal classes, flows, activations, latent priors, stopping criteria, threshold methods, reparameterisations) agrees with the branch table that consumes it; option validation is reached from the constructor before the loop. The stale INS post-sampling option paths it finds on the pinned tree are recorded as known findings. Constructor definite assignment: over 789 (class, instance attribute) pairs no constructor chain can read an attribute before some path has written it, modulo reads under the same tests as the write (R-INIT; found and repaired: DistanceReparameterisation without boundary inversion). Stopping criteria stay paired with their tolerances (shared with C15.1). Option strings are compared under one normalisation (R-NORM). Options are also checked across a checkpoint / resume (C20.5): every attribute a __getstate__ drops or nulls is rebuilt on the resume path or read only under options that exclude the nulling, so an option that works in one go cannot die after a resume for lack of state. Inside torch.inference_mode() / no_grad() blocks only evaluation calls are made (C20.6: module state created there cannot be updated in place later).",
    "note": "Does not decide termination of population loops (depends on acceptance rates), wall-clock bounds or result invariants of completed runs. Receiver types are inferred flow-insensitively plus a frozen table for dynamically chosen classes (sa/tables.py); classes with bases outside the package are undecidable for names they do not define and are skipped; user subclasses and entry points are outside the program.",
}

_NS = "nessai/samplers/nestedsampler.py"
_INS = "nessai/samplers/importancesampler.py"
_FP = "nessai/proposal/flowproposal.py"
MUTANTS = [
    {"id": "attr-read-before-conditional-write", "file": "nessai/gw/reparameterisations.py", "old": "        if self.boundary_inversion:\n            self.detect_edges_kwargs[\"allowed_bounds\"] = allowed_bounds\n", "new": "        if True:\n            self.detect_edges_kwargs[\"allowed_bounds\"] = allowed_bounds\n", "expect": "is written before it is read on every path"},
    {"id": "stale-attr-self", "file": _NS, "old": "            self.reset_acceptance\n            and self.mean_block_acceptance", "new": "            self.reset_on_acceptance\n            and self.mean_block_acceptance", "expect": "read self.reset_on_acceptance"},
    {"id": "stale-attr-typed-field", "file": _NS, "old": "self.proposal.ns_acceptance = self.mean_block_acceptance\n            self.uninformed_sampling = False", "new": "self.proposal.ns_acceptance = self.proposal.mean_block_acceptance\n            self.uninformed_sampling = False", "expect": "read self.proposal.mean_block_acceptance"},
    {"id": "stale-attr-ins-proposal", "file": _INS, "old": "minlength=(self.proposal.n_proposals),", "new": "minlength=(self.proposal.n_levels),", "expect": "read self.proposal.n_levels"},
    {"id": "bad-keyword", "file": _NS, "old": "self.proposal.reset_model_weights(weights=True, permutations=True)", "new": "self.proposal.reset_model_weights(weights=True, permutation=True)", "expect": "reset_model_weights"},
    {"id": "bad-keyword-override", "file": _INS, "old": "        super().checkpoint(\n            periodic=periodic,\n            force=force,\n            save_existing=self.save_existing_checkpoint,", "new": "        super().checkpoint(\n            periodic=periodic,\n            force=force,\n            keep_existing=self.save_existing_checkpoint,", "expect": "checkpoint"},
    {"id": "tuple-arity", "file": _INS, "old": "        new_samples, log_q = self.draw_n_samples(n)\n        new_samples[\"it\"] = self.iteration\n", "new": "        new_samples, log_q, _ = self.draw_n_samples(n)\n        new_samples[\"it\"] = self.iteration\n", "expect": "draw_n_samples"},
    {"id": "too-many-positionals", "file": _NS, "old": "index = self.insert_live_point(proposed)", "new": "index = self.insert_live_point(proposed, self.iteration)", "expect": "insert_live_point"},
    {"id": "missing-numpy-api", "file": _INS, "old": "idx = np.argsort(samples, order=\"logL\")", "new": "idx = np.argsort_stable(samples, order=\"logL\")", "expect": "numpy.argsort_stable"},
    {"id": "unbound-local", "file": _NS, "old": "        if flow_config is None:\n            flow_config = {}\n        obj._flow_proposal.resume(model, flow_config, weights_path)", "new": "        if flow_config is None:\n            cfg = {}\n        obj._flow_proposal.resume(model, cfg, weights_path)", "expect": "every local is bound"},
    {"id": "undefined-name", "file": _INS, "old": "        self.log_likelihood_threshold = threshold\n        self.training_samples.update_log_likelihood_threshold(", "new": "        self.log_likelihood_threshold = thresh\n        self.training_samples.update_log_likelihood_threshold(", "expect": "name `thresh`"},
    {"id": "registry-stale-latent-prior", "file": _FP, "old": '        if self.latent_prior in ["uniform_nsphere", "uniform_nball"]:\n            return get_uniform_distribution(', "new": '        if self.latent_prior in ["uniform_sphere", "uniform_nball"]:\n            return get_uniform_distribution(', "expect": "latent prior names handled here"},
    {"id": "registry-criterion-not-computed", "file": _INS, "old": "        self.ratio_ns = self.state.compute_evidence_ratio(ns_only=True)\n", "new": "        ratio_ns = self.state.compute_evidence_ratio(ns_only=True)\n", "expect": "stopping criterion `ratio_ns`"},
    {"id": "registry-unknown-not-rejected", "file": _INS, "old": "        else:\n            raise ValueError(method)\n", "new": "        else:\n            n = 0\n", "expect": "unknown threshold method is rejected"},
    {"id": "validation-not-in-constructor", "file": _INS, "old": "        self.check_configuration()\n\n    @property\n    def log_evidence(self)", "new": "        pass\n\n    @property\n    def log_evidence(self)", "expect": "self.check_configuration"},
    {"id": "proposal-kwargs-unchecked", "file": _NS, "old": "kwargs = check_proposal_kwargs(", "new": "kwargs = dict(", "expect": "check_proposal_kwargs runs before"},
]
