"""C10 - batched / chunked / pooled evaluation equals pointwise evaluation, counted once."""

import ast

from .. import AnalysisError, tables
from ..canon import canon, single_assignments
from ..pm import src, dotted
from ..q import FA, attr_stores, call_name, guard_facts, is_self_attr, norm_args, walk_no_nested

TECHNIQUE = "R-WRITERS/R-ORDER on the evaluation counter, R-CALLERS on the user likelihood, R-DOM on the unit-hypercube mapping, a structural grammar of order-preserving split/map/combine primitives over all six branches of batch_evaluate_function, R-SIB on the function/wrapper/vectorised-flag table; constant-bound rule on the probe tolerances; exactly-once counting per CFG path including delegations"

M = tables.MODEL
MP = "nessai.utils.multiprocessing"


def wrapper_table(ctx, clause):
    """function / pool-wrapper / vectorisation-flag / probe table of the three batch evaluators: what the pool workers
    evaluate is what the serial branch evaluates (shared with C14.4: otherwise enabling a pool changes the values)."""
    prog = ctx.prog
    # ---- C10.4 function / wrapper / flag table ---------------------------------------
    table = {
        "batch_evaluate_log_likelihood": ("self.log_likelihood", "log_likelihood_wrapper", "self.allow_vectorised and self.vectorised_likelihood", "log_likelihood", "vectorised_likelihood"),
        "batch_evaluate_log_prior": ("self.log_prior", "log_prior_wrapper", "self.allow_vectorised_prior and self.vectorised_prior", "log_prior", "vectorised_prior"),
        "batch_evaluate_log_prior_unit_hypercube": ("self.log_prior_unit_hypercube", "log_prior_unit_hypercube_wrapper", "self.allow_vectorised_prior and self.vectorised_prior_unit_hypercube", "log_prior_unit_hypercube", "vectorised_prior_unit_hypercube"),
    }
    for name, (fn_, wrap, flag, meth, prop) in table.items():
        f = ctx.fn(f"{M}.{name}")
        c = FA(f).find_calls("batch_evaluate_function")[0][1]
        kw = _bef_args(c)
        inl_ = single_assignments(f.node)
        ctx.ob("R-SIB", clause, f, f"evaluates {fn_} with its own wrapper {wrap} and its own vectorisation flag", "func" in kw and src(kw["func"]) == fn_ and "func_wrapper" in kw and src(kw["func_wrapper"]) == wrap and "vectorised" in kw and canon(kw["vectorised"], inline=inl_) == canon(ast.parse(flag, mode="eval").body), f"`{src(c)[:160]}`", node=c)
        w = ctx.fn(f"{MP}:{wrap}")
        r = [n for n in walk_no_nested(w.node) if isinstance(n, ast.Return)]
        ctx.ob("R-SIB", clause, w, f"pool wrapper calls the same-named method of the global model on its argument", len(r) == 1 and src(r[0].value) == f"_model.{meth}({w.params()[0]})", f"`{src(r[0].value) if r else None}`")
        p = prog.cls(M).methods[prop]
        probes = [n for n in walk_no_nested(p.node) if isinstance(n, ast.Call) and call_name(n) == "check_vectorised_function"]
        ctx.ob("R-SIB", clause, p, f"vectorisation of {meth} is detected by probing {meth} itself", len(probes) == 1 and src(probes[0].args[0]) == f"self.{meth}", f"`{src(probes[0])[:80] if probes else None}`")
        pool = kw.get("pool")
        want_pool = "self.pool" if name == "batch_evaluate_log_likelihood" else "self.pool if self.parallelise_prior else None"
        ok_pool = pool is not None and canon(pool, inline=inl_) == canon(ast.parse(want_pool, mode="eval").body)
        if not ok_pool and pool is not None and name != "batch_evaluate_log_likelihood":
            # the selection written as a statement: read the pool argument on every path to the call
            from ..summ import summarise as _summ4, guard_texts as _gt4
            seen_ = {}
            for pa_ in _summ4(f.node):
                calls_ = [x_ for x_ in ast.walk(pa_.ret) if isinstance(x_, ast.Call) and call_name(x_) == "batch_evaluate_function"] if pa_.ret is not None else []
                calls_ += [e_[1] for e_ in pa_.effects if e_[0] == "call" and call_name(e_[1]) == "batch_evaluate_function"]
                for c_ in calls_:
                    seen_[dict(_gt4(pa_, canon)).get("self.parallelise_prior")] = canon(_bef_args(c_).get("pool")) if _bef_args(c_).get("pool") is not None else None
            ok_pool = seen_ == {True: "self.pool", False: "None"}
        ctx.ob("R-SIB", clause, f, "pool selection: likelihood always uses the pool, priors only when parallelise_prior", ok_pool and "n_pool" in kw and src(kw["n_pool"]) == "self.n_pool", f"pool=`{src(pool)}`")


def wrapper_values_rule(ctx, clause):
    """The batch wrappers of Model hand back the evaluator's values (shared with C05: the stored log-likelihood is the model's)."""
    # ---- C10.4 the batch wrappers hand back the evaluator's values ---------------------------------------------------
    # what a wrapper returns is batch_evaluate_function(...) itself, at most cast to the configured dtype: anything that
    # rewrites values on the way out (clip, nan_to_num with its default +/-inf replacement, where, maximum ...) makes the
    # stored log-likelihood / log-prior differ from the user's function on legal values (-inf is a legal log-likelihood).
    # Replacing NaN entries only (`v[isnan(v)] = c`, nan_to_num with posinf=inf and neginf=-inf) is allowed: NaN is not a
    # value the property speaks about
    from ..summ import summarise as _summ104

    def _strip104(e):
        while True:
            if isinstance(e, ast.Call) and isinstance(e.func, ast.Attribute) and e.func.attr in ("astype", "copy") and not (isinstance(e.func.value, ast.Name) and e.func.value.id in ("np", "numpy")):
                e = e.func.value
            elif isinstance(e, ast.Call) and call_name(e) in ("np.asarray", "np.array", "np.ascontiguousarray", "numpy.asarray", "numpy.array") and e.args:
                e = e.args[0]
            elif isinstance(e, ast.Call) and call_name(e) in ("np.nan_to_num", "numpy.nan_to_num") and e.args:
                kw = {k.arg: canon(k.value) for k in e.keywords}
                if kw.get("posinf") in ("inf", "np.inf", "numpy.inf") and kw.get("neginf") in ("-inf", "-np.inf", "-numpy.inf"):
                    e = e.args[0]
                else:
                    return e
            else:
                return e

    for name in ("batch_evaluate_log_likelihood", "batch_evaluate_log_prior", "batch_evaluate_log_prior_unit_hypercube"):
        f = ctx.fn(f"{M}.{name}")
        ps_ = [pa_ for pa_ in _summ104(f.node) if pa_.end == "return"]
        ok4, why4 = bool(ps_), ""
        for pa_ in ps_:
            core_ = _strip104(pa_.ret) if pa_.ret is not None else None
            if not (isinstance(core_, ast.Call) and call_name(core_) == "batch_evaluate_function"):
                ok4, why4 = False, f"a path returns `{src(pa_.ret)[:80] if pa_.ret is not None else None}`"
                continue
            for ef_ in pa_.effects:
                if ef_[0] == "store" and isinstance(ef_[1], ast.Subscript) and _strip104(ef_[1].value) is not None and canon(_strip104(ef_[1].value)) == canon(core_):
                    ix_ = ef_[1].slice
                    if not (isinstance(ix_, ast.Call) and call_name(ix_) in ("np.isnan", "numpy.isnan") and ix_.args and canon(_strip104(ix_.args[0])) == canon(core_)):
                        ok4, why4 = False, f"`{src(ef_[1])[:70]} = ...` rewrites entries of the result other than NaN"
        ctx.ob("R-DOM", clause, f, "the wrapper returns the evaluator's values (dtype cast only; no clip / nan_to_num(+/-inf) / masked rewrite of non-NaN entries)", ok4, why4 or f"{len(ps_)} returning path(s)")
    ctx.floor(clause, 3)



def run(ctx):
    prog = ctx.prog
    # ---- C10.1 counter discipline ---------------------------------------
    allowed = {prog.fn(M + ".evaluate_log_likelihood").qual, prog.fn(M + ".batch_evaluate_log_likelihood").qual, prog.fn(tables.BASE + ".resume_from_pickled_sampler").qual}
    sites = attr_stores(prog, "likelihood_evaluations")
    ctx.require(len(sites) >= 3, "stores to likelihood_evaluations not found")
    for f, n, kind in sites:
        ctx.ob("R-WRITERS", "C10.1", f, "likelihood_evaluations is written only by the two evaluators and the resume hook", f.qual in allowed, f"`{src(n)}` ({kind})", node=n)
    for name in ("evaluate_log_likelihood", "batch_evaluate_log_likelihood"):
        f = ctx.fn(f"{M}.{name}")
        fa = FA(f)
        aug = fa.find(lambda s: isinstance(s, ast.AugAssign) and is_self_attr(s.target, "likelihood_evaluations"))
        # (exactly-once per path is decided below, delegations to the sibling evaluator included)
        ok = len(aug) == 1 and isinstance(fa.stmt(aug[0]).op, ast.Add) and fa.once(aug[0])
        xname = f.params()[1]
        ctx.ob("R-ORDER", "C10.1", f, "the evaluator has one increment statement of the counter (an addition, outside any loop)", ok, f"`{fa.text(aug[0]) if aug else None}`")
        # the increment is the size of the batch: x.size / len(x) / x.shape[0], directly or through a local bound once
        # to it (the unit-hypercube mapping re-binds x to an array of the same length)
        inc_ = fa.stmt(aug[0]).value if len(aug) == 1 else None
        if isinstance(inc_, ast.Name):
            defs_ = [s_.value for s_ in walk_no_nested(f.node) if isinstance(s_, ast.Assign) and len(s_.targets) == 1 and isinstance(s_.targets[0], ast.Name) and s_.targets[0].id == inc_.id]
            inc_ = defs_[0] if len(defs_) == 1 else inc_
        bn_ = _batch_names(f, xname)
        ctx.ob("R-ORDER", "C10.1", f, "counter grows by the number of points in the batch (x.size)", inc_ is not None and any(src(inc_) in (f"{b_}.size", f"len({b_})", f"{b_}.shape[0]") for b_ in bn_), f"`{fa.text(aug[0]) if aug else None}`")
    # ... and "once" includes what it calls: a counting evaluator reaches no other writer of the counter (an evaluator
    # that delegates a special case to its sibling and then falls through to its own increment counts those points twice)
    from ..callgraph import callgraph as _cgf
    import networkx as _nx

    g_, _unres = _cgf(prog)
    ctx.require(ctx.fn(f"{M}.batch_evaluate_log_likelihood").qual in g_, "batch_evaluate_log_likelihood missing from the call graph")
    writers_ = {f_.qual for f_, _n, _k in sites}
    from ..resolve import resolver as _resolver

    res_ = _resolver(prog)
    for name in ("evaluate_log_likelihood", "batch_evaluate_log_likelihood"):
        f = ctx.fn(f"{M}.{name}")
        fa = FA(f)
        own_ = fa.find(lambda s: isinstance(s, ast.AugAssign) and is_self_attr(s.target, "likelihood_evaluations"))
        deleg_ = []
        for nid_, c_ in fa.find_expr(lambda e_: isinstance(e_, ast.Call)):
            for h_ in res_.resolve_call(f, c_, count=False) or []:
                if h_.qual != f.qual and (h_.qual in writers_ or (h_.qual in g_ and _nx.descendants(g_, h_.qual) & writers_)):
                    deleg_.append(nid_)
        cnt_ = sorted(set(own_) | set(deleg_))
        twice_ = [(fa.text(a_)[:40], fa.text(b_)[:40]) for a_ in cnt_ for b_ in cnt_ if (a_ != b_ and fa.cfg.can_follow(a_, b_)) or (a_ == b_ and fa.cfg.in_loop(a_))]
        ok_ = bool(cnt_) and fa.cfg.every_exit_path_passes(fa.cfg.entry, cnt_) and not twice_
        ctx.ob("R-ORDER", "C10.1", f, "every path through a counting evaluator counts its points exactly once: its own increment or one delegation to another counting evaluator, never both", ok_, f"counting statements {[fa.text(x_)[:50] for x_ in cnt_]}; executed one after the other: {twice_[:2]}")
    # the callables handed to the batch evaluator do not count
    for q in (M + ".log_likelihood", MP + ":log_likelihood_wrapper"):
        f = ctx.fn(q)
        touches = any(isinstance(n, ast.Attribute) and n.attr == "likelihood_evaluations" for n in ast.walk(f.node))
        ctx.ob("R-WRITERS", "C10.1", f, "the function handed to the batch evaluator does not touch the counter (no double counting)", not touches, "")
    # who may call the user's likelihood
    callers_ok = {"nessai.model", MP}
    n_calls = 0
    for f in prog.all_functions:
        for n in walk_no_nested(f.node):
            if isinstance(n, ast.Call) and isinstance(n.func, ast.Attribute) and n.func.attr == "log_likelihood":
                n_calls += 1
                ctx.ob("R-CALLERS", "C10.1", f, "the user's log_likelihood is called only inside Model and the pool wrapper (everything else goes through the counting evaluators)", f.module.name in callers_ok, f"`{src(n)}`", node=n)
    ctx.require(n_calls >= 3, "log_likelihood call sites not found")
    # passing the bound method around is allowed only to the evaluator / vectorisation probe
    for f in prog.all_functions:
        for n in walk_no_nested(f.node):
            if isinstance(n, ast.Attribute) and n.attr == "log_likelihood" and isinstance(n.ctx, ast.Load):
                par_call = _parent_call(f.node, n)
                if par_call is not None and par_call.func is not n:
                    ctx.ob("R-CALLERS", "C10.1", f, "log_likelihood is passed as a value only to batch_evaluate_function / check_vectorised_function inside Model", f.module.name == "nessai.model" and call_name(par_call) in ("batch_evaluate_function", "check_vectorised_function"), f"`{src(par_call)[:80]}`", node=n)
    ctx.floor("C10.1", 12)

    # ---- C10.2 unit hypercube mapping -------------------------------------
    for name in ("batch_evaluate_log_likelihood", "batch_evaluate_log_prior"):
        f = ctx.fn(f"{M}.{name}")
        fa = FA(f)
        x = f.params()[1]
        maps = fa.find(lambda s: isinstance(s, ast.Assign) and isinstance(s.targets[0], ast.Name) and s.targets[0].id == x and canon(s.value) == f"self.from_unit_hypercube({x})")
        calls = fa.find_calls("batch_evaluate_function")
        ctx.require(len(calls) == 1, f"{name}: expected one batch_evaluate_function call")
        okm = len(maps) == 1 and any(src(e) == "unit_hypercube" and t is True for e, t in guard_facts(fa, maps[0])) and fa.cfg.can_follow(maps[0], calls[0][0])
        # every other path (unit_hypercube false) reaches the call with x unchanged: no other assignment to x
        others = fa.find(lambda s: isinstance(s, (ast.Assign, ast.AugAssign)) and any(isinstance(t, ast.Name) and t.id == x for t in (s.targets if isinstance(s, ast.Assign) else [s.target])) and not (isinstance(s, ast.Assign) and isinstance(s.value, ast.Name) and s.value.id == x))  # (`x = x` is what an inlined helper's pass-through arm leaves)
        # ... or the mapped batch is a local bound once to `self.from_unit_hypercube(x) if unit_hypercube else x` and x is left alone
        mapped_ = [b_ for b_ in _batch_names(f, x) if b_ != x]
        alt_ = bool(mapped_) and not others and src(_bef_args(calls[0][1]).get("x")) in mapped_
        ctx.ob("R-DOM", "C10.2", f, "unit-hypercube inputs are mapped to physical points before evaluation, and only then", (okm and others == maps) or alt_, f"mapping statements {[fa.text(m) for m in others]}")
        ctx.ob("R-DOM", "C10.2", f, "the (possibly mapped) batch itself is what is evaluated", src(_bef_args(calls[0][1]).get("x")) == x or alt_, f"`{src(calls[0][1])[:100]}`")
    f = ctx.fn(M + ".batch_evaluate_log_prior_unit_hypercube")
    c = FA(f).find_calls("batch_evaluate_function")
    ctx.ob("R-DOM", "C10.2", f, "unit-hypercube prior is evaluated on the unit-hypercube points directly", len(c) == 1 and src(_bef_args(c[0][1]).get("x")) == f.params()[1] and not any(isinstance(n, ast.Call) and call_name(n) == "self.from_unit_hypercube" for n in walk_no_nested(f.node)), "")
    ctx.floor("C10.2", 5)

    wrapper_values_rule(ctx, "C10.4")

    # ---- C10.3 order-preserving primitives --------------------------------------
    bf = ctx.fn(MP + ":batch_evaluate_function")
    fa = FA(bf)
    # read from the path summaries: for every configuration (pool x vectorised x chunksize) the returned expression,
    # with locals substituted - whatever the arrangement of branches, early returns and temporaries
    from ..summ import summarise as _summ10, guard_texts as _gt10
    paths10 = [pa_ for pa_ in _summ10(bf.node) if pa_.end != "raise"]
    ctx.ob("R-ORDER", "C10.3", bf, "every branch (pool x vectorised x chunksize) produces a result", bool(paths10) and all(pa_.end == "return" and pa_.ret is not None and not (isinstance(pa_.ret, ast.Constant) and pa_.ret.value is None) for pa_ in paths10), f"{len(paths10)} paths")
    seen_cfg = {}
    for pa_ in paths10:
        g_ = dict(_gt10(pa_, canon))
        has_pool = g_.get("pool is None") is False
        cfgkey = (has_pool, g_.get("vectorised"), g_.get("chunksize") if g_.get("vectorised") else None)
        ret10 = pa_.ret
        # a final conversion np.asarray(result, dtype=D) / result.astype(D): the values stay those of the function only if
        # no dtype is imposed unless the caller asked for one (D is None, or the caller's own argument where it is not None) -
        # a default taken from the configuration would round every result through that type (float32 live points!)
        cast_ok, cast_why = True, ""
        for _ in range(2):
            d10 = None
            if isinstance(ret10, ast.Call) and (call_name(ret10) or "").split(".")[-1] in ("asarray", "array", "asanyarray") and ret10.args and any(k_.arg == "dtype" for k_ in ret10.keywords) and not (isinstance(ret10.args[0], (ast.ListComp, ast.List)) or (isinstance(ret10.args[0], ast.Call) and (call_name(ret10.args[0]) or "").split(".")[-1] in ("map", "list"))):
                d10 = next(k_.value for k_ in ret10.keywords if k_.arg == "dtype")
                ret10 = ret10.args[0]
            elif isinstance(ret10, ast.Call) and isinstance(ret10.func, ast.Attribute) and ret10.func.attr == "astype" and len(ret10.args) == 1:
                d10 = ret10.args[0]
                ret10 = ret10.func.value
            if d10 is None:
                break
            is_none = isinstance(d10, ast.Constant) and d10.value is None
            caller = isinstance(d10, ast.Name) and d10.id in bf.params()
            if not (is_none or caller):
                cast_ok, cast_why = False, f"results are cast to `{src(d10)[:50]}`"
        ok, why = order_preserving(ret10, has_pool) if ret10 is not None else (False, "no result")
        if ok and not cast_ok:
            ok, why = False, cast_why
        if cfgkey in seen_cfg and (seen_cfg[cfgkey][0] == ok or not seen_cfg[cfgkey][0]):
            continue  # (a failing path of a configuration is not overwritten by a passing one)
        seen_cfg[cfgkey] = (ok, why, pa_.ret)
    for cfgkey, (ok, why, ret_) in sorted(seen_cfg.items(), key=lambda kv: str(kv[0])):
        ctx.ob("R-SIB", "C10.3", bf, f"configuration pool={cfgkey[0]}, vectorised={cfgkey[1]}, chunked={cfgkey[2]}: split / map / combine are order-preserving and cover the whole batch", ok, f"`{src(ret_)[:110] if ret_ is not None else None}`: {why}")
    ctx.ob("R-SIB", "C10.3", bf, "all six configurations have their own branch", len(seen_cfg) == 6, f"{sorted(map(str, seen_cfg))}")
    # the number of sections handed to np.array_split is a number: a user-supplied pool whose size cannot be determined
    # leaves n_pool None (Model.n_pool defaults to None and configure_pool keeps it so), and np.array_split(x, None) raises -
    # the split must fall back to a positive count, or be guarded, or no caller may pass None
    from ..rules import nonnull as _nn10

    n_sec = 0
    for nid_, c_ in fa.find_expr(lambda e_: isinstance(e_, ast.Call) and call_name(e_) in ("np.array_split", "numpy.array_split") and len(norm_args(e_)) == 2):
        sec_ = norm_args(c_)[1]
        n_sec += 1
        if isinstance(sec_, ast.Name):
            mb_, why_ = _nn10.may_be_none(prog, bf, fa, nid_, sec_)
        else:
            mb_, why_ = False, ""
        ctx.ob("R-SIB", "C10.3", bf, "the number of sections of np.array_split cannot be None (a user pool of unknown size leaves n_pool None)", not mb_, f"`{src(c_)[:60]}`" + (f": {why_[:200]}" if mb_ else ""), node=c_)
    ctx.require(n_sec >= 1, "np.array_split over the pool size not found in batch_evaluate_function")
    bad = [src(n) for n in walk_no_nested(bf.node) if isinstance(n, ast.Attribute) and n.attr in ("imap_unordered", "map_async", "apply_async", "imap", "starmap_async", "apply")]
    ctx.ob("R-SIB", "C10.3", bf, "no unordered / asynchronous pool primitive is used", not bad, f"{bad}")
    wf = fa.find(lambda s: isinstance(s, ast.Assign) and isinstance(s.targets[0], ast.Name) and s.targets[0].id == "func_wrapper")
    okw = len(wf) == 1 and src(fa.stmt(wf[0]).value) == "func" and any(src(e) == "func_wrapper is None" and t for e, t in guard_facts(fa, wf[0]))
    ctx.ob("R-SIB", "C10.3", bf, "without a wrapper the pool maps the function itself", okw, "")
    sp = ctx.fn("nessai.utils.structures:array_split_chunksize")
    r = [pa_ for pa_ in _summ10(sp.node) if pa_.end == "return"]
    rv_ = canon(r[0].ret) if len(r) == 1 else None
    # (a) np.array_split at the multiples of the chunk size; (b) consecutive slices x[s:s+c] for s = 0, c, 2c, ... < len(x)
    idiom_a = rv_ == "array_split(x, range(chunksize, len(x), chunksize))"
    idiom_b = False
    why_b = ""
    if len(r) == 1 and not idiom_a and isinstance(r[0].ret, ast.ListComp) and len(r[0].ret.generators) == 1 and isinstance(r[0].ret.generators[0].target, ast.Name) and not r[0].ret.generators[0].ifs:
        # the loop variable is renamed; an empty input must still give one (empty) chunk - np.concatenate([]) raises -
        # so the range runs to max(1, len(x))
        v_ = r[0].ret.generators[0].target.id
        rv2_ = canon(r[0].ret, rename={v_: "s__"})
        for X_ in ("x", "asanyarray(x)", "asarray(x)"):
            for N_ in ("max(1, len(x))", "max(len(x), 1)", "len(x) or 1"):
                if rv2_ == canon(ast.parse(f"[{X_}[s__:s__ + chunksize] for s__ in range(0, {N_}, chunksize)]", mode="eval").body):
                    idiom_b = True
            if rv2_ == canon(ast.parse(f"[{X_}[s__:s__ + chunksize] for s__ in range(0, len(x), chunksize)]", mode="eval").body):
                why_b = ": an empty batch gives no chunk at all (np.array_split gives one empty chunk), and np.concatenate([]) in the caller raises"
    ctx.ob("R-SIB", "C10.3", sp, "chunking is np.array_split at multiples of the chunk size, or consecutive slices of that width (contiguous, ordered, complete)", idiom_a or idiom_b, f"`{rv_}`" + why_b)
    ctx.floor("C10.3", 10)

    wrapper_table(ctx, "C10.4")
    cv = ctx.fn(MP + ":check_vectorised_function")
    from ..pat import find_stmt, find_expr
    tg = find_stmt("$$t = array([func($$e) for $$e in x], dtype=dtype)", cv.node)
    bt = find_stmt("$$b = func(x).astype(dtype)", cv.node)
    cmp_ = find_expr("allclose($$t, $$b, atol=atol, rtol=rtol)", cv.node)
    ctx.ob("R-SIB", "C10.4", cv, "vectorisation probe compares the batch call against point-by-point calls of the same function", len(tg) == 1 and len(bt) == 1 and len(cmp_) == 1 and src(cmp_[0][1]["t"]) == src(tg[0][1]["t"]) and src(cmp_[0][1]["b"]) == src(bt[0][1]["b"]), "")
    ctx.floor("C10.4", 12)
    # ---- C10.5 the probe that licenses the batch path demands agreement to round-off --------------------------------
    # batch_evaluate_* takes the batch path only when check_vectorised_function said the function is vectorised; that
    # verdict is "batch == pointwise" only as tightly as the probe's tolerances: a function whose per-point value
    # depends on its batch companions at the 1e-8 level would pass a sqrt(eps) probe and then return values that
    # change with the chunk size.  Obligation: the tolerances allclose receives are numeric literals <= 1e-12 or a
    # small multiple of the dtype's eps, whether they come from the defaults or from a call site.
    def _tight(e_):
        if isinstance(e_, ast.Constant) and isinstance(e_.value, (int, float)) and not isinstance(e_.value, bool):
            return 0 <= e_.value <= 1e-12
        if isinstance(e_, ast.BinOp) and isinstance(e_.op, ast.Mult):
            for a_, b_ in ((e_.left, e_.right), (e_.right, e_.left)):
                if isinstance(a_, ast.Constant) and isinstance(a_.value, (int, float)) and a_.value <= 1e3 and src(b_).replace("numpy", "np").endswith(".eps") and "finfo" in src(b_):
                    return True
        if isinstance(e_, ast.Attribute) and e_.attr == "eps" and "finfo" in src(e_):
            return True
        return False

    args_ = cv.node.args
    defaults_ = dict(zip([a_.arg for a_ in args_.args][len(args_.args) - len(args_.defaults):], args_.defaults))
    defaults_.update({a_.arg: d_ for a_, d_ in zip(args_.kwonlyargs, args_.kw_defaults) if d_ is not None})
    rebinds_ = {s_.targets[0].id for s_ in walk_no_nested(cv.node) if isinstance(s_, ast.Assign) and len(s_.targets) == 1 and isinstance(s_.targets[0], ast.Name)} | {s_.target.id for s_ in walk_no_nested(cv.node) if isinstance(s_, ast.AugAssign) and isinstance(s_.target, ast.Name)}
    for tol_ in ("atol", "rtol"):
        d_ = defaults_.get(tol_)
        used_ = bool(cmp_) and any(k_.arg == tol_ and src(k_.value) == tol_ for c_ in [x_ for x_ in walk_no_nested(cv.node) if isinstance(x_, ast.Call) and (call_name(x_) or "").endswith("allclose")] for k_ in c_.keywords)
        ctx.ob("R-SIB", "C10.5", cv, f"the vectorisation probe compares with a round-off level `{tol_}` (a literal <= 1e-12 or a small multiple of the dtype's eps), passed unchanged to allclose", d_ is not None and _tight(d_) and tol_ not in rebinds_ and used_, f"default `{src(d_) if d_ is not None else None}`" + (f"; `{tol_}` is re-bound inside the function" if tol_ in rebinds_ else ""))
    n_sites_ = 0
    for f_ in prog.all_functions:
        for c_ in walk_no_nested(f_.node):
            if isinstance(c_, ast.Call) and (call_name(c_) or "").split(".")[-1] == "check_vectorised_function":
                n_sites_ += 1
                over_ = [k_ for k_ in c_.keywords if k_.arg in ("atol", "rtol")] + list(c_.args[3:])
                ctx.ob("R-SIB", "C10.5", f_, "callers of the probe do not loosen its tolerances", all(_tight(k_.value if isinstance(k_, ast.keyword) else k_) for k_ in over_), f"`{src(c_)[:80]}`", node=c_)
    ctx.require(n_sites_ >= 3, f"only {n_sites_} calls of check_vectorised_function found")
    ctx.floor("C10.5", 5)
    ctx.assumptions += ["pool.map / builtin map / list comprehensions return results in input order; np.array_split and np.concatenate preserve order", "value equality between vectorised and pointwise evaluation of a user function is the user's contract (probed at run time)"]


def _parent_call(fnode, node):
    for n in ast.walk(fnode):
        if isinstance(n, ast.Call):
            if n.func is node or any(a is node for a in n.args) or any(k.value is node for k in n.keywords):
                return n
    return None


def _batch_names(f, xname):
    """names that denote the batch in a wrapper: the parameter, and a local bound once to the (possibly mapped) batch -
    `self.from_unit_hypercube(x) if unit_hypercube else x`"""
    out = [xname]
    for s_ in walk_no_nested(f.node):
        if isinstance(s_, ast.Assign) and len(s_.targets) == 1 and isinstance(s_.targets[0], ast.Name) and s_.targets[0].id != xname:
            v_ = s_.value
            if isinstance(v_, ast.IfExp) and src(v_.test) == "unit_hypercube" and canon(v_.body) == f"self.from_unit_hypercube({xname})" and src(v_.orelse) == xname:
                if sum(1 for t_ in walk_no_nested(f.node) if isinstance(t_, ast.Name) and t_.id == s_.targets[0].id and isinstance(t_.ctx, ast.Store)) == 1:
                    out.append(s_.targets[0].id)
    for s_ in walk_no_nested(f.node):
        # (the same binding after normalisation: one assignment in each arm of `if unit_hypercube:`)
        if isinstance(s_, ast.If) and src(s_.test) == "unit_hypercube" and len(s_.body) == 1 and len(s_.orelse) == 1 and all(isinstance(a_, ast.Assign) and len(a_.targets) == 1 and isinstance(a_.targets[0], ast.Name) for a_ in (s_.body[0], s_.orelse[0])):
            a_, b_ = s_.body[0], s_.orelse[0]
            n_ = a_.targets[0].id
            if n_ == b_.targets[0].id and n_ != xname and canon(a_.value) == f"self.from_unit_hypercube({xname})" and src(b_.value) == xname:
                if sum(1 for t_ in walk_no_nested(f.node) if isinstance(t_, ast.Name) and t_.id == n_ and isinstance(t_.ctx, ast.Store)) == 2 and n_ not in out:
                    out.append(n_)
    return out


def _bef_args(call):
    """{parameter name: expression} of a batch_evaluate_function call, positional or keyword."""
    sig = ["func", "x", "vectorised", "chunksize", "func_wrapper", "pool", "n_pool"]
    try:
        from ..canon import SIGNATURES
        sig = SIGNATURES.get("batch_evaluate_function") or sig
    except Exception:
        pass
    out = {sig[i]: a for i, a in enumerate(call.args) if i < len(sig)}
    out.update({k.arg: k.value for k in call.keywords if k.arg})
    return out


def _sections_ok(e):
    """number of sections of np.array_split: the pool size, possibly with a positive fallback for an unknown size"""
    t = src(e)
    if t == "n_pool":
        return True
    if isinstance(e, ast.BoolOp) and isinstance(e.op, ast.Or) and len(e.values) == 2 and src(e.values[0]) == "n_pool" and isinstance(e.values[1], ast.Constant) and isinstance(e.values[1].value, int) and e.values[1].value >= 1:
        return True
    if isinstance(e, ast.IfExp) and src(e.body) == "n_pool" and src(e.test) in ("n_pool", "n_pool is not None") and isinstance(e.orelse, ast.Constant) and isinstance(e.orelse.value, int) and e.orelse.value >= 1:
        return True
    return False


def order_preserving(e, has_pool):
    """Structural grammar:  combine := np.concatenate(M) | np.array(M).flatten() | F(x)
       M := list(M) | map(F, S) | pool.map(F, S) | [F(v) for v in S]
       S := array_split_chunksize(x, chunksize) | np.array_split(x, n_pool) | x"""
    F_ok = ("func_wrapper", "func") if has_pool else ("func",)

    def S(n):
        if isinstance(n, ast.Name) and n.id == "x":
            return True, "x"
        if isinstance(n, ast.Call) and call_name(n) == "array_split_chunksize" and [src(a) for a in norm_args(n)] == ["x", "chunksize"]:
            return True, "chunks"
        if isinstance(n, ast.Call) and call_name(n) in ("np.array_split", "numpy.array_split") and len(norm_args(n)) == 2 and src(norm_args(n)[0]) == "x" and _sections_ok(norm_args(n)[1]) and len(norm_args(n)) == len(n.args) + len(n.keywords):
            return True, "split"
        return False, f"`{src(n)}` is not a recognised order-preserving split of x"

    def Mp(n):
        if isinstance(n, ast.Call) and call_name(n) == "list" and len(n.args) == 1:
            return Mp(n.args[0])
        if isinstance(n, ast.Call) and call_name(n) in (("pool.map",) if has_pool else ("map",)) and len(n.args) == 2 and not n.keywords:
            if src(n.args[0]) not in F_ok:
                return False, f"maps `{src(n.args[0])}` instead of {F_ok}"
            return S(n.args[1])
        if isinstance(n, ast.ListComp) and len(n.generators) == 1 and not n.generators[0].ifs and not has_pool:
            g = n.generators[0]
            if isinstance(n.elt, ast.Call) and src(n.elt.func) in F_ok and len(n.elt.args) == 1 and src(n.elt.args[0]) == src(g.target):
                return S(g.iter)
        return False, f"`{src(n)[:80]}` is not a recognised order-preserving map"

    if isinstance(e, ast.Call) and src(e.func) in F_ok and [src(a) for a in e.args] == ["x"] and not has_pool:
        return True, "direct call on the whole batch"
    if isinstance(e, ast.Call) and call_name(e) in ("np.concatenate", "numpy.concatenate") and len(e.args) == 1 and not e.keywords:
        ok, why = Mp(e.args[0])
        return (ok and why != "x"), ("concatenate of per-chunk results" if ok and why != "x" else f"concatenate over {why}")
    flat_ = None
    if isinstance(e, ast.Call) and isinstance(e.func, ast.Attribute) and e.func.attr in ("flatten", "ravel") and not e.args and not (isinstance(e.func.value, ast.Name) and e.func.value.id in ("np", "numpy")):
        flat_ = e.func.value
    elif isinstance(e, ast.Call) and call_name(e) in ("np.ravel", "numpy.ravel") and len(e.args) == 1 and not e.keywords:
        flat_ = e.args[0]
    if flat_ is not None:
        inner = flat_
        if isinstance(inner, ast.Call) and call_name(inner) in ("np.array", "numpy.array") and len(inner.args) == 1:
            ok, why = Mp(inner.args[0])
            return (ok and why == "x"), ("array of per-point results" if ok and why == "x" else f"per-point array over {why}")
    return False, "not a recognised combine form"


CLAIM = {
    "text": "Decides the structural conditions under which batch evaluation equals pointwise evaluation in order and is counted once: the evaluation counter is written only by the two evaluators (+= batch size, exactly once on every path) and the resume hook; the functions handed to the batch evaluator never touch it; the user's log_likelihood is called (or passed as a value) only inside Model and the pool wrapper; unit-hypercube batches are mapped by from_unit_hypercube exactly when unit_hypercube is true and the mapped batch is what is evaluated; each of the six pool x vectorised x chunksize branches of batch_evaluate_function matches a grammar of order-preserving split (array_split / chunks / iteration), map (map / pool.map / comprehension) and combine (concatenate / array().flatten()) over the whole batch, with no unordered or async pool primitive; the function / pool-wrapper / vectorisation-flag / probe table is consistent for likelihood, prior and unit-hypercube prior. The vectorisation probe that licenses the batch path compares batch and pointwise values at round-off level: its tolerances are literals <= 1e-12 or a small multiple of the dtype's eps, not re-bound, and no caller loosens them (C10.5). Every path through a counting evaluator counts its points by exactly one increment or one delegation to the sibling evaluator, never both (C10.1). A final conversion of the batch results keeps the function's own dtype unless the caller asks for one (C10.3). The three batch wrappers return batch_evaluate_function(...) itself (dtype cast only; no clip, no nan_to_num with its default +/-inf replacement, no masked rewrite of non-NaN entries) (C10.4). The slice form of the chunking still yields one (empty) chunk for an empty batch. The number of sections handed to np.array_split over the pool size cannot be None (a user-supplied pool of unknown size leaves n_pool None): found violated on the pinned tree for the parallel vectorised prior and repaired.",
    "note": "Trusts the ordering guarantees of pool.map, map, np.array_split and np.concatenate. Value equality of a user's vectorised and pointwise likelihood, remainder arithmetic of array_split over all (n, chunksize) and real pool scheduling are not decided.",
}

_MO = "nessai/model.py"
_MPF = "nessai/utils/multiprocessing.py"
MUTANTS = [
    {"id": "sections-none-for-unknown-pool", "file": "nessai/utils/multiprocessing.py", "old": "np.array_split(x, n_pool or 1)", "new": "np.array_split(x, n_pool)", "expect": "number of sections"},
    {"id": "likelihood-clipped-on-return", "file": "nessai/model.py", "old": "        return log_likelihood.astype(config.livepoints.logl_dtype)", "new": "        return np.nan_to_num(log_likelihood.astype(config.livepoints.logl_dtype))", "expect": "C10.4"},
    {"id": "double-count", "file": _MPF, "old": "    return _model.log_likelihood(x)\n", "new": "    _model.likelihood_evaluations += x.size\n    return _model.log_likelihood(x)\n", "expect": "likelihood_evaluations is written only"},
    {"id": "count-per-call", "file": _MO, "old": "        self.likelihood_evaluations += x.size\n        self.likelihood_evaluation_time", "new": "        self.likelihood_evaluations += 1\n        self.likelihood_evaluation_time", "expect": "counter grows by the number of points"},
    {"id": "count-only-without-pool", "file": _MO, "old": "        self.likelihood_evaluations += x.size\n        self.likelihood_evaluation_time", "new": "        if self.pool is None:\n            self.likelihood_evaluations += x.size\n        self.likelihood_evaluation_time", "expect": "counts its points exactly once"},
    {"id": "direct-likelihood-call", "file": "nessai/samplers/nestedsampler.py", "old": "                        newparam[\"logL\"] = self.model.evaluate_log_likelihood(\n                            newparam\n                        )", "new": "                        newparam[\"logL\"] = self.model.log_likelihood(\n                            newparam\n                        )", "expect": "called only inside Model"},
    {"id": "hypercube-not-mapped", "file": _MO, "old": "        st = datetime.datetime.now()\n        if unit_hypercube:\n            x = self.from_unit_hypercube(x)\n", "new": "        st = datetime.datetime.now()\n", "expect": "unit-hypercube inputs are mapped"},
    {"id": "hypercube-always-mapped", "file": _MO, "old": "        if unit_hypercube:\n            x = self.from_unit_hypercube(x)\n        return batch_evaluate_function(\n            self.log_prior,", "new": "        x = self.from_unit_hypercube(x)\n        return batch_evaluate_function(\n            self.log_prior,", "expect": "unit-hypercube inputs are mapped"},
    {"id": "unordered-pool", "file": _MPF, "old": "            out = np.array(pool.map(func_wrapper, x)).flatten()", "new": "            out = np.array(list(pool.imap_unordered(func_wrapper, x))).flatten()", "expect": "C10.3"},
    {"id": "pool-split-drops-tail", "file": _MPF, "old": "pool.map(func_wrapper, np.array_split(x, n_pool))", "new": "pool.map(func_wrapper, np.array_split(x[: n_pool * (len(x) // n_pool)], n_pool))", "expect": "order-preserving"},
    {"id": "chunks-reversed", "file": "nessai/utils/structures.py", "old": "    return np.array_split(x, range(chunksize, len(x), chunksize))", "new": "    return np.array_split(x, range(chunksize, len(x), chunksize))[::-1]", "expect": "chunking is np.array_split"},
    {"id": "wrong-wrapper", "file": _MO, "old": "            func_wrapper=log_prior_unit_hypercube_wrapper,", "new": "            func_wrapper=log_prior_wrapper,", "expect": "its own wrapper"},
    {"id": "wrapper-calls-other-method", "file": _MPF, "old": "    return _model.log_prior_unit_hypercube(x)", "new": "    return _model.log_prior(x)", "expect": "pool wrapper calls the same-named method"},
    {"id": "wrong-vectorised-flag", "file": _MO, "old": "            self.allow_vectorised_prior and self.vectorised_prior,", "new": "            self.allow_vectorised_prior and self.vectorised_likelihood,", "expect": "its own vectorisation flag"},
    {"id": "probe-wrong-function", "file": _MO, "old": "                self._vectorised_prior = check_vectorised_function(\n                    self.log_prior,", "new": "                self._vectorised_prior = check_vectorised_function(\n                    self.log_likelihood,", "expect": "C10"},
]
