"""C14 - seeded runs are reproducible and independent of parallelisation settings.

R-RNG: whole-package audit of randomness sources, seeding discipline, and a
taint / control-dependence check that the amount of randomness consumed does
not depend on the likelihood-parallelisation settings.
"""

import ast

import networkx as nx

from .. import tables
from ..callgraph import callgraph
from ..pm import FunctionInfo, dotted, src
from ..q import FA, call_name, cfg_of, guard_facts, is_self_attr, walk_no_nested
from ..resolve import resolver
from ..rules.api import ext_aliases

TECHNIQUE = "R-RNG: package-wide classification of every random-producing call site by the resolved library path (global numpy/torch generator vs. anything else), who-may-seed, R-ORDER on the seeding call chain, taint + control-dependence analysis of RNG-consuming calls against parallelisation settings; dominating-read rule for memoised probes and RNG save/restore brackets; set-iteration audit with a reviewed table"

NP_CONSUMERS = {"rand", "randn", "random", "random_sample", "uniform", "normal", "choice", "permutation", "shuffle", "randint", "multinomial", "multivariate_normal", "exponential", "gamma", "beta", "standard_normal", "chisquare", "binomial", "poisson", "sample", "ranf", "dirichlet", "laplace", "lognormal", "triangular", "vonmises", "power"}
NP_FORBIDDEN = {"default_rng", "RandomState", "Generator", "SeedSequence", "PCG64", "MT19937", "Philox", "SFC64", "BitGenerator"}
TORCH_CONSUMERS = {"rand", "randn", "randint", "randperm", "normal", "multinomial", "bernoulli", "rand_like", "randn_like", "randint_like", "poisson"}
TORCH_FORBIDDEN = {"Generator", "seed", "initial_seed", "default_generator"}
STDLIB_FORBIDDEN_MODULES = {"random", "secrets", "uuid"}
TAINT_SOURCES = {"pool", "n_pool", "likelihood_chunksize", "parallelise_prior"}

# positive fixture for the zero-count rules: must be flagged on every run
FIXTURE = """
import random, uuid
import numpy as np
import torch
def f(n):
    rng = np.random.default_rng(1)
    g = torch.Generator()
    return random.random(), uuid.uuid4(), rng.normal(size=n), torch.rand(n, generator=g)
"""


def classify_call(c, aliases):
    """('np-consumer'|'torch-consumer'|'scipy-rvs'|'seed'|'forbidden', description) or None."""
    d = dotted(c.func)
    if d is None:
        if isinstance(c.func, ast.Attribute) and c.func.attr == "rvs":
            if any(k.arg == "random_state" for k in c.keywords):
                return ("forbidden", "scipy rvs with its own random_state")
            return ("scipy-rvs", "scipy distribution .rvs() (global numpy generator)")
        return None
    parts = d.split(".")
    root = aliases.get(parts[0])
    if root is None:
        if parts[-1] == "rvs" and len(parts) >= 2:
            if any(k.arg == "random_state" for k in c.keywords):
                return ("forbidden", "scipy rvs with its own random_state")
            return ("scipy-rvs", "scipy distribution .rvs() (global numpy generator)")
        if d in ("os.urandom",):
            return ("forbidden", "os.urandom")
        return None
    full = ".".join([root] + parts[1:])
    if full.startswith("numpy.random."):
        fn = full.split(".")[2]
        if fn == "seed":
            return ("seed", full)
        if fn in ("get_state", "set_state"):
            return None  # saving / restoring the state of the global generator (no draw, no second generator)
        if fn in NP_FORBIDDEN:
            return ("forbidden", f"{full}: a generator other than numpy's global one")
        if fn in NP_CONSUMERS:
            return ("np-consumer", full)
        return ("forbidden", f"{full}: unclassified numpy.random member")
    if full.startswith("torch."):
        fn = full.split(".")[1] if len(full.split(".")) == 2 else None
        if full == "torch.manual_seed":
            return ("seed", full)
        if full in ("torch.get_rng_state", "torch.set_rng_state", "torch.random.get_rng_state", "torch.random.set_rng_state"):
            return None  # state of the global generator
        if fn in TORCH_FORBIDDEN or full.startswith("torch.random.") or full.startswith("torch.cuda.manual_seed"):
            return ("forbidden", f"{full}: non-global / re-seeding torch generator API")
        if fn in TORCH_CONSUMERS:
            if any(k.arg == "generator" for k in c.keywords):
                return ("forbidden", f"{full} with an explicit generator")
            return ("torch-consumer", full)
        return None
    if full.startswith("scipy.stats") and parts[-1] == "rvs":
        if any(k.arg == "random_state" for k in c.keywords):
            return ("forbidden", "scipy rvs with its own random_state")
        return ("scipy-rvs", full)
    if full.split(".")[0] in STDLIB_FORBIDDEN_MODULES:
        return ("forbidden", f"{full}: stdlib randomness is not seeded by configure_random_seed")
    if full == "os.urandom":
        return ("forbidden", full)
    return None


def module_aliases(prog, m):
    out = dict(ext_aliases(prog, m))
    if out.get("numpy") == "numpy":
        out.setdefault("np", "numpy")  # dotted() spells a bare `numpy` root as `np`
    for local, (mod, attr) in m.imports.items():
        top = mod.split(".")[0]
        if top in STDLIB_FORBIDDEN_MODULES | {"os"}:
            out[local] = mod if attr is None else f"{mod}.{attr}"
    return out


def scan_source_tree(tree, aliases):
    out = []
    for n in ast.walk(tree):
        if isinstance(n, ast.Call):
            k = classify_call(n, aliases)
            if k:
                out.append((n, k))
    return out


def run(ctx):
    prog = ctx.prog
    res = resolver(prog)
    g, _ = callgraph(prog)

    # ---- positive fixture -------------------------------------------------
    ft = ast.parse(FIXTURE)
    fa_al = {"random": "random", "uuid": "uuid", "np": "numpy", "torch": "torch"}
    flagged = [k for n, k in scan_source_tree(ft, fa_al) if k[0] == "forbidden"]
    ctx.require(len(flagged) >= 5, f"R-RNG fixture: the forbidden-source rule matched only {len(flagged)} of the planted sites")

    # ---- C14.1 source whitelist -----------------------------------------------
    sites = []
    seeders = []
    for f in prog.all_functions:
        if f.parent is not None:
            continue
        al = module_aliases(prog, f.module)
        for n, (kind, desc) in scan_source_tree(f.node, al):
            if kind == "forbidden":
                ctx.ob("R-RNG", "C14.1", f, f"randomness comes only from the numpy / torch global generators", False, f"`{src(n)[:80]}`: {desc}", node=n)
            elif kind == "seed":
                seeders.append((f, n, desc))
            else:
                sites.append((f, n, kind, desc))
                ctx.ob("R-RNG", "C14.1", f, f"random draw {desc} uses the global generator seeded by configure_random_seed", True, f"`{src(n)[:80]}`", node=n)
    # module-level and class-level code (outside any function)
    for m in prog.modules.values():
        al = module_aliases(prog, m)
        top = [st for st in ast.walk(m.tree) if isinstance(st, ast.stmt) and not isinstance(st, (ast.FunctionDef, ast.AsyncFunctionDef, ast.ClassDef))]
        in_fn = set()
        for fdef in ast.walk(m.tree):
            if isinstance(fdef, (ast.FunctionDef, ast.AsyncFunctionDef)):
                for x in ast.walk(fdef):
                    in_fn.add(id(x))
        for st in top:
            if id(st) in in_fn:
                continue
            for n in walk_no_nested(st):
                if isinstance(n, ast.Call) and id(n) not in in_fn:
                    k = classify_call(n, al)
                    if k:
                        ctx.ob("R-RNG", "C14.1", m.name, "no random draw, generator or seeding at import time", False, f"`{src(n)[:80]}` at module level: {k[1]}", node=n)
    for m in prog.modules.values():
        for local, (mod, attr) in m.imports.items():
            if mod.split(".")[0] in STDLIB_FORBIDDEN_MODULES:
                ctx.ob("R-RNG", "C14.1", m.name, "no stdlib randomness module is imported", False, f"`import {mod}` in {m.relpath}")
    ctx.extra["random_draw_sites"] = len(sites)
    ctx.extra["random_draw_sites_by_kind"] = {k: sum(1 for s in sites if s[2] == k) for k in ("np-consumer", "torch-consumer", "scipy-rvs")}
    ctx.floor("C14.1", 40)

    # ---- C14.2 seeding discipline ------------------------------------------------
    crs = ctx.fn(tables.BASE + ".configure_random_seed")
    for f, n, desc in seeders:
        ctx.ob("R-RNG", "C14.2", f, f"{desc} is called only from configure_random_seed", f is crs, f"`{src(n)}`", node=n)
    ca = FA(crs)
    s1 = ca.find(lambda s: isinstance(s, ast.Assign) and any(is_self_attr(t, "seed") for t in s.targets))
    s2 = ca.find_calls("np.random.seed")
    s3 = ca.find_calls("torch.manual_seed")
    ok = len(s1) == 1 and len(s2) == 1 and len(s3) == 1 and all(ca.on_every_normal_path(x) for x in (s1[0], s2[0][0], s3[0][0])) and ca.dominates(s1[0], s2[0][0])
    vals = [src(k.value) for k in s2[0][1].keywords] + [src(a) for a in s2[0][1].args] if s2 else []
    vt = [src(a) for a in s3[0][1].args] if s3 else []
    # (the argument is the stored seed: `self.seed`, or the local it was stored from - compared on the path summaries)
    from ..summ import summarise as _summ142
    from ..canon import canon as _canon142

    same_seed = True
    for pa_ in [p_ for p_ in _summ142(crs.node) if p_.end != "raise"]:
        v_ = pa_.env.get("self.seed")
        args_ = []
        for ef_ in pa_.effects:
            if ef_[0] == "call" and isinstance(ef_[1], ast.Call) and (dotted(ef_[1].func) or "").endswith(("random.seed", "manual_seed")):
                args_ += [a_ for a_ in ef_[1].args] + [k_.value for k_ in ef_[1].keywords]
        if v_ is None or len(args_) != 2 or any(_canon142(a_) not in (_canon142(v_), "self.seed") for a_ in args_):
            same_seed = False
    ctx.ob("R-ORDER", "C14.2", crs, "both the numpy and the torch global generators are seeded with the stored seed on every path", ok and same_seed, f"np.random.seed({vals}) torch.manual_seed({vt})")
    bi = ctx.fn(tables.BASE + ".__init__")
    ba = FA(bi)
    cc = ba.find_calls("self.configure_random_seed")
    ctx.ob("R-ORDER", "C14.2", bi, "the base constructor seeds on every path with the user's seed", len(cc) == 1 and ba.on_every_normal_path(cc[0][0]) and src(cc[0][1].args[0]) == "seed", "")
    seed_once_rule(ctx, "C14.2")
    rngfns = rng_consumers(prog, g, sites)
    ctx.extra["functions_that_can_consume_randomness"] = len(rngfns)
    # in each sampler constructor: super().__init__ (seeding) dominates every later RNG-consuming call
    for cq in (tables.NS, tables.INS):
        f = ctx.fn(cq + ".__init__")
        fa = FA(f)
        sup = fa.find_expr(lambda e: isinstance(e, ast.Call) and isinstance(e.func, ast.Attribute) and e.func.attr == "__init__" and isinstance(e.func.value, ast.Call) and call_name(e.func.value) == "super")
        ctx.require(len(sup) == 1, f"{cq}.__init__: super().__init__ call not found")
        kw = {k.arg: src(k.value) for k in sup[0][1].keywords}
        ctx.ob("R-ORDER", "C14.2", f, "the sampler forwards the user's seed to the base constructor", kw.get("seed") == "seed", f"{kw.get('seed')}")
        bad = []
        for nid, c in fa.find_expr(lambda e: isinstance(e, ast.Call)):
            if nid == sup[0][0]:
                continue
            tg = res.resolve_call(f, c, count=False) or []
            if any(h.qual in rngfns for h in tg) or classify_call(c, module_aliases(prog, f.module)):
                if not fa.dominates(sup[0][0], nid):
                    bad.append(src(c)[:60])
        ctx.ob("R-ORDER", "C14.2", f, "every call in the sampler constructor that can consume randomness runs after the generators were seeded", not bad, f"before seeding: {bad}")
    # consumers inside the base constructor before the seeding call are reset by it: list them
    pre = []
    for nid, c in ba.find_expr(lambda e: isinstance(e, ast.Call)):
        tg = res.resolve_call(bi, c, count=False) or []
        if any(h.qual in rngfns for h in tg) and cc and not ba.dominates(cc[0][0], nid):
            pre.append(src(c)[:50])
    ctx.note(f"RNG consumers that run before seeding in BaseNestedSampler.__init__ (harmless: seeding resets the generator state): {pre}")
    ctx.floor("C14.2", 7)

    # ---- C14.4 parallelisation-independent RNG consumption --------------------------
    tainted = taint_attrs(prog)
    ctx.extra["tainted_attributes"] = sorted(tainted)
    n_checked = 0
    # property names all of whose in-package definitions consume randomness (vectorised_likelihood, ...)
    by_name = {}
    for f_ in prog.all_functions:
        if f_.is_property and not f_.is_setter and f_.cls is not None:
            by_name.setdefault(f_.name, []).append(f_)
    rng_props = {n_: fs_[0].short for n_, fs_ in by_name.items() if all(x_.qual in rngfns for x_ in fs_)}
    for f in prog.all_functions:
        if f.parent is not None:
            continue
        cfg = cfg_of(f)
        fa = FA(f)
        al = module_aliases(prog, f.module)
        for node in cfg.statement_nodes():
            for part in cfg.own_exprs(node.id):
                for e in walk_no_nested(part):
                    consumer = None
                    if isinstance(e, ast.Call):
                        k = classify_call(e, al)
                        if k and k[0] not in ("seed", "forbidden"):
                            consumer = k[1]
                        else:
                            tg = res.resolve_call(f, e, count=False) or []
                            hit = [h for h in tg if h.qual in rngfns]
                            if hit:
                                consumer = f"call of {hit[0].short}"
                    elif isinstance(e, ast.Attribute) and isinstance(e.ctx, ast.Load):
                        tys = res.expr_type(f, e.value)
                        for c in tys or []:
                            mth = prog.find_method(c, e.attr)
                            if mth is not None and mth.is_property and mth.qual in rngfns:
                                consumer = f"read of property {mth.short}"
                        if not tys and e.attr in rng_props and not (isinstance(e.value, ast.Name) and e.value.id in ("np", "numpy", "torch")):
                            # untyped receiver (a parameter such as `model`): the name belongs to RNG-consuming properties only
                            consumer = f"read of property {rng_props[e.attr]} (receiver `{src(e.value)[:30]}` untyped; every in-package property of that name consumes randomness)"
                    if consumer is None:
                        continue
                    n_checked += 1
                    if _state_restored(prog, g, sites, f, fa, node.id, e, al, res):
                        # the draw sits in `state = np.random.get_state(); try: ... finally: np.random.set_state(state)`
                        # and reaches the numpy generator only: the stream every later consumer sees is unchanged
                        continue
                    if consumer.startswith("read of property") and _already_read(prog, f, fa, cfg, node.id, part, e, rngfns, res):
                        # a memoised probe consumes randomness on its first read only: this read is dominated by an
                        # identical read (same short-circuit prefix), which carries the obligations
                        continue
                    why = {}  # tainted attribute -> how the consumption depends on it
                    for test, label in fa.guards(node.id):
                        if isinstance(test, ast.expr):
                            for t in all_taints(test, tainted):
                                why.setdefault(t, f"control-dependent on `{src(test)[:60]}`")
                    for t, how in short_circuit_taints(part, e, tainted):
                        why.setdefault(t, how)
                    # one obligation per (consuming site, setting it depends on): a known dependence on one
                    # setting never hides a new dependence on another
                    for t, how in sorted(why.items()):
                        ctx.ob("R-RNG", "C14.4", f, f"randomness consumed by `{src(e)[:50]}` does not depend on the parallelisation setting `{t}`", False, f"{consumer}: {how}", node=e)
    # enabling a pool (or parallel prior evaluation) must not change *what* is evaluated
    from .C10 import wrapper_table

    wrapper_table(ctx, "C14.4")
    ctx.ob("R-RNG", "C14.4", "nessai", "taint / control-dependence analysis ran over every RNG-consuming call and property read", True, f"{n_checked} consuming sites checked against tainted attributes {sorted(tainted)}")
    ctx.require(n_checked >= 60, f"only {n_checked} RNG-consuming sites found")

    # ---- C14.5 nothing that reaches the sampler is ordered by a set ----------------------------------------------------
    # str hashes are randomised per process: iterating a set of names (or extending a list with one) gives an order that
    # differs between two processes started with the same seed - parameter order, hence the columns of the flow's input,
    # hence the trained flow.  Every iteration over a set-typed expression in the package is either wrapped in sorted(),
    # or one of the reviewed order-insensitive uses below; anything new is reported.
    REVIEWED_SET_ITER = {
        ("__getstate__", "d.keys() - exclude"): "builds the state dict; key order does not reach any result",
        ("check_proposal_kwargs", "proposals"): "set of classes searched for accepted keyword names (union, order-free)",
        ("check_proposal_kwargs", "extra_keys"): "only reported in the error message",
        ("__init__", "{0, 1, 2} - {hz, vt}"): "a one-element set (the remaining axis)",
        ("_plot_training_data", "labels"): "plotting only",
    }

    # the same reviewed sites keyed without local names: names replaced by `_` (attribute / call names kept)
    def _shape_key(e_, binds_, depth_=0):
        import copy as _copy

        e2_ = _copy.deepcopy(e_)

        class _Anon(ast.NodeTransformer):
            def visit_Name(self, n_):
                return ast.copy_location(ast.Name(id="_", ctx=n_.ctx), n_)

        return src(_Anon().visit(e2_))

    REVIEWED_SET_SHAPES = {
        ("__getstate__", "_.keys() - _"): REVIEWED_SET_ITER[("__getstate__", "d.keys() - exclude")],
        ("check_proposal_kwargs", "_"): "see the named entries of check_proposal_kwargs",
        ("__init__", "{0, 1, 2} - {_, _}"): REVIEWED_SET_ITER[("__init__", "{0, 1, 2} - {hz, vt}")],
        ("_plot_training_data", "_"): REVIEWED_SET_ITER[("_plot_training_data", "labels")],
    }

    def _setexpr(e_, names_):
        if isinstance(e_, (ast.Set, ast.SetComp)):
            return True
        if isinstance(e_, ast.Call):
            f_ = e_.func
            if isinstance(f_, ast.Name) and f_.id in ("set", "frozenset"):
                return True
            if isinstance(f_, ast.Attribute) and f_.attr in ("difference", "union", "intersection", "symmetric_difference"):
                # a set method only on a set receiver (pandas.Index has methods of the same names and is ordered); an
                # unknown receiver (a parameter, an attribute) is taken as a set unless it is spelled `<x>.columns` / `.index`
                rv_ = f_.value
                if isinstance(rv_, ast.Attribute) and rv_.attr in ("columns", "index"):
                    return False
                return True
            return False
        if isinstance(e_, ast.BinOp) and isinstance(e_.op, (ast.Sub, ast.BitOr, ast.BitAnd, ast.BitXor)):
            return _setexpr(e_.left, names_) or _setexpr(e_.right, names_)
        return isinstance(e_, ast.Name) and e_.id in names_

    n_set = 0
    for f_ in prog.all_functions:
        names_ = set()
        for s_ in walk_no_nested(f_.node):
            if isinstance(s_, ast.Assign) and len(s_.targets) == 1 and isinstance(s_.targets[0], ast.Name) and _setexpr(s_.value, names_):
                names_.add(s_.targets[0].id)
        for n_ in walk_no_nested(f_.node):
            it_ = None
            if isinstance(n_, ast.For):
                it_ = n_.iter
            elif isinstance(n_, (ast.ListComp, ast.DictComp, ast.GeneratorExp)):
                it_ = n_.generators[0].iter
            elif isinstance(n_, ast.Call) and isinstance(n_.func, ast.Name) and n_.func.id in ("list", "tuple", "enumerate", "zip") and n_.args:
                it_ = n_.args[0]
            elif isinstance(n_, ast.AugAssign) and isinstance(n_.op, ast.Add):
                it_ = n_.value
            elif isinstance(n_, ast.Call) and isinstance(n_.func, ast.Attribute) and n_.func.attr in ("extend",) and n_.args:
                it_ = n_.args[0]
            if it_ is None or not _setexpr(it_, names_):
                continue
            n_set += 1
            # (the key is the iterated expression with a set-valued local replaced by the expression it was bound to, so
            # renaming a local does not change it)
            why_ = REVIEWED_SET_ITER.get((f_.name, src(it_)))
            if why_ is None:
                binds_ = {s_.targets[0].id: s_.value for s_ in walk_no_nested(f_.node) if isinstance(s_, ast.Assign) and len(s_.targets) == 1 and isinstance(s_.targets[0], ast.Name)}
                key_ = _shape_key(it_, binds_)
                why_ = next((w_ for (fn_, t_), w_ in REVIEWED_SET_SHAPES.items() if fn_ == f_.name and t_ == key_), None)
            ctx.ob("R-RNG", "C14.5", f_, "an iteration over a set (hash order: differs between processes) is sorted or a reviewed order-insensitive use", why_ is not None, f"`{src(it_)[:60]}` in `{src(n_)[:70]}`" + (f": {why_}" if why_ else ": the order of its elements reaches a list / loop"), node=n_)
    ctx.require(n_set >= 5, f"only {n_set} set iterations found (the reviewed ones expected)")
    ctx.floor("C14.5", 5)

    # ---- C14.6 who may read a parallelisation setting -------------------------------------------------------------------
    # outside the evaluation machinery (Model's pool / batch evaluators, utils.multiprocessing, array_split_chunksize) a
    # parallelisation setting is only forwarded under its own name, stored under its own name, tested, or logged: anything
    # else (arithmetic, a size, an index, an argument of another name) lets the number of workers or the chunk size decide
    # how many points are drawn or in which order - the results of a seeded run then depend on how it was parallelised
    SETTINGS = {"likelihood_chunksize", "n_pool", "pool", "parallelise_prior"}
    MACHINERY = ("nessai.model", "nessai.utils.multiprocessing", "nessai.utils.structures")
    n_rd = 0
    for f_ in prog.all_functions:
        if f_.module.name in MACHINERY:
            continue
        par_ = {}
        for n_ in ast.walk(f_.node):
            for c_ in ast.iter_child_nodes(n_):
                par_[id(c_)] = n_
        pnames_ = SETTINGS | ({"chunksize"} & set(f_.params()))
        for n_ in walk_no_nested(f_.node):
            if isinstance(n_, ast.Attribute) and n_.attr in SETTINGS and isinstance(n_.ctx, ast.Load):
                nm_ = n_.attr
            elif isinstance(n_, ast.Name) and n_.id in pnames_ and isinstance(n_.ctx, ast.Load):
                nm_ = n_.id
            else:
                continue
            if isinstance(n_, ast.Name) and isinstance(par_.get(id(n_)), ast.Attribute):
                continue  # `pool.map`: the receiver of an attribute access is judged at that attribute
            n_rd += 1
            ok_, how_ = False, ""
            up_ = par_.get(id(n_))
            chain_ = n_
            # tests: `if x:`, `x is None`, `not x`, `a and x`
            while isinstance(up_, (ast.BoolOp, ast.UnaryOp)) and (not isinstance(up_, ast.UnaryOp) or isinstance(up_.op, ast.Not)):
                chain_, up_ = up_, par_.get(id(up_))
            if isinstance(up_, ast.Compare) and (chain_ is up_.left or chain_ in up_.comparators):
                chain_, up_ = up_, par_.get(id(up_))
                while isinstance(up_, (ast.BoolOp, ast.UnaryOp)):
                    chain_, up_ = up_, par_.get(id(up_))
            if isinstance(up_, (ast.If, ast.While, ast.IfExp)) and up_.test is chain_:
                ok_, how_ = True, "tested"
            elif chain_ is n_ and isinstance(up_, ast.keyword) and up_.arg in (nm_, "chunksize" if nm_ == "likelihood_chunksize" else nm_, "processes" if nm_ == "n_pool" else nm_):
                ok_, how_ = True, "forwarded under its own name"
            elif chain_ is n_ and isinstance(up_, ast.Assign) and up_.value is n_ and all(isinstance(t_, ast.Attribute) and t_.attr == nm_ for t_ in up_.targets):
                ok_, how_ = True, "stored under its own name"
            elif chain_ is n_ and isinstance(up_, ast.Call) and n_ in up_.args:
                tg_ = res.resolve_call(f_, up_, count=False) or []
                i_ = up_.args.index(n_)
                def _pname(h_, i_=i_):
                    ps_ = [a_.arg for a_ in h_.node.args.posonlyargs + h_.node.args.args]
                    if ps_ and ps_[0] in ("self", "cls") and h_.cls is not None:
                        ps_ = ps_[1:]
                    return ps_[i_] if i_ < len(ps_) else None
                ok_ = bool(tg_) and all(isinstance(h_, FunctionInfo) and _pname(h_) in SETTINGS | {"chunksize"} for h_ in tg_)
                how_ = "forwarded positionally to a parameter of the same kind" if ok_ else ""
                if not ok_ and (src(up_.func).startswith("logger.") or src(up_.func) in ("print", "str", "repr")):
                    ok_, how_ = True, "logged"
            elif isinstance(up_, (ast.FormattedValue,)):
                ok_, how_ = True, "logged"
            ctx.ob("R-WRITERS", "C14.6", f_, "outside the evaluation machinery a parallelisation setting is only tested, stored or forwarded under its own name", ok_, f"`{nm_}` in `{src(up_)[:70] if up_ is not None else ''}`" + (f" ({how_})" if ok_ else ": the setting is used as a value (a size / count / index would make the sampled points depend on the parallelisation)"), node=n_)
    ctx.require(n_rd >= 8, f"only {n_rd} reads of parallelisation settings found outside the evaluation machinery (constructor forwarding expected)")
    ctx.floor("C14.6", 8)
    ctx.assumptions += ["the user's likelihood and prior are deterministic and consume no randomness (premise of the property)", "torch/glasflow distribution sampling draws from torch's global generator", "bit identity itself, fork/pool behaviour and BLAS/torch thread non-determinism are not decided"]


def _generators(prog, g, sites, f, e, al, res):
    """{'numpy', 'torch'}: which global generators the consumer expression e (a call / property read in f) can draw from."""
    kinds = set()
    quals = set()
    if isinstance(e, ast.Call):
        k = classify_call(e, al)
        if k and k[0] in ("np-consumer", "scipy-rvs"):
            kinds.add("numpy")
        elif k and k[0] == "torch-consumer":
            kinds.add("torch")
        elif k:
            kinds.add("other")
        quals |= {h.qual for h in (res.resolve_call(f, e, count=False) or [])}
    else:
        for c in res.expr_type(f, e.value) or []:
            m = prog.find_method(c, e.attr)
            if m is not None:
                quals.add(m.qual)
        if not quals:
            kinds.add("other")
    reach = set(quals)
    for q in quals:
        if q in g:
            reach |= nx.descendants(g, q)
    for sf, sn, kind, desc in sites:
        if sf.qual in reach:
            kinds.add("numpy" if kind in ("np-consumer", "scipy-rvs") else "torch" if kind == "torch-consumer" else "other")
    for q in reach:
        fn = prog.functions.get(q)
        if fn is not None and fn.module.name.startswith("nessai.flows"):
            kinds.add("torch")
    return kinds


def _state_restored(prog, g, sites, f, fa, nid, e, al, res):
    kinds = _generators(prog, g, sites, f, e, al, res)
    if not kinds or kinds - {"numpy"}:
        return False
    stmt = fa.stmt(nid)
    for t in walk_no_nested(f.node):
        if not (isinstance(t, ast.Try) and t.finalbody and any(x is stmt for b in t.body for x in ast.walk(b))):
            continue
        for s in t.finalbody:
            if isinstance(s, ast.Expr) and isinstance(s.value, ast.Call) and (dotted(s.value.func) or "").endswith("random.set_state") and len(s.value.args) == 1 and isinstance(s.value.args[0], ast.Name):
                name = s.value.args[0].id
                binds = [a for a in walk_no_nested(f.node) if isinstance(a, ast.Assign) and any(isinstance(x, ast.Name) and x.id == name for x in a.targets)]
                if len(binds) == 1 and isinstance(binds[0].value, ast.Call) and (dotted(binds[0].value.func) or "").endswith("random.get_state") and not binds[0].value.args:
                    bn = next(iter(fa.find(lambda x, b=binds[0]: x is b)), None)
                    tn = next(iter(fa.find(lambda x, t=t: x is t, kinds=("try",))), None)
                    # the snapshot is taken right before the protected block: on every path into it, nothing that draws in between
                    if bn is not None and fa.dominates(bn, nid) and _adjacent(f.node, binds[0], t):
                        return True
    return False


def _adjacent(root, a, b):
    for n in ast.walk(root):
        for field in ("body", "orelse", "finalbody"):
            blk = getattr(n, field, None)
            if isinstance(blk, list) and a in blk and b in blk and blk.index(b) == blk.index(a) + 1:
                return True
    return False


def _prefix(part, target):
    """Texts of the operands that must let a short-circuit continue before `target` is evaluated inside `part`."""
    out = []
    for n in ast.walk(part):
        if isinstance(n, ast.BoolOp):
            for i, v in enumerate(n.values):
                if any(x is target for x in ast.walk(v)):
                    out += [(type(n.op).__name__, src(left)) for left in n.values[:i]]
    return tuple(sorted(out))


def _memoised(getter):
    """The getter computes its value under `if self.<slot> is None:` and stores it in that slot (so only the first read runs
    the computation)."""
    for n in walk_no_nested(getter.node):
        if isinstance(n, ast.If) and isinstance(n.test, ast.Compare) and len(n.test.ops) == 1 and isinstance(n.test.ops[0], ast.Is) and isinstance(n.test.comparators[0], ast.Constant) and n.test.comparators[0].value is None and is_self_attr(n.test.left):
            slot = n.test.left.attr
            stores = [s for s in ast.walk(n) if isinstance(s, ast.Assign) and any(is_self_attr(t, slot) for t in s.targets)]
            outside = [c for s in getter.node.body if s is not n for c in ast.walk(s) if isinstance(c, ast.Call)]
            if stores and not outside:
                return True
    return False


def _already_read(prog, f, fa, cfg, nid, part, e, rngfns, res):
    tys = res.expr_type(f, e.value) or []
    getters = [prog.find_method(c, e.attr) for c in tys]
    if not getters or any(g is None or not _memoised(g) for g in getters):
        return False
    want = (src(e), _prefix(part, e))
    for other in cfg.statement_nodes():
        if other.id == nid or not fa.dominates(other.id, nid):
            continue
        for p2 in cfg.own_exprs(other.id):
            for x in walk_no_nested(p2):
                if isinstance(x, ast.Attribute) and isinstance(x.ctx, ast.Load) and x is not e and (src(x), _prefix(p2, x)) == want:
                    return True
    return False


def seed_once_rule(ctx, clause):
    """Seeding happens once, when the sampler is constructed: a second call of configure_random_seed (on resume, say)
    rewinds both global generators to the start of the stream, so every resumed segment replays the same draws - pools
    that were already consumed are drawn again and their points accepted a second time (shared by C14.2, C13.6, C12.8)."""
    prog = ctx.prog
    bi = ctx.fn(tables.BASE + ".__init__")
    n = 0
    for f_ in prog.all_functions:
        for c_ in walk_no_nested(f_.node):
            if isinstance(c_, ast.Call) and isinstance(c_.func, ast.Attribute) and c_.func.attr == "configure_random_seed":
                n += 1
                ctx.ob("R-CALLERS", clause, f_, "configure_random_seed is called only from the base constructor (never on the resume path or mid-run)", f_ is bi, f"`{src(c_)}`", node=c_)
    ctx.require(n >= 1, "no call of configure_random_seed found")


def rng_consumers(prog, g, sites):
    base = {f.qual for f, n, kind, desc in sites}
    # torch distribution sampling through flows
    for f in prog.all_functions:
        for n in walk_no_nested(f.node):
            if isinstance(n, ast.Call) and isinstance(n.func, ast.Attribute) and n.func.attr in ("sample", "sample_n", "rsample", "_sample", "sample_and_log_prob") and f.module.name.startswith("nessai.flows"):
                base.add(f.qual)
    out = set(base)
    rg = g.reverse(copy=False)
    for q in list(base):
        if q in rg:
            out |= nx.descendants(rg, q)
    return out


def mentions_taint(test, tainted):
    for n in ast.walk(test):
        if isinstance(n, ast.Attribute) and n.attr in tainted:
            return f"{src(n)}"
    return None


def all_taints(test, tainted):
    """Settings a test depends on: attributes named like a (derived) parallelisation setting, and plain names -
    constructor / function parameters - named like one of the four settings themselves."""
    return sorted({n.attr for n in ast.walk(test) if isinstance(n, ast.Attribute) and n.attr in tainted} | {n.id for n in ast.walk(test) if isinstance(n, ast.Name) and n.id in TAINT_SOURCES})


def short_circuit_taints(root, target, tainted):
    """[(tainted attribute, how)]: target sits to the right of a tainted operand of and/or, or inside a branch of a tainted IfExp."""
    out = []
    for n in ast.walk(root):
        if isinstance(n, ast.BoolOp):
            for i, v in enumerate(n.values):
                if any(x is target for x in ast.walk(v)):
                    for left in n.values[:i]:
                        for t in all_taints(left, tainted):
                            out.append((t, f"evaluated only if `{src(left)[:50]}` lets the short-circuit continue"))
        if isinstance(n, ast.IfExp):
            if any(x is target for x in ast.walk(n.body)) or any(x is target for x in ast.walk(n.orelse)):
                for t in all_taints(n.test, tainted):
                    out.append((t, f"selected by `{src(n.test)[:50]}`"))
    return out


def taint_attrs(prog):
    """Attributes whose value depends on the parallelisation settings: the
    sources plus attributes assigned a constant under a test on a tainted one."""
    tainted = set(TAINT_SOURCES)
    changed = True
    while changed:
        changed = False
        for f in prog.all_functions:
            if f.cls is None or f.parent is not None:
                continue
            fa = FA(f)
            for node in fa.nodes():
                st = node.ast
                if node.kind == "stmt" and isinstance(st, ast.Assign) and isinstance(st.value, ast.Constant):
                    for t in st.targets:
                        if is_self_attr(t) and t.attr not in tainted:
                            for test, label in fa.guards(node.id):
                                if isinstance(test, ast.expr) and (mentions_taint(test, tainted) or any(isinstance(x, ast.Name) and x.id in TAINT_SOURCES for x in ast.walk(test))):
                                    # only settings-like flags propagate (allow_*, use_*); state counters do not
                                    if t.attr.startswith("allow_"):
                                        tainted.add(t.attr)
                                        changed = True
    return tainted


CLAIM = {
    "text": "Whole-package randomness audit: every random-producing call site (50+, classified by the resolved library path) draws from the numpy or torch global generator; the stdlib random/secrets/uuid modules, os.urandom, default_rng/Generator/RandomState, torch.Generator, explicit generator= / random_state= arguments are absent (a planted fixture proves the rule fires); np.random.seed and torch.manual_seed are called only from configure_random_seed, with the stored seed, on every path, from the base constructor, to which both samplers forward the user's seed before any call that can consume randomness; no RNG-consuming call or lazily evaluated property (the 10-point vectorisation probes) is control-dependent on, or short-circuited by, a likelihood-parallelisation setting (pool, n_pool, chunksize, parallelise_prior) or a flag derived from one. The one dependence found - the probe skipped for a user pool of unknown size - is a recorded known finding. One obligation per (RNG-consuming site, setting it depends on), so a known dependence never hides a new one; the function / pool-wrapper / flag / probe table of the three batch evaluators is consistent, so enabling a pool or parallel prior evaluation does not change what is evaluated. Taints include plain names (constructor / function parameters) named like a parallelisation setting, and a read of an RNG-consuming property through an untyped receiver counts as a consumer. A read of a memoised probe dominated by an identical read, and numpy draws bracketed by get_state / try / finally set_state, consume nothing the rest of the run can see and are not obligations. No iteration over a set-typed expression orders anything that reaches the sampler (C14.5: str hashes differ between processes); the ten pristine set iterations are reviewed order-insensitive uses. Outside the evaluation machinery (Model's pool and batch evaluators, utils.multiprocessing, array_split_chunksize) a parallelisation setting (likelihood_chunksize, n_pool, pool, parallelise_prior) is only tested, stored or forwarded under its own name - never used as a value that could size a pool or a batch of draws (C14.6).",
    "note": "Decides where randomness comes from and what its consumption may depend on, not bit identity: pool/fork behaviour, BLAS/torch thread non-determinism and the user's functions are outside the analysed program; ordered evaluation is C10.3.",
}

_M = "nessai/model.py"
_B = "nessai/samplers/base.py"
MUTANTS = [
    {"id": "poolsize-rounded-to-chunks", "file": "nessai/samplers/nestedsampler.py", "old": "        if kwargs.get(\"poolsize\", None) is None:\n            kwargs[\"poolsize\"] = self.nlive\n", "new": "        if kwargs.get(\"poolsize\", None) is None:\n            kwargs[\"poolsize\"] = self.nlive + (self.model.likelihood_chunksize or 0)\n", "expect": "C14.6"},
    {"id": "pool-evaluates-other-prior", "file": _M, "old": "            func_wrapper=log_prior_unit_hypercube_wrapper,\n", "new": "            func_wrapper=log_prior_wrapper,\n", "expect": "with its own wrapper"},
    {"id": "probe-skipped-for-chunksize-one", "file": _M, "old": "            self.allow_vectorised and self.vectorised_likelihood,\n            chunksize=self.likelihood_chunksize,", "new": "            self.allow_vectorised and self.likelihood_chunksize != 1 and self.vectorised_likelihood,\n            chunksize=self.likelihood_chunksize,", "expect": "parallelisation setting `likelihood_chunksize`"},
    {"id": "private-generator", "file": "nessai/utils/sampling.py", "old": "import numpy as np\n", "new": "import numpy as np\n_RNG = np.random.default_rng()\n", "expect": "at import time"},
    {"id": "default-rng-in-function", "file": _M, "old": "        logP = -np.inf\n        while logP == -np.inf:\n            p = parameters_to_live_point(\n                np.random.uniform(", "new": "        logP = -np.inf\n        while logP == -np.inf:\n            p = parameters_to_live_point(\n                np.random.default_rng().uniform(", "expect": "global generators"},
    {"id": "stdlib-random", "file": "nessai/posterior.py", "old": "import logging\n", "new": "import logging\nimport random\n", "expect": "stdlib randomness"},
    {"id": "torch-not-seeded", "file": _B, "old": "        torch.manual_seed(self.seed)\n", "new": "", "expect": "both the numpy and the torch"},
    {"id": "seed-only-when-given", "file": _B, "old": "        self.seed = seed\n        np.random.seed(seed=self.seed)\n        torch.manual_seed(self.seed)", "new": "        self.seed = seed\n        if seed:\n            np.random.seed(seed=self.seed)\n            torch.manual_seed(self.seed)", "expect": "seeded with the stored seed on every path"},
    {"id": "reseed-elsewhere", "file": "nessai/proposal/flowproposal.py", "old": "        self.prep_latent_prior()\n\n        log_n = np.log(N)", "new": "        self.prep_latent_prior()\n        np.random.seed(self.training_count)\n\n        log_n = np.log(N)", "expect": "called only from configure_random_seed"},
    {"id": "seed-not-forwarded", "file": "nessai/samplers/importancesampler.py", "old": "            output=output,\n            seed=seed,\n            checkpointing=checkpointing,", "new": "            output=output,\n            checkpointing=checkpointing,", "expect": "forwards the user's seed"},
    {"id": "proposal-before-seeding", "file": "nessai/samplers/importancesampler.py", "edits": [("nessai/samplers/importancesampler.py", "        self.proposal = self.get_proposal(**kwargs)\n        self.configure_iterations(min_iteration, max_iteration)", "        self.configure_iterations(min_iteration, max_iteration)"), ("nessai/samplers/importancesampler.py", "        self.add_fields()\n\n        super().__init__(", "        self.add_fields()\n        self.proposal = self.get_proposal(**kwargs)\n        self.proposal.model.new_point(2)\n\n        super().__init__(")], "expect": "runs after the generators were seeded"},
    {"id": "probe-depends-on-pool", "file": _M, "old": "        if self._vectorised_prior is None:\n            if self.allow_vectorised_prior:", "new": "        if self._vectorised_prior is None:\n            if self.allow_vectorised_prior and self.pool is None:", "expect": "does not depend on the parallelisation setting"},
    {"id": "extra-draw-with-chunks", "file": _M, "old": "        st = datetime.datetime.now()\n        if unit_hypercube:\n            x = self.from_unit_hypercube(x)\n        log_likelihood = batch_evaluate_function(", "new": "        st = datetime.datetime.now()\n        if unit_hypercube:\n            x = self.from_unit_hypercube(x)\n        if self.likelihood_chunksize:\n            x = x[np.random.permutation(x.size)]\n        log_likelihood = batch_evaluate_function(", "expect": "does not depend on the parallelisation setting"},
]
