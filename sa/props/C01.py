"""C01 - live set evolves only by likelihood-constrained replacement.

Structural necessary conditions decided on NestedSampler (DESIGN.md section 2, C01).
"""

import ast

from .. import AnalysisError
from ..pm import src, dotted
from ..q import (
    FA,
    attr_mutating_calls,
    attr_stores,
    call_name,
    compare_parts,
    const,
    guard_facts,
    has_fact,
    is_neg_inf,
    is_self_attr,
    norm_compare,
    walk_no_nested,
)
from ..lin import linear, lin_eq, lin_sub

TECHNIQUE = "guard dominance (R-DOM), must-precede/exactly-once on the statement CFG (R-ORDER), who-may-write (R-WRITERS), linear index identities (R-LIN); R-FIELDS positional-view rule; periodic-checkpoint sites against the removal/replacement window (effect-counter dataflow shared with C13.4)"

NS = "nessai.samplers.nestedsampler:NestedSampler"
BASE = "nessai.samplers.base:BaseNestedSampler"


def logp_finite(facts, var: str) -> bool:
    """facts imply var['logP'] is not -inf."""
    lp = f"{var}['logP']"
    for e, t in facts:
        n = norm_compare(e, t)
        if n:
            l, op, r = n
            if l == lp and op in ("NotEq", "Gt") and r in ("-np.inf", "-numpy.inf", "-inf", "float('-inf')"):
                return True
            if r == lp and op in ("NotEq", "Lt") and l in ("-np.inf", "-numpy.inf", "-inf", "float('-inf')"):
                return True
        if t and isinstance(e, ast.Call) and call_name(e) in ("np.isfinite", "numpy.isfinite") and e.args and src(e.args[0]) == lp:
            return True
    return False


def strip_copy(node):
    """x.copy() / copy(x) -> x"""
    if isinstance(node, ast.Call):
        if isinstance(node.func, ast.Attribute) and node.func.attr == "copy" and not node.args:
            return node.func.value
        if call_name(node) in ("copy", "copy.copy", "copy.deepcopy", "deepcopy") and len(node.args) == 1:
            return node.args[0]
    return node


def run(ctx):
    prog = ctx.prog
    ns = prog.cls(NS)
    mro = prog.mro(ns)

    # ------------------------------------------------------------------
    # C01.1 strict acceptance
    f = ctx.fn(NS + ".consume_sample")
    fa = FA(f)
    ins = fa.find_calls("self.insert_live_point")
    ctx.require(ins, "consume_sample no longer calls self.insert_live_point")
    for nid, call in ins:
        ctx.require(len(call.args) == 1 and isinstance(call.args[0], ast.Name), "insert_live_point argument is not a local name")
        p = call.args[0].id
        facts = guard_facts(fa, nid)
        ok = has_fact(facts, f"{p}['logL']", "Gt", "self.logLmin")
        ctx.ob("R-DOM", "C01.1", f, "insert_live_point(p) only under p['logL'] > self.logLmin (strict)", ok,
               f"guards at the call: {[ (src(e), t) for e, t in facts]}", node=call)

    fy = ctx.fn(NS + ".yield_sample")
    fy_a = FA(fy)
    # yielded tuple: (counter, <var>)
    yields = fy_a.find_expr(lambda e: isinstance(e, ast.Yield))
    ctx.require(len(yields) >= 1, "yield_sample has no yield")
    draws = fy_a.find_calls("self.proposal.draw")
    ctx.require(len(draws) == 1, "yield_sample: expected one self.proposal.draw call")
    draw_stmt = fy_a.stmt(draws[0][0])
    ctx.require(isinstance(draw_stmt, ast.Assign) and isinstance(draw_stmt.targets[0], ast.Name), "proposal.draw result not bound to a local")
    newp = draw_stmt.targets[0].id
    for nid, y in yields:
        v = y.value
        ctx.require(isinstance(v, ast.Tuple) and len(v.elts) == 2 and isinstance(v.elts[1], ast.Name), "yield value is not (count, name)")
        out = v.elts[1].id
        # every assignment to `out` inside the function must be the accepted draw
        assigns = fy_a.find(lambda s: isinstance(s, ast.Assign) and any(isinstance(t, ast.Name) and t.id == out for t in s.targets))
        ctx.require(assigns, f"yield_sample: yielded variable {out} is never assigned from the draw")
        for a in assigns:
            st = fy_a.stmt(a)
            source = strip_copy(st.value)
            facts = guard_facts(fy_a, a)
            from_draw = isinstance(source, ast.Name) and source.id == newp
            ok = from_draw and has_fact(facts, f"{newp}['logL']", "Gt", "self.logLmin") and logp_finite(facts, newp)
            ctx.ob("R-DOM", "C01.1", fy, "yielded point is replaced by the draw only under logP != -inf and logL > self.logLmin (strict)", ok,
                   f"assignment `{src(st)}` guarded by {[(src(e), t) for e, t in facts]}", node=st)
    evs = fy_a.find_calls("self.model.evaluate_log_likelihood")
    ctx.require(evs, "yield_sample no longer evaluates the likelihood")
    for nid, call in evs:
        facts = guard_facts(fy_a, nid)
        arg_ok = len(call.args) == 1 and src(call.args[0]) == newp
        ctx.ob("R-DOM", "C01.1", fy, "likelihood evaluated only on the drawn point and only when its prior is finite", arg_ok and logp_finite(facts, newp),
               f"call `{src(call)}` guarded by {[(src(e), t) for e, t in facts]}", node=call)
    ctx.floor("C01.1", 3)

    # ------------------------------------------------------------------
    # C01.2 remove-worst ordering in consume_sample
    def is_worst(s):
        if not (isinstance(s, ast.Assign) and len(s.targets) == 1 and isinstance(s.targets[0], ast.Name)):
            return False
        v = s.value
        base = strip_copy(v)
        return isinstance(base, ast.Subscript) and is_self_attr(base.value, "live_points")

    Ws = fa.find(is_worst)
    if Ws:
        W = fa.one(Ws, "`<worst> = self.live_points[<i>]` statement")
        wst = fa.stmt(W)
        worst = wst.targets[0].id
        wexpr = wst.value
    else:
        # no local: the removed point is whatever is recorded (`nested_samples.append(self.live_points[0].copy())`); an
        # uncopied alias `w = self.live_points[0]` has been substituted by the program model and reads the same way
        W, ac0 = fa.one(fa.find_calls("self.nested_samples.append"), "`<worst> = self.live_points[<i>]` statement or a direct nested_samples.append(self.live_points[<i>]...)")
        wst = fa.stmt(W)
        ctx.require(len(ac0.args) == 1 and isinstance(strip_copy(ac0.args[0]), ast.Subscript) and is_self_attr(strip_copy(ac0.args[0]).value, "live_points"), "consume_sample: the removed point is neither a local read from self.live_points nor recorded directly from it")
        wexpr = ac0.args[0]
        worst = src(strip_copy(wexpr))
    base = strip_copy(wexpr)
    ctx.ob("R-ORDER", "C01.2", f, "removed point is live_points[0] (the minimum of the ascending store)", const(base.slice, 0), f"`{src(wst)}`", node=wst)
    ctx.ob("R-ORDER", "C01.2", f, "removed point is copied out of the live array before the block shift overwrites slot 0", base is not wexpr, f"`{src(wst)}`", node=wst)

    L = fa.find(lambda s: isinstance(s, ast.Assign) and any(is_self_attr(t, "logLmin") for t in s.targets))
    L = fa.one(L, "assignment to self.logLmin")
    ctx.ob("R-ORDER", "C01.2", f, "self.logLmin := logL of the removed point", src(fa.stmt(L).value) == f"{worst}['logL']", f"`{fa.text(L)}`", node=fa.stmt(L))

    I_ = fa.find_calls("self.state.increment")
    I, icall = fa.one(I_, "self.state.increment call")
    ctx.ob("R-ORDER", "C01.2", f, "state.increment receives the removed point's logL", len(icall.args) >= 1 and src(icall.args[0]) == f"{worst}['logL']" and not icall.keywords,
           f"`{src(icall)}`", node=icall)
    A_ = fa.find_calls("self.nested_samples.append")
    A, acall = fa.one(A_, "self.nested_samples.append call")
    ctx.ob("R-ORDER", "C01.2", f, "nested_samples.append receives the removed point", len(acall.args) == 1 and src(strip_copy(acall.args[0])) == worst, f"`{src(acall)}`", node=acall)
    T = fa.one(fa.find(lambda s: isinstance(s, ast.AugAssign) and is_self_attr(s.target, "iteration")), "self.iteration += 1")
    tst = fa.stmt(T)
    ctx.ob("R-ORDER", "C01.2", f, "iteration advances by exactly one", isinstance(tst.op, ast.Add) and const(tst.value, 1), f"`{src(tst)}`", node=tst)

    N, ncall = ins[0]
    nst = fa.stmt(N)
    pvar = ncall.args[0].id
    P = fa.find(lambda s: isinstance(s, ast.Assign) and any(src(t) == f"{pvar}['it']" for t in s.targets))
    P = fa.one(P, f"{pvar}['it'] assignment")
    ctx.ob("R-ORDER", "C01.2", f, "inserted point's `it` is the (already advanced) iteration", src(fa.stmt(P).value) == "self.iteration", f"`{fa.text(P)}`", node=fa.stmt(P))
    # ... and only an *accepted* draw is stamped: when the pool runs dry yield_sample hands back the old point itself - the
    # very object that was just appended to nested_samples - so a stamp applied before the acceptance test rewrites the
    # birth iteration of a recorded point
    ctx.ob("R-DOM", "C01.2", f, "a drawn point is written to (`it` stamp) only after it was accepted (p['logL'] > self.logLmin)", has_fact(guard_facts(fa, P), f"{pvar}['logL']", "Gt", "self.logLmin"), f"`{fa.text(P)}` under {[(src(e_)[:40], t_) for e_, t_ in guard_facts(fa, P)]}", node=fa.stmt(P))
    for wn_ in fa.find(lambda s_: isinstance(s_, (ast.Assign, ast.AugAssign)) and any(isinstance(t_, ast.Subscript) and isinstance(t_.value, ast.Name) and t_.value.id == pvar for t_ in (s_.targets if isinstance(s_, ast.Assign) else [s_.target]))):
        if wn_ != P:
            ctx.ob("R-DOM", "C01.2", f, "a drawn point is written to (`it` stamp) only after it was accepted (p['logL'] > self.logLmin)", has_fact(guard_facts(fa, wn_), f"{pvar}['logL']", "Gt", "self.logLmin"), f"`{fa.text(wn_)}`", node=fa.stmt(wn_))
    X_ = fa.find_calls("self.insertion_indices.append")
    X, xcall = fa.one(X_, "self.insertion_indices.append call")
    # either through a local (`i = insert_live_point(p); indices.append(i)`) or directly (`indices.append(insert_live_point(p))`)
    idx_ok = len(xcall.args) == 1 and ((isinstance(nst, ast.Assign) and isinstance(nst.targets[0], ast.Name) and src(xcall.args[0]) == nst.targets[0].id) or xcall.args[0] is ncall)
    ctx.ob("R-ORDER", "C01.2", f, "recorded insertion index is the value returned by insert_live_point", idx_ok, f"`{fa.text(N)}` ; `{src(xcall)}`", node=xcall)

    chain = ([("read worst", W)] if Ws else []) + [("logLmin", L), ("state.increment", I), ("nested_samples.append", A), ("iteration += 1", T), ("it := iteration", P), ("insert_live_point", N), ("insertion_indices.append", X)]
    for (na, a), (nb, b) in zip(chain, chain[1:]):
        if a == b:  # one statement does both (argument evaluation precedes the call)
            continue
        ok = fa.precedes_on_all_paths(a, b) and fa.never_after(a, b) if na not in ("it := iteration", "insert_live_point") else fa.precedes_on_all_paths(a, b)
        ctx.ob("R-ORDER", "C01.2", f, f"order: {na} before {nb} on every path", ok, f"`{fa.text(a)}` ... `{fa.text(b)}`", node=fa.stmt(b))
    for name, n in [("state.increment", I), ("nested_samples.append", A), ("iteration += 1", T), ("read worst", W)]:
        ctx.ob("R-ORDER", "C01.2", f, f"{name} executes exactly once per consume_sample (outside the retry loop, on every path)", fa.once(n) and fa.on_every_normal_path(n), f"`{fa.text(n)}`", node=fa.stmt(n))
    # after insertion, the index append follows on every path before leaving
    ctx.ob("R-ORDER", "C01.2", f, "every insert_live_point is followed by insertion_indices.append before the function returns", N == X or fa.every_path_from_passes(N, [X]), f"`{fa.text(N)}`", node=nst)
    # the function returns only after an insertion
    ctx.ob("R-ORDER", "C01.2", f, "consume_sample returns only after a replacement was inserted", fa.cfg.every_exit_path_passes(fa.cfg.entry, [N]), "all normal exits pass insert_live_point", node=nst)
    ctx.floor("C01.2", 18)

    # ------------------------------------------------------------------
    # C01.3 single recorder / who may write
    allowed = {
        "nested_samples.append": {"consume_sample", "finalise"},
        "state.increment": {"consume_sample", "finalise"},
        "insertion_indices.append": {"consume_sample"},
    }
    cls_fns = [fn for fn in prog.all_functions if fn.cls in mro or fn.module.name in ("nessai.flowsampler",)]
    n_rec = 0
    for fn in cls_fns:
        for n in walk_no_nested(fn.node):
            if isinstance(n, ast.Call):
                d = call_name(n) or ""
                for pat, who in allowed.items():
                    if d.endswith("." + pat) and (d.startswith("self.") or ".ns." in d or d.startswith("sampler.")):
                        if pat == "state.increment" and fn.cls not in mro:
                            continue
                        n_rec += 1
                        ctx.ob("R-WRITERS", "C01.3", fn, f"{pat} called only from {sorted(who)}", fn.name in who and fn.cls is ns, f"`{src(n)}`", node=n)
    ctx.require(n_rec >= 5, "recorder call sites not found")
    for attr, who in [("nested_samples", {"__init__"}), ("insertion_indices", {"__init__"}), ("live_points", {"__init__", "populate_live_points", "insert_live_point", "finalise"})]:
        sites = [s for s in attr_stores(prog, attr) if s[0].cls in mro]
        sites += [(fn, n, "call:" + m) for fn, n, m in attr_mutating_calls(prog, attr) if fn.cls in mro and not (attr in ("nested_samples", "insertion_indices") and m == "append")]
        ctx.require(sites, f"no stores to {attr} found")
        for fn, n, kind in sites:
            ctx.ob("R-WRITERS", "C01.3", fn, f"self.{attr} written ({kind}) only in {sorted(who)}", fn.name in who, f"`{src(n)}`", node=n)
    # stores of None only in __init__ / finalise
    for fn, n, kind in attr_stores(prog, "live_points"):
        if fn.cls in mro and fn.name in ("__init__", "finalise") and kind == "assign":
            par = _parent_assign(fn.node, n)
            ctx.ob("R-WRITERS", "C01.3", fn, "live_points set to None (only) at construction / after finalisation", par is not None and const(par.value) and par.value.value is None, f"`{src(par)}`", node=n)
    # every other use of self.live_points in the sampler is a read
    READ_CALLEES = {"len", "enumerate", "np.array", "np.isnan", "np.isfinite", "np.searchsorted", "plot_trace", "plot_live_points", "live_points_to_array", "np.concatenate", "np.min", "np.max", "np.mean"}
    n_reads = 0
    for fn in [x for x in prog.all_functions if x.cls in mro]:
        parents = {}
        for par in ast.walk(fn.node):
            for ch in ast.iter_child_nodes(par):
                parents[id(ch)] = par
        for n in walk_no_nested(fn.node):
            if is_self_attr(n, "live_points") and isinstance(n.ctx, ast.Load):
                par = parents.get(id(n))
                kind, ok = _classify_use(n, par, parents, READ_CALLEES)
                if kind == "store-target":
                    continue  # counted above under writers
                n_reads += 1
                ctx.ob("R-WRITERS", "C01.3", fn, f"use of self.live_points is read-only: {kind}", ok, f"`{src(par)[:120]}`", node=n)
    ctx.require(n_reads >= 6, "too few reads of live_points found")
    ctx.floor("C01.3", 20)

    # ------------------------------------------------------------------
    # C01.4 shift arithmetic in insert_live_point
    fi = ctx.fn(NS + ".insert_live_point")
    fia = FA(fi)
    param = fi.params()[1]
    ss = fia.find_expr(lambda e: isinstance(e, ast.Call) and call_name(e) in ("np.searchsorted", "numpy.searchsorted"))
    if len(ss) != 1:
        raise AnalysisError("insert_live_point: not the searchsorted + block-shift idiom (rewritten with other primitives): ANALYSIS-INCOMPLETE")
    snid, scall = ss[0]
    sst = fia.stmt(snid)
    ctx.require(isinstance(sst, ast.Assign) and isinstance(sst.targets[0], ast.Name), "searchsorted result not bound to a name")
    ivar = sst.targets[0].id
    kw = {k.arg: k.value for k in scall.keywords}
    ctx.ob("R-LIN", "C01.4", fi, "searchsorted(haystack=self.live_points['logL'], needle=<inserted>['logL']) with default (left) side",
           len(scall.args) == 2 and src(scall.args[0]) == "self.live_points['logL']" and src(scall.args[1]) == f"{param}['logL']" and ("side" not in kw or const(kw["side"], "left")) and "sorter" not in kw,
           f"`{src(scall)}`", node=scall)
    stores = [(n, s) for n, s in fia.assigns_to_attr("live_points")]
    slice_st = [s for n, s in stores if isinstance(s, ast.Assign) and isinstance(s.targets[0], ast.Subscript) and isinstance(s.targets[0].slice, ast.Slice)]
    item_st = [s for n, s in stores if isinstance(s, ast.Assign) and isinstance(s.targets[0], ast.Subscript) and not isinstance(s.targets[0].slice, ast.Slice)]
    if len(slice_st) != 1 or len(item_st) != 1 or len(stores) != 2:
        raise AnalysisError("insert_live_point: expected one slice store and one item store to self.live_points: ANALYSIS-INCOMPLETE")
    sl = slice_st[0]
    dst = sl.targets[0].slice
    ctx.require(isinstance(sl.value, ast.Subscript) and is_self_attr(sl.value.value, "live_points") and isinstance(sl.value.slice, ast.Slice), "block shift source is not a slice of self.live_points")
    srcs = sl.value.slice
    ctx.require(dst.step is None and srcs.step is None, "strided block shift")
    zero = ast.Constant(0)
    a, b = linear(dst.lower or zero), linear(dst.upper) if dst.upper is not None else None
    c, d = linear(srcs.lower or zero), linear(srcs.upper) if srcs.upper is not None else None
    ctx.require(b is not None and d is not None, "open-ended slice in block shift")
    ctx.ob("R-LIN", "C01.4", fi, "block shift: destination and source slices have equal length", lin_eq(lin_sub(b, a), lin_sub(d, c)), f"`{src(sl)}`", node=sl)
    ctx.ob("R-LIN", "C01.4", fi, "block shift: moves elements down by exactly one starting from slot 0 (drops the minimum)", lin_eq(a, linear(zero)) and lin_eq(lin_sub(c, a), linear(ast.Constant(1))), f"`{src(sl)}`", node=sl)
    # the local may hold the searchsorted result itself or a shifted copy of it (`position = searchsorted(..) - 1`):
    # express the bound in terms of the raw result S
    import copy as _copy01

    class _S(ast.NodeTransformer):
        def visit_Call(self, n_):
            return ast.Name(id="S__", ctx=ast.Load()) if n_ is scall_c else self.generic_visit(n_)

    sst_c = _copy01.deepcopy(sst)
    scall_c = next(c_ for c_ in ast.walk(sst_c.value) if isinstance(c_, ast.Call) and call_name(c_) in ("np.searchsorted", "numpy.searchsorted"))
    try:
        ivar_def = linear(_S().visit(sst_c.value)) if sst_c.value is not scall_c else {"S__": 1}
    except Exception:
        ivar_def = None
    if ivar_def is None:
        raise AnalysisError("insert_live_point: the searchsorted result is bound through a non-linear expression: ANALYSIS-INCOMPLETE")
    d_s = {k_: v_ for k_, v_ in d.items() if k_ != ivar}
    for k_, v_ in ivar_def.items():
        d_s[k_] = d_s.get(k_, 0) + v_ * d.get(ivar, 0)
    d_s = {k_: v_ for k_, v_ in d_s.items() if v_ != 0}
    ctx.ob("R-LIN", "C01.4", fi, "block shift: source slice ends at the searchsorted index", lin_eq(d_s, {"S__": 1}), f"`{src(sl)}`", node=sl)
    it = item_st[0]
    k = linear(it.targets[0].slice)
    ctx.ob("R-LIN", "C01.4", fi, "new point stored at the slot vacated by the shift (end of the destination slice)", lin_eq(k, b), f"`{src(it)}`", node=it)
    ctx.ob("R-LIN", "C01.4", fi, "stored value is the inserted point", src(it.value) == param, f"`{src(it)}`", node=it)
    rets = fia.find(lambda s: isinstance(s, ast.Return))
    ctx.require(len(rets) == 1, "insert_live_point: expected a single return")
    r = fia.stmt(rets[0])
    ctx.ob("R-LIN", "C01.4", fi, "returned index equals the slot the point was stored at", r.value is not None and lin_eq(linear(r.value), k), f"`{src(r)}`", node=r)
    # ordering: search -> shift -> store
    n_sl, n_it = fia.cfg.id_of(sl), fia.cfg.id_of(it)
    ctx.ob("R-ORDER", "C01.4", fi, "searchsorted before shift before store", fia.dominates(snid, n_sl) and fia.dominates(n_sl, n_it) and fia.once(n_sl) and fia.once(n_it), "order of the three statements", node=sl)
    ctx.floor("C01.4", 8)

    # ------------------------------------------------------------------
    # C01.5 initial order and size
    fp = ctx.fn(NS + ".populate_live_points")
    fpa = FA(fp)
    lp_stores = fpa.assigns_to_attr("live_points")
    whole = [(n, s) for n, s in lp_stores if isinstance(s, ast.Assign) and any(is_self_attr(t, "live_points") for t in s.targets)]
    n_w, s_w = fpa.one(whole, "whole assignment to self.live_points in populate_live_points")
    v = s_w.value
    sorted_ok = False
    arr = None
    if isinstance(v, ast.Call) and call_name(v) in ("np.sort", "numpy.sort"):
        kws = {k.arg: k.value for k in v.keywords}
        sorted_ok = len(v.args) == 1 and "order" in kws and const(kws["order"], "logL")
        arr = src(v.args[0]) if v.args else None
    elif isinstance(v, ast.Subscript) and isinstance(v.slice, ast.Call) and call_name(v.slice) in ("np.argsort", "numpy.argsort"):
        arr = src(v.value)
        sorted_ok = len(v.slice.args) == 1 and src(v.slice.args[0]) == f"{arr}['logL']" and not [k for k in v.slice.keywords if k.arg not in ("kind",)]
    ctx.ob("R-ORDER", "C01.5", fp, "live_points := the drawn points sorted ascending by logL", sorted_ok, f"`{src(s_w)}`", node=s_w)
    for n, s in lp_stores:
        if s is s_w:
            continue
        t = s.targets[0] if isinstance(s, ast.Assign) else None
        okf = isinstance(t, ast.Subscript) and const(t.slice, "it") and fpa.dominates(n_w, n)
        ctx.ob("R-ORDER", "C01.5", fp, "after sorting only the `it` field is (re)set; order is not disturbed", okf, f"`{src(s)}`", node=s)
    # the local array: allocated with nlive rows, filled at [i] under finiteness guard, i += 1 in same block
    alloc = fpa.find(lambda s: isinstance(s, ast.Assign) and isinstance(s.targets[0], ast.Name) and s.targets[0].id == arr)
    n_al = fpa.one(alloc, f"allocation of {arr}")
    al = fpa.stmt(n_al).value
    ctx.ob("R-ORDER", "C01.5", fp, "initial array allocated with exactly self.nlive rows", isinstance(al, ast.Call) and call_name(al) == "empty_structured_array" and al.args and src(al.args[0]) == "self.nlive", f"`{src(fpa.stmt(n_al))}`", node=fpa.stmt(n_al))
    fills = fpa.find(lambda s: isinstance(s, ast.Assign) and isinstance(s.targets[0], ast.Subscript) and src(s.targets[0].value) == arr)
    n_f = fpa.one(fills, f"row store into {arr}")
    fst = fpa.stmt(n_f)
    ivar5 = src(fst.targets[0].slice)
    pt = src(fst.value)
    facts = guard_facts(fpa, n_f)

    def finite(field):
        return any(t and isinstance(e, ast.Call) and call_name(e) in ("np.isfinite", "numpy.isfinite") and e.args and src(e.args[0]) == f"{pt}['{field}']" for e, t in facts)

    ctx.ob("R-DOM", "C01.5", fp, "a drawn point enters the initial live set only if its logP and logL are finite", finite("logP") and finite("logL"), f"`{src(fst)}` guarded by {[(src(e), t) for e, t in facts]}", node=fst)
    ctx.ob("R-DOM", "C01.5", fp, "fill index bounded by i < self.nlive", has_fact(facts, ivar5, "Lt", "self.nlive"), f"guards {[(src(e), t) for e, t in facts]}", node=fst)
    incs = fpa.find(lambda s: isinstance(s, ast.AugAssign) and src(s.target) == ivar5)
    n_i = fpa.one(incs, f"{ivar5} += 1")
    ist = fpa.stmt(n_i)
    same_block = fpa.dominates(n_f, n_i) and fpa.every_path_from_passes(n_f, [n_i]) and _same_body(fp.node, fst, ist)
    ctx.ob("R-ORDER", "C01.5", fp, "fill index advances by one exactly when a row is stored", isinstance(ist.op, ast.Add) and const(ist.value, 1) and same_block, f"`{src(fst)}` ; `{src(ist)}`", node=ist)
    init = fpa.find(lambda s: isinstance(s, ast.Assign) and isinstance(s.targets[0], ast.Name) and s.targets[0].id == ivar5)
    ctx.ob("R-ORDER", "C01.5", fp, "fill index starts at 0", len(init) == 1 and const(fpa.stmt(init[0]).value, 0), f"`{fpa.text(init[0]) if init else None}`")
    # sort happens only once the loop `while i < nlive` is exhausted
    facts_w = guard_facts(fpa, n_w)
    ctx.ob("R-DOM", "C01.5", fp, "live set is formed only after all self.nlive rows were filled (loop exit i >= nlive)", has_fact(facts_w, ivar5, "GtE", "self.nlive"), f"guards at the sort: {[(src(e), t) for e, t in facts_w]}", node=s_w)
    ctx.floor("C01.5", 8)

    # ------------------------------------------------------------------
    # C01.6 final consumption
    ff = ctx.fn(NS + ".finalise")
    ffa = FA(ff)
    loops = [n for n in ffa.nodes() if n.kind == "for" and any(is_self_attr(x, "live_points") for x in ast.walk(n.ast.iter))]
    ctx.require(len(loops) == 1, "finalise: expected one loop over self.live_points")
    lp = loops[0].ast
    from ..rules.schedule import final_schedule as _fsched
    sch = _fsched(ffa, loops[0])
    ctx.ob("R-ORDER", "C01.6", ff, "remaining live points consumed in stored (ascending) order", sch["point"] is not None, f"`for {src(lp.target)} in {src(lp.iter)}`", node=lp)
    if sch["inc"] is not None:
        pv = sch["point"]
        (ni, ic), (na, ac) = sch["inc"], sch["app"]
        ctx.ob("R-ORDER", "C01.6", ff, "each remaining point is integrated with its own logL", ic.args and src(ic.args[0]) == f"{pv}['logL']", f"`{src(ic)}`", node=ic)
        ctx.ob("R-LIN", "C01.6", ff, "live count decreases nlive, nlive-1, ..., 1 (nlive minus the number of points already consumed)", sch["ok"], sch["why"], node=ic)
        ctx.ob("R-ORDER", "C01.6", ff, "each remaining point is recorded (append of the same point)", len(ac.args) == 1 and src(ac.args[0]) == pv, f"`{src(ac)}`", node=ac)
        inner = [h for h in ffa.cfg.loops_containing(ni)]
        ctx.ob("R-ORDER", "C01.6", ff, "increment and append are paired once per remaining point, increment first", len(inner) == 1 and ffa.cfg.loops_containing(na) == inner and ffa.cfg.must_pass(loops[0].id, na, [ni]) and not _conditional_within(ffa, loops[0].id, [ni, na]), "pairing inside the loop body", node=ic)
    none_st = [n for n, s in ffa.assigns_to_attr("live_points")]
    fin = ffa.find(lambda s: isinstance(s, ast.Assign) and any(is_self_attr(t, "finalised") for t in s.targets) and const(s.value, True))
    sf = ffa.find_calls("self.state.finalise")
    ctx.require(len(none_st) == 1 and len(fin) == 1 and len(sf) == 1, "finalise: expected live_points=None, state.finalise(), finalised=True once each")
    ctx.ob("R-ORDER", "C01.6", ff, "loop -> live_points = None -> state.finalise() -> finalised = True on every path",
           ffa.dominates(loops[0].id, none_st[0]) and ffa.dominates(none_st[0], sf[0][0]) and ffa.dominates(sf[0][0], fin[0]) and ffa.on_every_normal_path(fin[0]) and ffa.once(sf[0][0]),
           "finalisation sequence", node=ffa.stmt(fin[0]))
    ctx.floor("C01.6", 5)
    # ---- C01.7 field order of what the proposals hand to the live array ------------------------------
    from ..rules import fieldorder as _fo
    from .. import tables as _t
    _prop = [prog.cls(_t.PROPOSAL)] + prog.subclasses(prog.cls(_t.PROPOSAL))
    _stores = _fo.pool_stores(prog, [c_ for c_ in _prop if prog.cls(_t.IFP) not in prog.mro(c_)])
    ctx.require(len(_stores) >= 3, "pool assignments (self.samples = ...) not found in the populate methods")
    for _f, _s in _stores:
        _ok, _why = _fo.canonical(prog, _f, _s.value)
        ctx.ob("R-FIELDS", "C01.7", _f, "the pool is stored in canonical field order (model.names, then the non-sampling fields): numpy copies a pool row into the live array by position", _ok, _why, node=_s)
    _pl = ctx.fn(_t.NS + ".populate_live_points")
    from ..pat import find_stmt as _fst
    ctx.ob("R-FIELDS", "C01.7", _pl, "the live array is allocated with the same canonical field order (names=self.model.names)", len(_fst("$$lp = empty_structured_array(self.nlive, names=self.model.names)", _pl.node)) == 1, "")
    # positional views of caller-supplied arrays are only combined with scalars (their columns follow the caller's memory order)
    from ..rules import fieldorder as _fo2
    _pv = _fo2.positional_view_uses(prog)
    ctx.require(len(_pv) >= 4, f"only {len(_pv)} uses of a positional view found (in_unit_hypercube / log_prior_unit_hypercube expected)")
    for _f, _n, _ok, _why in _pv:
        ctx.ob("R-FIELDS", "C01.7", _f, "a positional (memory-order) view of a structured array is combined only with scalars, never with a per-parameter array", _ok, _why, node=_n)
    ctx.floor("C01.7", 4)
    ctx.assumptions.append("proposal classes return points whose logP/logL fields are what they claim (C09 covers the in-package proposals)")


    # ------------------------------------------------------------------
    # C01.9 "each discarded point is recorded exactly once" over the run's whole history, resumes included: a periodic
    # checkpoint written between the recording of the removed point and its replacement makes the resumed run remove and
    # record the same point again.  The interval analysis is C13's (effect counters over consume_sample's CFG); the
    # obligations about *periodic* checkpoint sites (C13.4) are adopted here under this property's name.
    from ..core import Ctx as _Ctx, Ob as _Ob
    from . import C13 as _c13

    sub_ = _Ctx("C13", prog, ctx.tier, ctx.seed)
    _c13.run(sub_)
    for o_ in sub_.obs:
        if o_.clause == "C13.4":
            ctx.obs.append(_Ob(o_.rule, "C01.9", o_.where, o_.construct, o_.ok, o_.detail, o_.loc))
    ctx.floor("C01.9", 3)


def _parent_assign(fnode, target):
    for n in ast.walk(fnode):
        if isinstance(n, ast.Assign) and any(t is target for t in n.targets):
            return n
    return None


def _same_body(fnode, a, b):
    for n in ast.walk(fnode):
        for fld in ("body", "orelse", "finalbody"):
            blk = getattr(n, fld, None)
            if isinstance(blk, list) and a in blk and b in blk:
                return True
    return False


def _conditional_within(fa, head, nids):
    """True if some node of nids is guarded by a branch that lies inside the loop body."""
    body = fa.cfg.loop_body(head)
    for n in nids:
        for b in fa.cfg.nodes.values():
            if b.kind == "branch" and b.id in body and b.label in (True, False) and fa.cfg.dominates(b.id, n):
                return True
    return False


def _classify_use(n, par, parents, read_callees):
    """Classify a Load of self.live_points by its syntactic context."""
    if isinstance(par, ast.Subscript) and par.value is n:
        if isinstance(par.ctx, (ast.Store, ast.Del)):
            return "store-target", True
        gp = parents.get(id(par))
        # self.live_points[..]  read, or .copy()
        if isinstance(gp, ast.Subscript) and isinstance(gp.ctx, (ast.Store, ast.Del)) and gp.value is par:
            return "store-target", True
        if isinstance(gp, ast.AugAssign) and gp.target is par:
            return "augmented store", False
        return "subscript read", True
    if isinstance(par, ast.Attribute) and par.value is n:
        gp = parents.get(id(par))
        if isinstance(gp, ast.Call) and gp.func is par:
            return f"method .{par.attr}()", par.attr in ("copy", "tolist", "view", "astype", "mean", "min", "max", "sum")
        return f"attribute .{par.attr}", par.attr in ("size", "shape", "dtype", "ndim")
    if isinstance(par, ast.Compare):
        return "comparison", True
    if isinstance(par, ast.Call):
        name = call_name(par) or ""
        return f"argument of {name}", name in read_callees
    if isinstance(par, ast.keyword):
        gp = parents.get(id(par))
        name = call_name(gp) or "" if isinstance(gp, ast.Call) else ""
        return f"keyword argument of {name}", name in read_callees
    if isinstance(par, (ast.BoolOp, ast.UnaryOp, ast.If, ast.IfExp)):
        return "truth test", True
    if isinstance(par, ast.For) and par.iter is n:
        return "iteration", True
    return f"other ({type(par).__name__})", False


_F = "nessai/samplers/nestedsampler.py"
MUTANTS = [
    {"id": "accept-ge", "file": _F, "old": 'if proposed["logL"] > self.logLmin:', "new": 'if proposed["logL"] >= self.logLmin:', "expect": "insert_live_point(p) only under"},
    {"id": "yield-ge", "file": _F, "old": 'if newparam["logL"] > self.logLmin:', "new": 'if newparam["logL"] >= self.logLmin:', "expect": "yielded point is replaced"},
    {"id": "yield-no-prior-guard", "file": _F, "old": 'if newparam["logP"] != -np.inf:', "new": 'if newparam["logP"] != np.inf:', "expect": "C01.1"},
    {"id": "worst-index", "file": _F, "old": "worst = self.live_points[0].copy()", "new": "worst = self.live_points[1].copy()", "expect": "removed point is live_points[0]"},
    {"id": "worst-nocopy", "file": _F, "old": "worst = self.live_points[0].copy()", "new": "worst = self.live_points[0]", "expect": "copied out"},
    {"id": "it-before-increment", "file": _F, "edits": [(_F, '                proposed["it"] = self.iteration\n', ""), (_F, "            count += c\n", '            count += c\n            proposed["it"] = self.iteration - 1\n')], "expect": "inserted point's `it`"},
    {"id": "iteration-after-insert", "file": _F, "edits": [(_F, "        self.iteration += 1\n        self.block_iteration += 1\n        count = 0\n", "        self.block_iteration += 1\n        count = 0\n"), (_F, "                self.accepted += 1\n", "                self.accepted += 1\n                self.iteration += 1\n")], "expect": "order: iteration += 1 before it := iteration"},
    {"id": "append-in-retry-loop", "file": _F, "edits": [(_F, "        self.nested_samples.append(worst)\n\n        self.condition", "        self.condition"), (_F, "            count += c\n", "            count += c\n            self.nested_samples.append(worst)\n")], "expect": "nested_samples.append"},
    {"id": "index-off-by-one-record", "file": _F, "old": "self.insertion_indices.append(index)", "new": "self.insertion_indices.append(index + 1)", "expect": "recorded insertion index"},
    {"id": "second-recorder", "file": _F, "old": "            self.proposal._checked_population = True\n", "new": "            self.proposal._checked_population = True\n            self.nested_samples.append(self.live_points[0])\n", "expect": "nested_samples.append called only from"},
    {"id": "live-writer-elsewhere", "file": _F, "old": "            training_data = self.live_points.copy()\n", "new": "            training_data = self.live_points.copy()\n            self.live_points['it'][0] = 0\n", "expect": "self.live_points written"},
    {"id": "searchsorted-right", "file": _F, "old": 'np.searchsorted(self.live_points["logL"], live_point["logL"])', "new": 'np.searchsorted(self.live_points["logL"], live_point["logL"], side="right")', "expect": "searchsorted("},
    {"id": "shift-off-by-one", "file": _F, "old": "self.live_points[: index - 1] = self.live_points[1:index]", "new": "self.live_points[: index - 2] = self.live_points[2:index]", "expect": "block shift"},
    {"id": "store-slot", "file": _F, "old": "self.live_points[index - 1] = live_point", "new": "self.live_points[index] = live_point", "expect": "new point stored at the slot"},
    {"id": "return-index", "file": _F, "old": "        return index - 1\n", "new": "        return index\n", "expect": "returned index equals"},
    {"id": "initial-unsorted", "file": _F, "old": 'self.live_points = np.sort(live_points, order="logL")', "new": "self.live_points = live_points", "expect": "sorted ascending"},
    {"id": "initial-sort-wrong-key", "file": _F, "old": 'self.live_points = np.sort(live_points, order="logL")', "new": 'self.live_points = np.sort(live_points, order="logP")', "expect": "sorted ascending"},
    {"id": "initial-accept-inf", "file": _F, "old": '                    if np.isfinite(live_point["logP"]) and np.isfinite(\n                        live_point["logL"]\n                    ):', "new": '                    if np.isfinite(live_point["logP"]):', "expect": "enters the initial live set"},
    {"id": "finalise-nlive-schedule", "file": _F, "old": "nlive=self.nlive - i)", "new": "nlive=self.nlive - i - 1)", "expect": "live count decreases"},
    {"id": "finalise-constant-nlive", "file": _F, "old": 'self.state.increment(p["logL"], nlive=self.nlive - i)', "new": 'self.state.increment(p["logL"])', "expect": "live count decreases"},
    {"id": "pool-field-order", "file": "nessai/proposal/flowproposal.py", "old": "        return rfn.repack_fields(\n            x[self.model.names + config.livepoints.non_sampling_parameters]\n        )", "new": "        keep = self.model.names + config.livepoints.non_sampling_parameters\n        return rfn.drop_fields(x, [n for n in x.dtype.names if n not in keep], usemask=False)", "expect": "canonical field order"},
    {"id": "update-state-in-retry", "file": _F, "old": "                self.rejected += 1\n                self.check_state()\n", "new": "                self.rejected += 1\n                self.update_state()\n                self.check_state()\n", "expect": "call `self.update_state` that can write a periodic checkpoint"},
    {"id": "stamp-before-acceptance-test", "file": _F, "edits": [(_F, '                proposed["it"] = self.iteration\n', ""), (_F, "            count += c\n", '            count += c\n            proposed["it"] = self.iteration\n')], "expect": "written to (`it` stamp) only after it was accepted"},
    {"id": "finalise-skip-append", "file": _F, "old": "            self.nested_samples.append(p)\n        self.live_points = None", "new": "            if i:\n                self.nested_samples.append(p)\n        self.live_points = None", "expect": "paired once per remaining point"},
]

CLAIM = {
    "text": "Decides, on every run from the current source of NestedSampler, the structural clauses the live-set property rests on for every model/seed/history: strict `>` acceptance guards dominate insertion and the yielded replacement; remove-worst -> integrate -> record -> advance -> stamp -> insert -> record-index happen in that order, exactly once per iteration on every CFG path; only the named methods write the live array / dead list / index list; the searchsorted block-shift index arithmetic is an exact linear identity; the initial set is the sorted nlive finite draws; finalise consumes in ascending order with counts nlive..1. 71 rule instances, each flipped by a one-token edit the mocked unit tests keep green (21 such mutants in the thorough tier). The pool handed to the live array is produced in canonical field order (model.names then the non-sampling fields) by every proposal, because numpy copies a structured row into the live array by position (R-FIELDS); the recorded insertion index is the value insert_live_point returned, through a local or directly. A positional (memory-order) view of a structured array - unstructured_view / ndarray.view((float, n)) - is combined only with scalars anywhere in the package, never with a per-parameter array such as the prior bounds (the flow proposal hands the model arrays in reparameterisation order). Each discarded point is recorded once across resumes too (C01.9): every call in consume_sample that can write a periodic checkpoint executes at an iteration boundary of the effect counters (the one pristine exception, check_state() in the retry loop with checkpoint_on_training, is a recorded finding). Every store into the drawn point happens under the acceptance fact p['logL'] > logLmin (C01.2): a rejected draw can be the recorded point itself.",
    "note": "Decides the shape of the code, not run-time values: proposals are assumed to return points whose logP/logL fields are truthful (in-package proposals are covered under C09), numpy searchsorted/sort semantics are trusted, NaN likelihood ordering and user Proposal subclasses are outside the analysed program.",
}
