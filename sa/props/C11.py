"""C11 - a process kill during checkpointing never leaves the run unresumable.

R-FS: the writer sequences (safe_file_dump, FlowModel.save_weights) and the
reader logic (FlowSampler.check_resume / _resume_from_file,
BaseNestedSampler.resume, FlowProposal.resume) are *interpreted from the
current source* on an abstract directory; every crash point of every writer
from every initial directory state is enumerated and the reader applied.
"""

import ast
import itertools

from .. import AnalysisError, tables
from ..callgraph import callgraph
from ..fsinterp import ABSENT, Interp, Path, State, UNKNOWN, handler_names, run_writer, PARTIAL_LOAD_ERRORS, PICKLE_PARTIAL_LOAD_ERRORS
from ..canon import canon
from ..pm import dotted, src
from ..q import FA, call_name, walk_no_nested
from ..resolve import resolver

TECHNIQUE = "R-FS: abstract interpretation of the writer and reader functions over a three-valued directory (absent/partial/complete), exhaustive enumeration of crash points x initial states x options; R-ORDER/R-CALLERS for the call structure around them; dataflow rule on the checkpoint target through the resume path; interprocedural may-be-None analysis of weights-loader arguments (R-NONNULL); path-summary rule on the pickled weights path"


def loader_param(prog, res, f, depth=0, seen=None):
    """Index (into the call's positional args, self excluded) of the parameter f LOADs, or None."""
    seen = seen or set()
    if f.qual in seen or depth > 3:
        return None
    seen.add(f.qual)
    params = f.params()
    off = 1 if (f.cls is not None and not f.is_static) else 0
    for n in walk_no_nested(f.node):
        if isinstance(n, ast.Call):
            nm = call_name(n) or ""
            if nm in ("torch.load", "open") and n.args and isinstance(n.args[0], ast.Name) and n.args[0].id in params:
                if nm == "open":
                    mode = n.args[1].value if len(n.args) > 1 and isinstance(n.args[1], ast.Constant) else "r"
                    if "r" not in mode:
                        continue
                return params.index(n.args[0].id) - off
            callees = res.resolve_call(f, n, count=False) or []
            for g in callees:
                k = loader_param(prog, res, g, depth + 1, seen)
                if k is not None and len(n.args) > k and isinstance(n.args[k], ast.Name) and n.args[k].id in params:
                    return params.index(n.args[k].id) - off
    return None


def run(ctx):
    prog = ctx.prog
    res = resolver(prog)

    # ---- call structure around the writers -----------------------------
    ck = ctx.fn(tables.BASE + ".checkpoint")
    cka = FA(ck)
    dumps = cka.find_calls("safe_file_dump")
    ctx.require(len(dumps) == 1, "BaseNestedSampler.checkpoint: expected one safe_file_dump call")
    dcall = dumps[0][1]
    ctx.ob("R-CALLERS", "C11.0", ck, "checkpoint writes the sampler only through safe_file_dump(self, self.resume_file, ...)",
           len(dcall.args) >= 2 and src(dcall.args[0]) == "self" and src(dcall.args[1]) == "self.resume_file", f"`{src(dcall)}`", node=dcall)
    other = [n for n in walk_no_nested(ck.node) if isinstance(n, ast.Call) and (call_name(n) or "") in ("open", "pickle.dump", "shutil.move", "os.replace", "os.rename", "torch.save")]
    ctx.ob("R-CALLERS", "C11.0", ck, "checkpoint performs no other file operation on the resume file", not other, f"{[src(o) for o in other]}")
    kw = {k.arg: k.value for k in dcall.keywords}
    ctx.ob("R-CALLERS", "C11.0", ck, "save_existing option is forwarded to the writer", "save_existing" in kw and src(kw["save_existing"]) == "save_existing", f"`{src(dcall)}`", node=dcall)
    tr = ctx.fn(tables.FM + ".train")
    tra = FA(tr)
    sw = tra.find_calls("self.save_weights")
    ctx.ob("R-CALLERS", "C11.0", tr, "training saves the weights through FlowModel.save_weights on every normal path", len(sw) == 1 and tra.on_every_normal_path(sw[0][0]), "")

    # ---- writer 1: safe_file_dump ---------------------------------------
    w1 = ctx.fn("nessai.utils.io:safe_file_dump")
    reader = SamplerReader(ctx, prog, res)
    n_states = 0
    samples = []
    initial_states = {
        "no checkpoint": {},
        "one checkpoint": {"F": ("complete", "v1")},
        "checkpoint + .old": {"F": ("complete", "v1"), "F.old": ("complete", "v0")},
        "checkpoint + stale .temp of an earlier crash": {"F": ("complete", "v1"), "F.temp": ("partial", "vx")},
        "only .old + stale .temp (earlier crash between move and write)": {"F.old": ("complete", "v0"), "F.temp": ("partial", "vx")},
    }
    params = w1.params()
    ctx.require(params[:3] == ["data", "filename", "module"] and "save_existing" in params, f"safe_file_dump signature changed: {params}")
    for save_existing in (True, False):
        for sname, fs0 in initial_states.items():
            wi = Interp(prog, res, w1)
            env = {"filename": Path("F"), "save_existing": save_existing, "data": UNKNOWN, "module": UNKNOWN}
            crashes = run_writer(wi, fs0, env)
            before = reader.outcome(fs0, weights=None)
            for k, desc, fs, trace in crashes:
                n_states += 1
                after = reader.outcome(fs, weights=None)
                ok, why = acceptable(before, after, is_last=(k == len(crashes) - 1))
                inst = f"safe_file_dump(save_existing={save_existing}) from [{sname}] killed at step {k} ({desc})"
                ctx.ob("R-FS", "C11.1", w1, inst, ok, f"directory {fmt_fs(fs)} -> reader: {after['text']}; before: {before['text']}. {why}")
                if len(samples) < 6:
                    samples.append({"writer": "safe_file_dump", "save_existing": save_existing, "initial": sname, "crash": desc, "directory": fmt_fs(fs), "reader": after["text"]})
    ctx.floor("C11.1", 30)

    # ---- writer 2: FlowModel.save_weights --------------------------------
    w2 = ctx.fn(tables.FM + ".save_weights")
    w_states = {
        "no weights yet": {},
        "weights saved once": {"W": ("complete", "w1")},
        "weights + .old": {"W": ("complete", "w1"), "W.old": ("complete", "w0")},
    }
    f_states = {
        "one checkpoint": {"F": ("complete", "v1")},
        "checkpoint + .old": {"F": ("complete", "v1"), "F.old": ("complete", "v0")},
    }
    for wname, ws0 in w_states.items():
        wi = Interp(prog, res, w2)
        env = {"weights_file": Path("W"), "self.model": UNKNOWN}
        crashes = run_writer(wi, ws0, env, new_version="w-new")
        for fname, fs_f in f_states.items():
            # the checkpoint that exists references W iff weights had been saved before it was written
            wref = "W" if ws0 else None
            before = reader.outcome({**fs_f, **ws0}, weights=wref)
            for k, desc, fs, trace in crashes:
                n_states += 1
                after = reader.outcome({**fs_f, **fs}, weights=wref)
                ok, why = acceptable(before, after, is_last=(k == len(crashes) - 1), weights=True)
                inst = f"FlowModel.save_weights from [{wname}; {fname}] killed at step {k} ({desc})"
                ctx.ob("R-FS", "C11.2", w2, inst, ok, f"directory {fmt_fs({**fs_f, **fs})} -> reader: {after['text']}; before: {before['text']}. {why}")
                if len(samples) < 10:
                    samples.append({"writer": "save_weights", "initial": wname, "crash": desc, "directory": fmt_fs(fs), "reader": after["text"]})
                # depth 2: resume after this kill (the reader may repair the directory), train again, kill again
                if ok and after["kind"] == "loaded" and k < len(crashes) - 1:
                    fs1 = after["fs_after"]
                    ws1 = {n: v for n, v in fs1.items() if n.startswith("W")}
                    fpart = {n: v for n, v in fs1.items() if n.startswith("F")}
                    wi2 = Interp(prog, res, w2)
                    crashes2 = run_writer(wi2, ws1, {"weights_file": Path("W"), "self.model": UNKNOWN}, new_version="w-new2")
                    before2 = reader.outcome(fs1, weights=wref)
                    for k2, desc2, fs2, _ in crashes2:
                        n_states += 1
                        after2 = reader.outcome({**fpart, **fs2}, weights=wref)
                        ok2, why2 = acceptable(before2, after2, is_last=(k2 == len(crashes2) - 1), weights=True, new_w="w-new2")
                        ctx.ob("R-FS", "C11.2", w2, inst + f" ; resumed ; next save killed at step {k2} ({desc2})", ok2,
                               f"directory {fmt_fs({**fpart, **fs2})} -> reader: {after2['text']}; before: {before2['text']}. {why2}")
    ctx.floor("C11.2", 10)
    ctx.extra["exhaustive"] = True
    ctx.extra["states"] = n_states
    ctx.extra["crash_state_samples"] = samples
    ctx.extra["reader_model"] = reader.describe()

    # ---- table agreement -------------------------------------------------
    wi = Interp(prog, res, w1)
    run_writer(wi, {"F": ("complete", "v1")}, {"filename": Path("F"), "save_existing": True, "data": UNKNOWN, "module": UNKNOWN})
    produced = {op.split(",")[1].rstrip(")") for op in wi.ops_seen if op.startswith("RENAME(") and op.split(",")[1].rstrip(")") != "F"}
    ctx.ob("R-SIB", "C11.3", w1, "every backup name the checkpoint writer produces is a name the resume logic tries", produced <= set(reader.candidates), f"writer produces {sorted(produced)}; reader tries {reader.candidates}")

    # ---- INS: only the first n level files are loaded ----------------------
    up = ctx.fn(tables.IFM + ".update_weights_path")
    ok = False
    for n in walk_no_nested(up.node):
        if isinstance(n, ast.Assign) and any(src(t) == "self.weights_files" for t in n.targets) and isinstance(n.value, ast.ListComp):
            g = n.value.generators[0]
            ok = isinstance(g.iter, ast.Call) and call_name(g.iter) == "range" and len(g.iter.args) == 1 and src(g.iter.args[0]) == "n"
    ctx.ob("R-LIN", "C11.4", up, "INS loads exactly the first n level files (range(n)), never a newer, possibly torn one", ok, "")
    rs = ctx.fn(tables.IFM + ".resume")
    calls = FA(rs).find_calls("self.update_weights_path")
    okn = len(calls) == 1 and any(k.arg == "n" and src(k.value) == "self._resume_n_models" for k in calls[0][1].keywords)
    ctx.ob("R-LIN", "C11.4", rs, "n is the number of models at the time the checkpoint was pickled (_resume_n_models)", okn, "")
    gs = ctx.fn(tables.IFM + ".__getstate__")
    from ..pat import find_stmt as _fs
    dd = _fs("$$d = self.__dict__", gs.node)
    okg = len(dd) == 1 and len(_fs("$$s['_resume_n_models'] = len($$d['models'])", gs.node, {"d": dd[0][1]["d"]})) == 1
    ctx.ob("R-LIN", "C11.4", gs, "the pickled count is len(models)", okg, "")
    # every model counted at an INS checkpoint has its weights saved: add_new_flow -> flow.train (which saves) before any checkpoint
    itr = ctx.fn(tables.IFP + ".train")
    ia = FA(itr)
    adds = ia.find_calls("self.flow.add_new_flow")
    trains = ia.find_calls("self.flow.train")
    ctx.ob("R-ORDER", "C11.4", itr, "a new flow is always trained (and its weights saved) in the same call that adds it", len(adds) == 1 and len(trains) == 1 and ia.dominates(adds[0][0], trains[0][0]) and ia.every_path_from_passes(adds[0][0], [trains[0][0]]), "")
    g, _ = callgraph(prog)
    import networkx as nx

    desc = nx.descendants(g, itr.qual) if itr.qual in g else set()
    ctx.ob("R-CALLERS", "C11.4", itr, "no checkpoint is written from inside the proposal training (between add_new_flow and save_weights)", not any(q.endswith(".checkpoint") for q in desc), "")
    ctx.floor("C11.4", 5)
    # ---- C11.5 the sampler keeps checkpointing to the name the reader tries first ------------------------------------
    # FlowSampler._resume_from_file hands `resume_file + ".old"` to <Sampler>.resume when the primary file is missing or
    # torn; a sampler resumed that way must go on writing F (backup F.old), not F.old (backup F.old.old): otherwise the
    # next kill in the rename window leaves only names the reader never tries and the run silently starts afresh.
    # So: the checkpoint target is set where the output is configured, and nothing on the resume path sets it from the
    # name of the file that was loaded.
    rff = ctx.fn(tables.FS + "._resume_from_file")
    fallback_ = [c_ for c_ in walk_no_nested(rff.node) if isinstance(c_, ast.Call) and isinstance(c_.func, ast.Attribute) and c_.func.attr == "resume"]
    ctx.ob("R-FS", "C11.5", rff, "the reader passes the candidate name it is loading (primary, then `.old`) to <Sampler>.resume", len(fallback_) >= 2 and (any(isinstance(s_, ast.AugAssign) and src(s_.value) in ("'.old'", '".old"') for s_ in walk_no_nested(rff.node)) or sum(1 for c_ in fallback_ if c_.args and any(isinstance(k_, ast.Constant) and k_.value == ".old" for k_ in ast.walk(c_.args[0]))) == 1), f"{[src(c_)[:60] for c_ in fallback_]}")
    n_rf = 0
    for f_ in prog.all_functions:
        for s_ in walk_no_nested(f_.node):
            if not (isinstance(s_, ast.Assign) and any(isinstance(t_, ast.Attribute) and t_.attr == "resume_file" for t_ in s_.targets)):
                continue
            n_rf += 1
            on_resume = f_.name in ("resume", "resume_from_pickled_sampler", "_resume_from_file", "_resume_from_data", "check_resume", "__setstate__")
            loaded_names = {a_.arg for a_ in f_.node.args.args if a_.arg in ("filename", "resume_file", "file", "path")} if on_resume else set()

            def from_loaded(e_):
                # the loaded file's own name (not merely its directory)
                for x_ in ast.walk(e_):
                    if isinstance(x_, ast.Name) and x_.id in loaded_names:
                        par_ = next((c_ for c_ in ast.walk(e_) if isinstance(c_, ast.Call) and (call_name(c_) or "").endswith("dirname") and any(y_ is x_ for y_ in ast.walk(c_))), None)
                        if par_ is None:
                            return True
                return False

            bad_ = on_resume and from_loaded(s_.value)
            ctx.ob("R-FS", "C11.5", f_, "the checkpoint target (resume_file) is not set from the name of the file a sampler was resumed from (which may be the `.old` backup)", not bad_, f"`{src(s_)[:70]}`" + (": after a resume through the `.old` fallback every later checkpoint goes to F.old / F.old.old, names the reader never tries" if bad_ else ""), node=s_)
    ctx.require(n_rf >= 1, "no store to resume_file found (configure_output expected)")
    ctx.floor("C11.5", 2)

    # ---- C11.7 the checkpoint names the weights the flow has *now* ---------------------------------------------------
    # FlowProposal.resume loads `weights_file` from the pickle; FlowProposal never sets that attribute itself, it is the
    # key __getstate__ adds.  With per-training weight files (proposal_plots / save_training_data) a stale path pairs the
    # newest sampler state with the flow of an earlier training - a torn checkpoint that raises nothing.  So the value
    # pickled under that key is the flow's current weights file; a previously stored path may only be a fallback for it.
    gsf = ctx.fn(tables.FP + ".__getstate__")
    from ..summ import summarise as _summ117

    n117 = 0
    LIVE117 = ("getattr(state.get('flow'), 'weights_file', None)", "getattr(self.flow, 'weights_file', None)", "self.flow.weights_file", "state['flow'].weights_file", "getattr(self.__dict__.copy().get('flow'), 'weights_file', None)")
    for pa_ in [x_ for x_ in _summ117(gsf.node) if x_.end == "return"]:
        for eff in pa_.effects:
            if eff[0] == "store" and isinstance(eff[1], ast.Subscript) and isinstance(eff[1].slice, ast.Constant) and eff[1].slice.value == "weights_file":
                n117 += 1
                v_ = eff[2]
                first_ = v_.values[0] if isinstance(v_, ast.BoolOp) and isinstance(v_.op, ast.Or) else (v_.body if isinstance(v_, ast.IfExp) else v_)
                _n117 = lambda e_: canon(e_).replace("self.__dict__.copy()", "state").replace("self.__dict__", "state")
                ok117 = _n117(first_) in LIVE117 or _n117(v_) in LIVE117
                ctx.ob("R-PICKLE", "C11.7", gsf, "the weights path written into the proposal's pickle is the flow's current weights file (a stored path at most as a fallback)", ok117, f"`{src(v_)[:110]}`")
    ctx.require(n117 >= 1, "FlowProposal.__getstate__: no store of state['weights_file'] found")
    ctx.floor("C11.7", 1)

    # ---- C11.6 a weights loader is handed a path, never None --------------------------------------------------------
    # the restore-the-backup logic of FlowProposal.resume catches the exceptions a torn file raises (RuntimeError, OSError,
    # EOFError, UnpicklingError); torch.load(None) raises AttributeError, which nobody catches, so a fallback that can load
    # `self.weights_file` while it is still None (a FlowModel rebuilt on resume) leaves a recoverable run unresumable
    from ..rules import nonnull as _nn

    _hits = _nn.scan(prog)
    for f_, c_, ok_, why_ in _hits:
        ctx.ob("R-NONNULL", "C11.6", f_, "the file handed to a weights loader cannot be None (interprocedural: guards, callers' arguments, defaulting idiom, attributes that start as None)", ok_, why_, node=c_)
    ctx.floor("C11.6", 5)
    ctx.assumptions += [
        "rename within one directory is atomic and a completed close is durable (process death, not power loss)",
        "loading an absent file raises FileNotFoundError, a partially written one raises EOFError / UnpicklingError / RuntimeError (confirmed once on the pinned torch), a complete one succeeds",
        "user-supplied checkpoint_callback is outside the analysed program",
    ]


def fmt_fs(fs):
    return "{" + ", ".join(f"{k}:{v[0]}{'('+str(v[1])+')' if len(v)>1 else ''}" for k, v in sorted(fs.items()) if v != ABSENT) + "}"


def acceptable(before, after, is_last, weights=False, new_w="w-new"):
    """The resumed state must be a complete previous-or-new version; a fresh
    start only if nothing had completed before."""
    if after["kind"] == "error":
        return False, f"resume fails with {after['exc']}"
    if after["kind"] == "fresh":
        if before["kind"] == "fresh":
            return True, "no checkpoint had completed: starts afresh"
        return False, "a completed checkpoint existed but the run starts afresh (checkpoint lost)"
    # loaded
    prev_s = before.get("sampler")
    if after["sampler"] not in {prev_s, "new"}:
        return False, f"loads sampler version {after['sampler']} which is neither the previous ({prev_s}) nor the new one"
    if weights or before.get("weights") is not None:
        prev_w = before.get("weights")
        if prev_w is not None and after.get("weights") not in {prev_w, new_w}:
            return False, f"weights restored: {after.get('weights')} - neither the previous ({prev_w}) nor the new version (checkpoint references the weights file)"
    if is_last and after["sampler"] != "new" and not weights:
        return False, "writer completed but the reader does not load the new version"
    return True, "complete previous-or-new version"


class SamplerReader:
    """Reader model extracted from FlowSampler / BaseNestedSampler / FlowProposal."""

    def __init__(self, ctx, prog, res):
        self.ctx, self.prog, self.res = ctx, prog, res
        cr = ctx.fn(tables.FS + ".check_resume")
        lists = [n for n in walk_no_nested(cr.node) if isinstance(n, ast.List) and any("resume_file" in src(e) for e in n.elts)]
        ctx.require(len(lists) == 1, "FlowSampler.check_resume: candidate list [resume_file, resume_file + '.old'] not found")
        it = Interp(prog, res, cr)
        st = State({}, {"resume_file": Path("F")})
        self.candidates = []
        for e in lists[0].elts:
            v = it.value(e, st)
            ctx.require(isinstance(v, Path), f"check_resume candidate `{src(e)}` is not a path over resume_file")
            self.candidates.append(v.name)
        exists_call = any(isinstance(n, ast.Call) and call_name(n) == "os.path.exists" for n in walk_no_nested(cr.node))
        any_call = any(isinstance(n, ast.Call) and call_name(n) == "any" for n in walk_no_nested(cr.node))
        # ... or the same search written as a loop over the candidates that returns True at the first one that exists
        for lp_ in [n for n in walk_no_nested(cr.node) if isinstance(n, ast.For)]:
            if any(isinstance(i_, ast.If) and any(isinstance(c_, ast.Call) and call_name(c_) == "os.path.exists" for c_ in ast.walk(i_.test)) and any(isinstance(r_, ast.Return) and isinstance(r_.value, ast.Constant) and r_.value.value is True for r_ in i_.body) for i_ in ast.walk(lp_)):
                any_call = True
        ctx.ob("R-FS", "C11.3", cr, "resume is attempted iff any candidate file exists", exists_call and any_call, f"candidates {self.candidates}")
        # __init__: resume branch guarded by check_resume, else fresh SamplerClass(...)
        init = ctx.fn(tables.FS + ".__init__")
        ia = FA(init)
        rf = ia.find_calls("self._resume_from_file")
        ctx.require(len(rf) == 1, "FlowSampler.__init__: _resume_from_file call not found")
        facts = [src(e) for e, t in _facts(ia, rf[0][0]) if t]
        ctx.ob("R-FS", "C11.3", init, "_resume_from_file is reached only when check_resume says a candidate exists", any("self.check_resume(resume_file, resume_data)" in f for f in facts), f"guards {facts}")
        self.rff = ctx.fn(tables.FS + "._resume_from_file")
        # BaseNestedSampler.resume loads its filename parameter
        br = ctx.fn(tables.BASE + ".resume")
        k = loader_param(prog, res, br)
        ctx.ob("R-FS", "C11.3", br, "SamplerClass.resume opens and unpickles exactly the file it is given", k == 0 and any(isinstance(n, ast.Call) and call_name(n) == "pickle.load" for n in walk_no_nested(br.node)), f"loader parameter index {k}")
        # (what a torn sampler file raises depends on the loader: pickle.load raises EOFError / UnpicklingError only)
        loads_ = [call_name(n) or "" for n in walk_no_nested(br.node) if isinstance(n, ast.Call) and (call_name(n) or "").endswith(".load")]
        self.sampler_load_errors = PICKLE_PARTIAL_LOAD_ERRORS if loads_ and all(x_ in ("pickle.load", "dill.load") for x_ in loads_) else PARTIAL_LOAD_ERRORS
        # NestedSampler.resume_from_pickled_sampler -> _flow_proposal.resume(model, flow_config, weights_path)
        nr = ctx.fn(tables.NS + ".resume_from_pickled_sampler")
        calls = [c for _, c in FA(nr).find_expr(lambda e: isinstance(e, ast.Call) and isinstance(e.func, ast.Attribute) and e.func.attr == "resume" and isinstance(e.func.value, ast.Attribute) and e.func.value.attr == "_flow_proposal")]
        ctx.require(len(calls) == 1, "NestedSampler.resume_from_pickled_sampler: flow proposal resume call not found")
        self.fpr = ctx.fn(tables.FP + ".resume")
        self.attempts_desc = []
        for t in [n for n in ast.walk(self.rff.node) if isinstance(n, ast.Try)]:
            self.attempts_desc.append([handler_names(h) for h in t.handlers])

    def describe(self):
        return {"candidates": self.candidates, "except_clauses_of_attempts": self.attempts_desc, "partial_load_raises": PARTIAL_LOAD_ERRORS, "partial_sampler_pickle_raises": self.sampler_load_errors}

    # -- weights reader: interpret FlowProposal.resume --------------------
    def weights_outcomes(self, st: State, wref):
        prog, res = self.prog, self.res
        fpr = self.fpr

        def is_loader(interp, c):
            if not isinstance(c.func, ast.Attribute):
                return False
            callees = res.resolve_call(interp.fi, c, count=False) or []
            return any(loader_param(prog, res, g) is not None for g in callees)

        def do_load(interp, c, s):
            callees = res.resolve_call(interp.fi, c, count=False) or []
            ks = {loader_param(prog, res, g) for g in callees}
            if len(ks) != 1:
                raise AnalysisError(f"ambiguous loader parameter for `{src(c)}`")
            k = ks.pop()
            v = interp.value(c.args[k], s)
            if v is None or isinstance(v, type(UNKNOWN)):
                raise AnalysisError(f"loader `{src(c)}` called with an unresolved path")
            return interp.load(v, s, src(c))

        it = Interp(prog, res, fpr, primitives={is_loader: do_load})
        s = st.clone()
        s.env = {"weights_file": None, "self.weights_file": Path(wref) if wref else None, "self.mask": None, "flow_config": UNKNOWN, "model": UNKNOWN}
        outs = it.run(s)
        return outs

    # -- full reader --------------------------------------------------------
    def outcome(self, fs, weights):
        """Summarised outcome(s) of FlowSampler(resume=True) on abstract directory fs."""
        if not any(fs.get(c, ABSENT) != ABSENT for c in self.candidates):
            return {"kind": "fresh", "text": "no candidate file: starts afresh"}
        prog, res = self.prog, self.res
        reader = self

        def is_resume(interp, c):
            return isinstance(c.func, ast.Attribute) and c.func.attr == "resume" and isinstance(c.func.value, ast.Name) and c.func.value.id == "SamplerClass"

        def do_resume(interp, c, s):
            p = interp.value(c.args[0], s)
            outs = interp.load(p, s, src(c), errors=reader.sampler_load_errors)
            res_ = []
            for s1, sig in outs:
                if sig is not None:
                    res_.append((s1, sig))
                    continue
                # standard sampler: the flow proposal re-attaches its weights (worst case of the two samplers)
                for s2, sig2 in reader.weights_outcomes(s1, weights):
                    s3 = s2.clone()  # keeps any file operation the weights reader performed
                    s3.env = dict(s1.env)
                    res_.append((s3, sig2 if (sig2 is not None and sig2[0] == "raise") else None))
            return res_

        it = Interp(prog, res, self.rff, primitives={is_resume: do_resume})
        st = State(dict(fs), {"resume_file": Path("F"), "self.output": UNKNOWN, "SamplerClass": UNKNOWN})
        outs = it.run(st)
        kinds = []
        for s1, sig in outs:
            if sig is not None and sig[0] == "raise":
                kinds.append({"kind": "error", "exc": sig[1], "text": f"resume raises {sig[1]} ({' ; '.join(s1.trace[-4:])})"})
            else:
                samp = [v for n, v in s1.loaded if n.startswith("F")]
                w = [v for n, v in s1.loaded if n.startswith("W")]
                kinds.append({"kind": "loaded", "sampler": samp[-1] if samp else None, "weights": w[-1] if w else None, "fs_after": dict(s1.fs),
                              "text": f"loads sampler {samp[-1] if samp else None}" + (f" + weights {w[-1]}" if w else (" (no weights restored)" if weights else ""))})
        # worst outcome decides
        for k in kinds:
            if k["kind"] == "error":
                return k
        ctx_kinds = {(k.get("sampler"), k.get("weights")) for k in kinds}
        if len(ctx_kinds) != 1:
            return {"kind": "error", "exc": "nondeterministic", "text": f"reader outcome depends on which error a torn file raises: {sorted(map(str, ctx_kinds))}"}
        return kinds[0]


def _facts(fa, nid):
    from ..q import guard_facts

    return guard_facts(fa, nid)


CLAIM = {
    "text": "Exhaustive crash-point enumeration on a model extracted from the source at every run: the statements of safe_file_dump and FlowModel.save_weights are interpreted on an abstract directory (absent / partial / complete per file), killed before every file operation and inside every non-atomic write, from every initial directory state (none, one checkpoint, checkpoint+.old, stale .temp leftovers) and both save_existing values; the resume logic (check_resume candidates, the nested try/except of _resume_from_file with its exception classes, BaseNestedSampler.resume, FlowProposal.resume's weights re-attachment incl. its own file operations) is interpreted on each resulting directory and must load a complete previous-or-new version, or start afresh only when nothing had completed. Weight saves are followed to depth 2 (kill, resume, train again, kill again). INS: only the first n pickled-count level files are ever loaded. Found and repaired on this tree: resume failed / silently dropped the weights after a kill inside save_weights. The checkpoint target is never set, on the resume path, from the name of the file a sampler was resumed from - which may be the `.old` backup the reader fell back to (C11.5). The file handed to torch.load / load_weights / reload_weights is never None (C11.6: guards, callers' arguments, defaulting idiom, attributes that start as None) - torch.load(None) raises AttributeError, which bypasses the restore-the-backup handler of FlowProposal.resume. The weights path written into the proposal's pickle is the flow's current one, a stored path at most as a fallback (C11.7). A torn sampler pickle raises what pickle.load raises on a truncated stream (EOFError / UnpicklingError); torch.load's wider set applies to weight files only.",
    "note": "Trusted: rename within a directory is atomic, a completed close is durable (process death, not power loss); the table of what loading an absent / torn / complete file raises (confirmed once against the pinned torch and pickle). Not decided: that sampling continues numerically from the loaded state; user checkpoint callbacks.",
}

_IO = "nessai/utils/io.py"
_FS = "nessai/flowsampler.py"
_FPF = "nessai/proposal/flowproposal.py"
_IFM = "nessai/flowmodel/importance.py"
MUTANTS = [
    {"id": "stored-weights-path-wins", "file": "nessai/proposal/flowproposal.py", "old": '        state["weights_file"] = getattr(\n            state.get("flow"), "weights_file", None\n        )\n', "new": '        state["weights_file"] = state.get("weights_file") or getattr(\n            state.get("flow"), "weights_file", None\n        )\n', "expect": "the flow's current weights file"},
    {"id": "reload-falls-back-to-unset-internal-file", "file": "nessai/flowmodel/base.py", "old": "        logger.debug(f\"Reloading weights from {weights_file}\")\n        self.load_weights(weights_file)\n", "new": "        logger.debug(f\"Reloading weights from {weights_file}\")\n        try:\n            self.load_weights(weights_file)\n        except (RuntimeError, OSError, EOFError):\n            if weights_file == self.weights_file:\n                raise\n            self.load_weights(self.weights_file)\n", "expect": "weights loader cannot be None"},
    {"id": "rename-before-close", "file": _IO, "old": "        module.dump(data, file)\n    shutil.move(temp_filename, filename)\n", "new": "        module.dump(data, file)\n        shutil.move(temp_filename, filename)\n", "expect": "CRASH before WRITE+CLOSE"},
    {"id": "dump-in-place", "file": _IO, "old": '    temp_filename = filename + ".temp"\n    with open(temp_filename, "wb") as file:\n        module.dump(data, file)\n    shutil.move(temp_filename, filename)\n', "new": '    with open(filename, "wb") as file:\n        module.dump(data, file)\n', "expect": "safe_file_dump(save_existing=False) from [one checkpoint]"},
    {"id": "backup-suffix-mismatch", "file": _IO, "old": 'old_filename = filename + ".old"', "new": 'old_filename = filename + ".bak"', "expect": "safe_file_dump(save_existing=True)"},
    {"id": "reader-ignores-old", "file": _FS, "old": "for f in [resume_file, resume_file + \".old\"]", "new": "for f in [resume_file]", "expect": "safe_file_dump(save_existing=True) from [one checkpoint] killed at step 1"},
    {"id": "reader-does-not-catch-missing-file", "file": _FS, "old": "        except (FileNotFoundError, RuntimeError) as e:", "new": "        except RuntimeError as e:", "expect": "safe_file_dump(save_existing=True) from [one checkpoint] killed at step 1"},
    {"id": "reader-fallback-wrong-name", "file": _FS, "old": '                resume_file += ".old"\n', "new": '                resume_file += ".temp"\n', "expect": "safe_file_dump(save_existing=True)"},
    {"id": "weights-no-fallback", "file": _FPF, "old": "            elif os.path.exists(backup_file):\n", "new": "            elif False:\n", "expect": "FlowModel.save_weights from [weights saved once; one checkpoint] killed at step 1"},
    {"id": "weights-narrow-except", "file": _FPF, "old": "                except (\n                    RuntimeError,\n                    OSError,\n                    EOFError,\n                    pickle.UnpicklingError,\n                ):", "new": "                except RuntimeError:", "expect": "FlowModel.save_weights from [weights saved once; one checkpoint] killed at step 2"},
    {"id": "weights-fallback-no-rollback", "file": _FPF, "old": "                    os.replace(backup_file, weights_file)\n                    self.flow.reload_weights(weights_file)\n            elif", "new": "                    self.flow.reload_weights(backup_file)\n            elif", "expect": "resumed ; next save killed"},
    {"id": "ins-loads-all-level-files", "file": _IFM, "old": "            for i in range(n)\n", "new": "            for i in range(len(all_weights_files))\n", "expect": "first n level files"},
    {"id": "ins-count-not-pickled", "file": _IFM, "old": "self.update_weights_path(weights_path, n=self._resume_n_models)", "new": "self.update_weights_path(weights_path, n=None)", "expect": "_resume_n_models"},
]
