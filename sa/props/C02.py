"""C02 - evidence and posterior weights equal the documented NS quadrature.

Sibling agreement of the shrinkage / schedule / boundary constructions against
the formulas in the property statement (R-SIB on canonical forms), and
shift-degree typing of every expression in the anchored functions (R-DEG).
"""

import ast
from fractions import Fraction

from .. import AnalysisError
from ..canon import canon, cexpr, linform, single_assignments
from ..deg import POLY, TOP, DegChecker
from ..lin import lin_eq
from ..pat import find_expr, find_stmt, match_expr, match_stmt
from ..pm import src
from ..q import FA, call_name, compare_parts, const, guard_facts, is_neg_inf, is_self_attr, mode_under, norm_args, walk_no_nested

TECHNIQUE = "R-SIB: canonical-form comparison of the three shrinkage implementations, the final live-count schedules and the boundary constructions against the documented formulas; R-DEG: shift-degree type checking (abstract interpretation) of every expression in the integrator and weight functions; order-insensitive linear forms for the quadrature rules; R-ALIAS (fresh-object analysis of property getters paired with in-place consumers); function- and class-level R-NORM on the shrinkage option; true-division rule for live counts"

ST = "nessai.evidence:_NSIntegralState"
EXPECTED = {"logt": "-(1 / n)", "t": "-log1p(1 / n)"}


def _single_target_assign(stmts):
    a = [s for s in stmts if isinstance(s, ast.Assign) and len(s.targets) == 1 and isinstance(s.targets[0], ast.Name)]
    return a[0] if len(a) == 1 and len(stmts) <= 2 else None


def _canon_shrinkage(value, inline=None):
    """Canonical text of a shrinkage expression with its single count variable renamed to n (temporaries bound once,
    such as `inv = 1 / nlive`, are substituted first)."""
    import copy as _copy

    inline = inline or {}

    class _Sub(ast.NodeTransformer):
        def visit_Name(self, n_):
            # only pieces of the formula itself (a quotient / reciprocal), not where the counts come from
            if isinstance(n_.ctx, ast.Load) and n_.id in inline and any((isinstance(x_, ast.BinOp) and isinstance(x_.op, ast.Div)) or (isinstance(x_, ast.Call) and ast.unparse(x_.func).split(".")[-1] in ("reciprocal", "log1p")) for x_ in ast.walk(inline[n_.id])):
                return _Sub().visit(_copy.deepcopy(inline[n_.id]))
            return n_

    value = _Sub().visit(_copy.deepcopy(value))
    names = {x.id for x in ast.walk(value) if isinstance(x, ast.Name)} - {"np", "numpy", "math", "float"}
    if len(names) != 1:
        return None
    return canon(value, rename={names.pop(): "n"})


def shrinkage_branches(fi):
    """({mode literal: (canonical expression, node)}, name of the shrinkage variable): the single-name
    assignments that run under a test of the expectation string, keyed by the mode the guards leave
    (shape of the if / elif / else chain, order of its arms and local names are irrelevant)."""
    fa = FA(fi)
    out, var = {}, None
    is_sel = lambda e: "expectation" in src(e)
    for n in fa.nodes():
        st = n.ast
        if n.kind != "stmt" or not (isinstance(st, ast.Assign) and len(st.targets) == 1 and isinstance(st.targets[0], ast.Name)):
            continue
        mode = mode_under(guard_facts(fa, n.id), is_sel, universe=("t", "logt"))
        if mode is None:
            continue
        if mode in out or (var is not None and st.targets[0].id != var):
            return {}, None
        var = st.targets[0].id
        out[mode] = (_canon_shrinkage(st.value, single_assignments(fi.node)), st)
    return out, var


def run(ctx):
    prog = ctx.prog
    inc = ctx.fn(ST + ".increment")
    glx = ctx.fn(ST + ".get_logx_live_points")
    fin = ctx.fn(ST + ".finalise")
    lpw = ctx.fn(ST + ".log_posterior_weights")
    ini = ctx.fn(ST + ".__init__")
    cw = ctx.fn("nessai.posterior:compute_weights")
    lse = ctx.fn("nessai.evidence:logsubexp")
    trap = ctx.fn("nessai.evidence:log_integrate_log_trap")

    # ---- C02.1 shrinkage agreement --------------------------------------
    tvar = {}
    for f in (inc, glx, cw):
        br, tvar[f.qual] = shrinkage_branches(f)
        ctx.require(set(br) == {"logt", "t"}, f"{f.qual}: could not read both shrinkage modes (found {sorted(br)})")
        for mode, (text, node) in sorted(br.items()):
            ctx.ob("R-SIB", "C02.1", f, f"expected shrinkage in mode '{mode}' is {EXPECTED[mode]}", text == EXPECTED[mode], f"canonical form `{text}` from `{src(node)}`", node=node)
    # mode strings are validated / rejected
    lits = [c.value for n in walk_no_nested(ini.node) if isinstance(n, ast.If) and "expectation" in src(n.test) for c in ast.walk(n.test) if isinstance(c, ast.Constant) and isinstance(c.value, str)]
    ctx.ob("R-SIB", "C02.1", ini, "the integrator accepts exactly the modes {'t','logt'} (lower-cased)", set(lits) == {"t", "logt"} and ".lower()" in src(ini.node), f"{lits}")
    ctx.ob("R-SIB", "C02.1", cw, "compute_weights rejects any other mode", any(isinstance(n, ast.Raise) for n in walk_no_nested(cw.node)), "")
    # an option attribute that is compared as stored must be stored normalised (class-level R-NORM)
    from ..rules import optnorm as _on2
    for _f, _n, _ok, _why in _on2.scan_attributes(prog):
        ctx.ob("R-NORM", "C02.1", _f, "an option that is accepted case-insensitively and compared as stored is stored in its normalised spelling", _ok, _why, node=_n)
    # ... and inside one function the same option is not compared both normalised and raw (function-level R-NORM; a shared
    # shrinkage helper is inlined into its callers by the program model, so a raw comparison in the helper is seen here)
    for _f, _n, _ok, _why in _on2.scan(prog):
        if _f.module.name in ("nessai.evidence", "nessai.posterior"):
            ctx.ob("R-NORM", "C02.1", _f, "an option that is looked up case-insensitively is compared with its literal values under the same normalisation", _ok, _why, node=_n)
    ctx.floor("C02.1", 8)

    # ---- C02.2 final live-point schedule -----------------------------------
    def arange_desc(call):
        return isinstance(call, ast.Call) and call_name(call) in ("np.arange", "numpy.arange") and len(call.args) == 3 and const(call.args[1], 0) and canon(call.args[2]) == "-1"

    g_ar = find_stmt("$$v = arange(nlive, 0, -1)", glx.node)
    ctx.ob("R-SIB", "C02.2", glx, "live-point volumes use counts nlive, nlive-1, ..., 1", len(g_ar) == 1, f"`{src(g_ar[0][0]) if g_ar else None}`")
    c_ar = find_stmt("$$v[-nlive:] = arange(nlive, 0, -1)", cw.node)
    ctx.ob("R-SIB", "C02.2", cw, "one-pass weights: the last nlive samples get counts nlive, ..., 1", len(c_ar) == 1, f"`{src(c_ar[0][0]) if c_ar else None}`")
    base = find_stmt("$$v = nlive * ones_like(samples)", cw.node, c_ar[0][1] if c_ar else None)
    ctx.ob("R-SIB", "C02.2", cw, "one-pass weights: all earlier samples get the constant count nlive (same array)", len(base) == 1, f"`{src(base[0][0]) if base else None}`")
    nsf = ctx.fn("nessai.samplers.nestedsampler:NestedSampler.finalise")
    from ..rules.schedule import final_schedule as _fsched
    nsfa = FA(nsf)
    loops_ = [n for n in nsfa.nodes() if n.kind == "for" and any(is_self_attr(x, "live_points") for x in ast.walk(n.ast.iter))]
    sch_ = _fsched(nsfa, loops_[0]) if len(loops_) == 1 else {"ok": False, "why": "loop over self.live_points not found"}
    ctx.ob("R-SIB", "C02.2", nsf, "incremental integrator receives the same schedule (self.nlive - i, i = 0, 1, ...) when the run is finalised", sch_["ok"], sch_["why"])
    ctx.floor("C02.2", 4)

    # ---- C02.3 boundary construction -----------------------------------------
    init_vals = {src(t): n.value for n in walk_no_nested(ini.node) if isinstance(n, ast.Assign) for t in n.targets}
    ctx.ob("R-SIB", "C02.3", ini, "log prior volumes start at [0.0]", canon(init_vals.get("self.log_vols", ast.Constant(None))) == "[0]" and canon(init_vals.get("self.logw", ast.Constant(None))) == "0", f"log_vols={src(init_vals.get('self.log_vols'))}, logw={src(init_vals.get('self.logw'))}")
    lv = init_vals.get("self.logLs")
    ctx.ob("R-SIB", "C02.3", ini, "likelihood list starts with -inf and the evidence at -inf", isinstance(lv, ast.List) and len(lv.elts) == 1 and is_neg_inf(lv.elts[0]) and is_neg_inf(init_vals.get("self.logZ")), f"logLs={src(lv)}, logZ={src(init_vals.get('self.logZ'))}")

    def closing(f, Lname, Xname):
        """arguments handed to log_integrate_log_trap, inlined"""
        inl = single_assignments(f.node)
        calls = [n for n in walk_no_nested(f.node) if isinstance(n, ast.Call) and call_name(n) == "log_integrate_log_trap"]
        if len(calls) != 1 or len(norm_args(calls[0])) != 2:
            raise AnalysisError(f"{f.qual}: expected one log_integrate_log_trap(L, X) call")
        return canon(norm_args(calls[0])[0], inline=inl), canon(norm_args(calls[0])[1], inline=inl), calls[0]

    for f in (fin, lpw):
        L, X, call = closing(f, "L", "X")
        ctx.ob("R-SIB", "C02.3", f, "trapezoid closed with a point at zero volume repeating the last likelihood: (L ++ [L[-1]], X ++ [-inf])",
               L == cexpr("array(self.logLs + [self.logLs[-1]])") and X == cexpr("array(self.log_vols + [-inf])"), f"L=`{L}` X=`{X}`", node=call)
    # compute_weights builds the volume array imperatively: identify it as the second argument of the integrator
    inl = single_assignments(cw.node)
    calls = [n for n in walk_no_nested(cw.node) if isinstance(n, ast.Call) and call_name(n) == "log_integrate_log_trap"]
    ctx.require(len(calls) == 1 and len(norm_args(calls[0])) == 2 and isinstance(norm_args(calls[0])[1], ast.Name), "compute_weights: integrator call / volume array not found")
    call = calls[0]
    Xb = {"X": norm_args(calls[0])[1]}
    tb = {"t": ast.Name(id=tvar[cw.qual], ctx=ast.Load())} if tvar.get(cw.qual) else {}
    x0 = [n for n, b in find_stmt("$$X = $v", cw.node, Xb) if match_expr("zeros(len(samples) + 2)", b["v"], inline=inl) is not None]
    if not x0:
        # an uninitialised buffer of the same length whose first slot is set to 0 explicitly
        x0 = [n for n, b in find_stmt("$$X = $v", cw.node, Xb) if match_expr("empty(len(samples) + 2)", b["v"], inline=inl) is not None and len(find_stmt("$$X[0] = 0", cw.node, Xb)) == 1]
    okv = len(x0) == 1 and len(find_stmt("$$X[1:-1] = cumsum($$t)", cw.node, {**Xb, **tb})) == 1 and len(find_stmt("$$X[-1] = -inf", cw.node, Xb)) == 1 and bool(tb)
    ctx.ob("R-SIB", "C02.3", cw, "one-pass volumes: X[0]=0 (whole prior), X[1:-1]=cumsum(shrinkage), X[-1]=-inf (closing point)", okv, "")
    L = canon(norm_args(calls[0])[0], inline=inl)
    ctx.ob("R-SIB", "C02.3", cw, "one-pass likelihoods: [-inf] ++ samples ++ [samples[-1]]", L == cexpr("concatenate([array([-inf]), samples, array([samples[-1]])])"), f"`{L}`", node=call)
    # posterior weights: L[1:-1] + logsubexp(X[:-1], X[1:])[:-1] - logZ, with every single-assignment local inlined
    Ls = cexpr("array(self.logLs + [self.logLs[-1]])")
    Xs = cexpr("array(self.log_vols + [-inf])")
    want_state = {f"{Ls}[1:-1]": 1, f"logsubexp({Xs}[:-1], {Xs}[1:])[:-1]": 1, f"log_integrate_log_trap({Ls}, {Xs})": -1}
    terms = _returned_weight_terms(lpw, None)
    ctx.ob("R-SIB", "C02.3", lpw, "log posterior weight = L_i + log(X_{i-1} - X_i) - log Z (rectangle weights shifted by one against L)", lin_eq(terms, want_state), f"linear form {({k: str(v) for k, v in (terms or {}).items()})}")
    Lc = cexpr("concatenate([array([-inf]), samples, array([samples[-1]])])")
    want_cw = {f"{Lc}[1:-1]": 1, "logsubexp(X[:-1], X[1:])[:-1]": 1, f"log_integrate_log_trap({Lc}, X)": -1}
    terms = _returned_weight_terms(cw, src(norm_args(calls[0])[1]))
    ctx.ob("R-SIB", "C02.3", cw, "one-pass log posterior weight = L_i + log(X_{i-1} - X_i) - log Z, with the same shift", lin_eq(terms, want_cw), f"linear form {({k: str(v) for k, v in (terms or {}).items()})}")
    rets = [n for n in walk_no_nested(cw.node) if isinstance(n, ast.Return)]
    ctx.ob("R-SIB", "C02.3", cw, "the returned evidence is the closed trapezoid over the same arrays", len(rets) == 1 and isinstance(rets[0].value, ast.Tuple) and canon(rets[0].value.elts[0], inline=inl, rename={src(norm_args(calls[0])[1]): "X"}) == f"log_integrate_log_trap({Lc}, X)", "")
    ctx.floor("C02.3", 8)

    # ---- C02.5 quadrature forms ---------------------------------------------
    inl = single_assignments(trap.node)
    rets = [n for n in walk_no_nested(trap.node) if isinstance(n, ast.Return)]
    ctx.require(len(rets) == 1 and isinstance(rets[0].value, ast.Call) and call_name(rets[0].value) == "logsumexp" and len(rets[0].value.args) == 1, "log_integrate_log_trap: not a single logsumexp(...) return")
    arg = linform(rets[0].value.args[0], inline=inl)
    want = {"logaddexp(log_func[1:], log_func[:-1])": 1, "log(2)": -1, "logsubexp(log_support[:-1], log_support[1:])": 1}
    ctx.ob("R-SIB", "C02.5", trap, "trapezoid in log space: logsumexp(logaddexp(f[:-1], f[1:]) - log 2 + logsubexp(x[:-1], x[1:]))", lin_eq(arg, want) and not rets[0].value.keywords, f"{({k: str(v) for k, v in arg.items()})}")
    rets = [n for n in walk_no_nested(lse.node) if isinstance(n, ast.Return)]
    arg = linform(rets[0].value) if len(rets) == 1 else None
    ctx.ob("R-SIB", "C02.5", lse, "logsubexp(x, y) = x + log1p(-exp(y - x))", lin_eq(arg, {"x": 1, "log1p(-exp(y - x))": 1}), f"{({k: str(v) for k, v in (arg or {}).items()})}")
    guards = [n for n in walk_no_nested(lse.node) if isinstance(n, ast.If) and canon(n.test) in ("any(x < y)", "any(y > x)") and any(isinstance(x, ast.Raise) for x in n.body)]
    ctx.ob("R-SIB", "C02.5", lse, "logsubexp refuses x < y (log of a negative number)", len(guards) == 1, "")
    # read from the path summaries of increment(): what self.logZ, self.logw and the recorded volume end up holding in terms
    # of the values on entry (temporaries such as `oldZ = self.logZ`, renamed locals and argument order do not matter)
    from ..summ import summarise as _summ02
    from ..q import conjuncts as _conj02

    tv = tvar.get(inc.qual) or "?"
    ipaths = [pa_ for pa_ in _summ02(inc.node, max_paths=400) if pa_.end != "raise"]
    ok_acc = ok_rect = ok_ord = bool(ipaths)
    seen_w = ""
    T_ALLOWED = {"-1.0 / nlive", "-1 / nlive", "-log1p(1 / nlive)", "-1.0 / self.base_nlive", "-1 / self.base_nlive", "-log1p(1 / self.base_nlive)"}
    for pa_ in ipaths:
        z_ = pa_.env.get("self.logZ")
        b_ = match_expr("logaddexp($a, $b)", z_) if z_ is not None else None
        w_ = None
        if b_ is not None:
            if canon(b_["a"]) == "self.logZ":
                w_ = b_["b"]
            elif canon(b_["b"]) == "self.logZ":
                w_ = b_["a"]
        # a path taken only for logL == -inf may leave the evidence alone: its weight is log(0), and logaddexp(Z, -inf) == Z
        zero_ = any(tr_ is True and canon(e_) in ("isneginf(logL)", "logL == -inf", "logL == -np.inf", "-inf == logL") for t0_, tr0_ in pa_.guards for e_, tr_ in _conj02(t0_, tr0_))
        unchanged_ = z_ is None or canon(z_) == "self.logZ"
        ok_acc = ok_acc and (w_ is not None or (zero_ and unchanged_))
        t_ = pa_.env.get(tv)
        lw_ = pa_.env.get("self.logw")
        if zero_ and unchanged_ and w_ is None:
            pass
        elif w_ is not None and t_ is not None:
            seen_w = src(w_)[:100]
            lf_ = linform(w_)
            tc_ = canon(t_)
            ok_rect = ok_rect and lin_eq(lf_, {"self.logw": 1, "logL": 1, f"log1p(-exp({tc_}))": 1})
        else:
            ok_rect = False
        # the volume shrinks by logt after the weight was taken, and that new volume is what the history records
        apps_ = [e_[1] for e_ in pa_.effects if e_[0] == "call" and isinstance(e_[1], ast.Call) and canon(e_[1].func) == "self.log_vols.append"]
        ok_ord = ok_ord and t_ is not None and lw_ is not None and lin_eq(linform(lw_), {"self.logw": 1, **linform(t_)}) and len(apps_) == 1 and len(apps_[0].args) == 1 and canon(apps_[0].args[0]) == canon(lw_)
    ctx.ob("R-SIB", "C02.5", inc, "evidence accumulated in log space: logZ = logaddexp(logZ, weight)", ok_acc, f"{len(ipaths)} path(s)")
    ctx.ob("R-SIB", "C02.5", inc, "rectangle rule: weight = log X_{i-1} + logL + log(1 - t)", ok_rect, f"`{seen_w}`")
    ctx.floor("C02.5", 5)

    # ---- C02.8 live counts are divided in floating point -------------------------------------------------------------
    # the shrinkage per iteration is -1/N or -log1p(1/N) for the live count N, which the integrator keeps as *integers*
    # (state.nlive is a list of ints, compute_weights accepts that schedule): np.reciprocal of an integer array, `//`
    # and np.floor_divide are integer divisions (1/N == 0 for N > 1), so every quotient on this path must be a true division
    # or carry a float dtype
    n_div = 0
    for f_ in prog.all_functions:
        if f_.module.name not in ("nessai.evidence", "nessai.posterior"):
            continue
        for n_ in walk_no_nested(f_.node):
            if isinstance(n_, ast.Call) and (call_name(n_) or "").split(".")[-1] in ("reciprocal", "floor_divide"):
                n_div += 1
                kw_ = {k_.arg: k_.value for k_ in n_.keywords}
                a0_ = n_.args[0] if n_.args else None
                flt_ = (call_name(n_) or "").endswith("reciprocal") and (("dtype" in kw_ and canon(kw_["dtype"]) in ("float", "float64", "double", "longdouble")) or (isinstance(a0_, ast.Call) and (((call_name(a0_) or "").split(".")[-1] in ("array", "asarray") and any(k_.arg == "dtype" and canon(k_.value) in ("float", "float64") for k_ in a0_.keywords)) or (isinstance(a0_.func, ast.Attribute) and a0_.func.attr == "astype" and a0_.args and canon(a0_.args[0]) in ("float", "float64")))))
                ctx.ob("R-API", "C02.8", f_, "a quotient of live counts is a true (floating-point) division", flt_, f"`{src(n_)[:70]}`: integer input gives integer division (1/N == 0 for N > 1)", node=n_)
            elif isinstance(n_, ast.BinOp) and isinstance(n_.op, ast.FloorDiv) and any(isinstance(x_, ast.Name) and "nlive" in x_.id for x_ in ast.walk(n_)):
                n_div += 1
                ctx.ob("R-API", "C02.8", f_, "a quotient of live counts is a true (floating-point) division", False, f"`{src(n_)[:70]}` floors the quotient", node=n_)
            elif isinstance(n_, ast.BinOp) and isinstance(n_.op, ast.Div) and any(isinstance(x_, ast.Name) and "nlive" in x_.id for x_ in ast.walk(n_.right)):
                n_div += 1
                ctx.ob("R-API", "C02.8", f_, "a quotient of live counts is a true (floating-point) division", True, f"`{src(n_)[:70]}`", node=n_)
    ctx.floor("C02.8", 4)

    # ---- C02.6 volumes decrease: order of the updates in increment -------------
    fa = FA(inc)
    upd = fa.find(lambda s: isinstance(s, ast.AugAssign) and is_self_attr(s.target, "logw"))
    app = fa.find_calls("self.log_vols.append")
    ok = ok_ord and ok_rect and len(app) == 1 and fa.once(app[0][0]) and fa.on_every_normal_path(app[0][0]) and all(fa.once(u_) for u_ in upd)
    ctx.ob("R-ORDER", "C02.6", inc, "each increment: weight uses the volume before shrinking, then logw += logt (negative), then the new volume is recorded - exactly once", ok, "")
    lapp = fa.find_calls("self.logLs.append")
    ctx.ob("R-ORDER", "C02.6", inc, "likelihood and volume histories grow together (one append each per increment)", len(lapp) == 1 and fa.once(lapp[0][0]) and fa.on_every_normal_path(lapp[0][0]) and src(lapp[0][1].args[0]) == "logL", "")
    ctx.floor("C02.6", 2)

    # ---- C02.4 shift-degree typing -----------------------------------------------
    reports = []

    def rep(fn):
        def r(node, msg):
            reports.append((fn, node, msg))
        return r

    fields = {"self.logZ": 1, "self.oldZ": 1, "self.logw": 0, "self.logLs": 1, "self.log_vols": 0, "self.info": TOP, "self.nlive": 0, "self.base_nlive": 0, "self.gradients": TOP, "self.expectation": 0, "self.track_gradients": 0}
    lists = {"self.logLs", "self.log_vols", "self.info", "self.nlive", "self.gradients"}
    helpers = {"logsubexp": lse, "log_integrate_log_trap": trap}
    results = {}
    n_expr = 0
    for f, env in ((ini, {"nlive": Fraction(0), "track_gradients": Fraction(0), "expectation": Fraction(0)}),
                   (inc, {"logL": Fraction(1), "nlive": Fraction(0)}),
                   (glx, {"nlive": Fraction(0)}),
                   (fin, {}),
                   (lpw, {}),
                   (cw, {"samples": Fraction(1), "nlive": Fraction(0), "expectation": Fraction(0)})):
        chk = DegChecker(fields, lists, rep(f), helpers)
        r = chk.function(f.node, dict(env))
        results[f.qual] = (r, chk._ret_tuple, dict(env))
        n_expr += chk.n_exprs
    for f, node, msg in reports:
        ctx.ob("R-DEG", "C02.4", f, "every store respects the declared shift degree and no exp/log sees a shift-dependent value", False, msg, node=node)
    ctx.ob("R-DEG", "C02.4", "nessai.evidence", "shift-degree typing of the integrator and weight functions completed", True, f"{n_expr} expressions typed; fields {({k: str(v) for k, v in fields.items()})}")
    def s(d):
        return str(d)
    ctx.ob("R-DEG", "C02.4", fin, "finalised log-evidence shifts by exactly the offset (degree 1)", results[fin.qual][0] == Fraction(1), f"degree {s(results[fin.qual][0])}")
    ctx.ob("R-DEG", "C02.4", lpw, "log posterior weights are invariant under a likelihood offset (degree 0)", results[lpw.qual][0] == Fraction(0), f"degree {s(results[lpw.qual][0])}")
    ctx.ob("R-DEG", "C02.4", glx, "live-point log volumes are invariant (degree 0)", results[glx.qual][0] == Fraction(0), f"degree {s(results[glx.qual][0])}")
    rt = results[cw.qual][1]
    ctx.ob("R-DEG", "C02.4", cw, "compute_weights returns (log-evidence of degree 1, log-weights of degree 0)", rt is not None and rt == [Fraction(1), Fraction(0)], f"degrees {[s(x) for x in rt] if rt else None}")
    ctx.floor("C02.4", 5)
    # a value handed out by a property is modified in place only if the getter returns a fresh object (R-ALIAS):
    # effective_n_posterior_samples normalises the posterior weights in place - fine as long as log_posterior_weights
    # computes them anew on every call and keeps nothing
    from ..rules import alias as _alias
    _al = _alias.scan(prog)
    ctx.require(_alias.self_check(), "R-ALIAS fixtures: the caching getter with an in-place consumer is not reported / the fresh twin is")
    ctx.ob("R-ALIAS", "C02.7", "nessai", "every in-place consumer of a property value was paired with the getters of that name (fixtures re-decided)", True, f"{len(_al)} consumer(s)")
    for _f, _mod, _attr, _c, _ok, _why in _al:
        ctx.ob("R-ALIAS", "C02.7", _f, f"the value of property `{_attr}` is modified in place only because every getter of that name returns a fresh object", _ok, _why, node=_mod)
    ctx.floor("C02.7", 1)
    ctx.extra["expressions_typed"] = n_expr
    ctx.assumptions += ["exact arithmetic for the offset clause (floating-point agreement with arbitrary precision is not decided)", "numpy/scipy semantics of logaddexp, logsumexp, log1p, cumsum"]


def _returned_weight_terms(f, xname):
    """Linear form of the returned log posterior weights with single-assignment locals inlined;
    `xname` (the imperatively built volume array, if any) is renamed to X."""
    inl = single_assignments(f.node)
    rets = [n for n in walk_no_nested(f.node) if isinstance(n, ast.Return)]
    if len(rets) != 1:
        return None
    rv = rets[0].value.elts[-1] if isinstance(rets[0].value, ast.Tuple) else rets[0].value
    ren = {xname: "X"} if xname else {}
    if isinstance(rv, ast.Name) and rv.id not in inl:
        # built by `w = a + b` followed by `w -= c`
        from ..lin import lin_add, lin_sub
        total = None
        for n in sorted([x for x in walk_no_nested(f.node) if isinstance(x, ast.stmt)], key=lambda x: x.lineno):
            if isinstance(n, ast.Assign) and isinstance(n.targets[0], ast.Name) and n.targets[0].id == rv.id:
                total = linform(n.value, inline=inl, rename=ren)
            elif isinstance(n, ast.AugAssign) and isinstance(n.target, ast.Name) and n.target.id == rv.id and total is not None:
                total = lin_sub(total, linform(n.value, inline=inl, rename=ren)) if isinstance(n.op, ast.Sub) else (lin_add(total, linform(n.value, inline=inl, rename=ren)) if isinstance(n.op, ast.Add) else None)
        return total
    return linform(rv, inline=inl, rename=ren)


CLAIM = {
    "text": "Decides (a) that the three implementations of the expected shrinkage (incremental integrator, live-point volumes, one-pass weights) canonicalise, per mode, to the documented -1/n and -log1p(1/n), that the final live-count schedules denote nlive..1 in all three places, that both the incremental and the one-pass code build the same closed trapezoid (L ++ [L[-1]], X ++ [-inf], X0 = 0, L0 = -inf) and the rectangle weights L_i + log(X_{i-1}-X_i) - log Z, and that the trapezoid / logsubexp / rectangle-update expressions equal the documented forms as order-insensitive linear forms over canonical atoms; (b) by shift-degree type checking of every expression (~300) of the integrator and weight functions, that log Z has degree 1, volumes and weights degree 0, every store respects its field's degree, logaddexp/comparisons only combine equal degrees and no exp/log/log1p ever sees a value that moves with a likelihood offset - which is the exact-arithmetic offset clause and the necessary condition for the no-overflow clause. Values handed out by a property are modified in place (effective_n_posterior_samples normalises the weights in place) only because every getter of that name returns a fresh object on all paths (R-ALIAS). The expectation option is compared under one normalisation everywhere it is interpreted (C02.1: stored lower-cased if compared as stored; never both `.lower()`-ed and raw inside one function, helpers inlined). Quotients of live counts are true divisions or carry a float dtype (C02.8: np.reciprocal / floor division of the integer schedule the integrator holds would zero every shrinkage). A path of increment taken only for logL == -inf may leave the evidence unchanged (logaddexp(Z, -inf) == Z) but must still shrink and record the volume.",
    "note": "Syntactic algebra and abstract interpretation only: agreement with an arbitrary-precision evaluation to floating-point accuracy, precision at extreme dynamic range and tie/-inf behaviour are not decided. The information estimate is typed TOP (its invariance rests on two coefficients summing to one) and is checked not to flow into the obligations.",
}

_E = "nessai/evidence.py"
_P = "nessai/posterior.py"
MUTANTS = [
    {"id": "increment-shrinkage", "file": _E, "old": "            logt = -1.0 / nlive\n", "new": "            logt = -1.0 / (nlive + 1)\n", "expect": "expected shrinkage in mode 'logt'"},
    {"id": "increment-t-mode", "file": _E, "old": "            logt = -np.log1p(1 / nlive)\n", "new": "            logt = -np.log(1 / nlive)\n", "expect": "expected shrinkage in mode 't'"},
    {"id": "weights-t-mode", "file": _P, "old": "        logt = -np.log1p(1.0 / nlive_per_iteration)\n", "new": "        logt = -np.log1p(1.0 / (nlive_per_iteration + 1))\n", "expect": "expected shrinkage in mode 't'"},
    {"id": "live-volumes-modes-swapped", "file": _E, "old": '        if self.expectation.lower() == "logt":\n            logt = -1.0 / nlive_per_iteration\n        elif self.expectation.lower() == "t":', "new": '        if self.expectation.lower() == "t":\n            logt = -1.0 / nlive_per_iteration\n        elif self.expectation.lower() == "logt":', "expect": "expected shrinkage"},
    {"id": "weights-schedule-off-by-one", "file": _P, "old": "nlive_per_iteration[-nlive:] = np.arange(nlive, 0, -1, dtype=float)", "new": "nlive_per_iteration[-nlive:] = np.arange(nlive - 1, -1, -1, dtype=float)", "expect": "last nlive samples"},
    {"id": "closing-point-dropped", "file": _E, "old": "            np.array(self.logLs + [self.logLs[-1]]),\n            np.array(self.log_vols + [-np.inf]),\n        )\n        return self.logZ", "new": "            np.array(self.logLs),\n            np.array(self.log_vols),\n        )\n        return self.logZ", "expect": "trapezoid closed"},
    {"id": "weights-misaligned", "file": _P, "old": "log_post_w = log_likelihoods[1:-1] + log_w[:-1]", "new": "log_post_w = log_likelihoods[1:-1] + log_w[1:]", "expect": "log posterior weight"},
    {"id": "trapezoid-no-half", "file": _E, "old": "np.logaddexp(log_func[:-1], log_func[1:]) - np.log(2)", "new": "np.logaddexp(log_func[:-1], log_func[1:])", "expect": "trapezoid in log space"},
    {"id": "logsubexp-sign", "file": _E, "old": "    return x + np.log1p(-np.exp(y - x))", "new": "    return x + np.log1p(-np.exp(x - y))", "expect": "logsubexp(x, y)"},
    {"id": "absolute-exp", "file": _E, "old": "        self.logZ = np.logaddexp(self.logZ, Wt)\n", "new": "        self.logZ = np.log(np.exp(self.logZ) + np.exp(Wt))\n", "expect": "no exp/log sees"},
    {"id": "weights-not-normalised", "file": _P, "old": "    log_post_w -= log_evidence\n", "new": "", "expect": "C02"},
    {"id": "volume-recorded-before-shrink", "file": _E, "edits": [(_E, "        self.logw += logt\n        self.logLs.append(logL)\n        self.log_vols.append(self.logw)\n", "        self.log_vols.append(self.logw)\n        self.logw += logt\n        self.logLs.append(logL)\n")], "expect": "each increment"},
    {"id": "weight-uses-likelihood-twice", "file": _E, "old": "        Wt = self.logw + logL + np.log1p(-np.exp(logt))", "new": "        Wt = self.logw + 2 * logL + np.log1p(-np.exp(logt))", "expect": "C02"},
    {"id": "initial-volume", "file": _E, "old": "        self.log_vols = [0.0]  # Volumes enclosed by contours", "new": "        self.log_vols = [-1.0]  # Volumes enclosed by contours", "expect": "start at [0.0]"},
]
