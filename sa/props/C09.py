"""C09 - proposal pools follow the prior inside the contour and never leave the prior."""

import ast

import networkx as nx

from .. import tables
from ..callgraph import callgraph
from ..canon import single_assignments
from ..pat import find_expr, find_stmt, match_expr, match_stmt
from ..pm import src
from ..q import FA, attr_mutating_calls, attr_stores, call_name, guard_facts, is_self_attr, walk_no_nested, conjuncts
from ..resolve import resolver
from ..rules import pair

TECHNIQUE = "R-SIB over the step lists of the three populate implementations, R-WRITERS on the hand-out indices, R-ORDER/R-DOM on the bounds gate, mask-before-use typestate on the INS draw functions, R-CALLERS classification of every likelihood evaluation site by the gate that precedes it, R-PAIR row-alignment of parallel arrays; R-DERIVED stale-derived-state rule over the class table; must-pass on the latent draw preparation"

POPULATORS = [tables.ANALYTIC, tables.REJECTION, tables.FP]
PAIR_MODULES = ("nessai.proposal.flowproposal", "nessai.proposal.augmented", "nessai.proposal.importance", "nessai.samplers.importancesampler", "nessai.proposal.rejection", "nessai.proposal.analytic", "nessai.experimental.proposal.clustering", "nessai.utils.structures")


def run(ctx):
    prog = ctx.prog
    res = resolver(prog)
    g, _ = callgraph(prog)
    bp = prog.fn(tables.MODEL + ".batch_evaluate_log_prior").qual

    # ---- C09.1 populate siblings ---------------------------------------------
    for cq in POPULATORS:
        f = ctx.fn(cq + ".populate")
        fa = FA(f)
        done = fa.find(lambda s: isinstance(s, ast.Assign) and any(is_self_attr(t, "populated") for t in s.targets) and isinstance(s.value, ast.Constant) and s.value.value is True)
        ctx.require(len(done) == 1, f"{cq}.populate: `self.populated = True` not found exactly once")
        D = done[0]
        st_samples = [n for n, s in fa.assigns_to_attr("samples") if isinstance(s, ast.Assign) and any(is_self_attr(t, "samples") for t in s.targets)]
        st_logl = fa.find(lambda s: match_stmt("self.samples['logL'] = self.model.batch_evaluate_log_likelihood(self.samples)", s) is not None)
        st_idx = fa.find(lambda s: match_stmt("self.indices = random.permutation($n).tolist()", s) is not None)
        ctx.ob("R-SIB", "C09.1", f, "pool likelihoods are the model's, evaluated on the stored pool: samples['logL'] = model.batch_evaluate_log_likelihood(self.samples)", len(st_logl) == 1, f"{[fa.text(x) for x in st_logl]}")
        okidx = len(st_idx) == 1 and src(match_stmt("self.indices = random.permutation($n).tolist()", fa.stmt(st_idx[0]))["n"]) in ("self.samples.size", "self.samples.shape[0]", "len(self.samples)")
        ctx.ob("R-SIB", "C09.1", f, "hand-out order is a fresh permutation of exactly the pool rows", okidx, f"{[fa.text(x) for x in st_idx]}")
        # prior stored from the model's batch evaluator for the pool's rows (directly or through a helper)
        prior_ok, how = prior_store(prog, res, g, f, fa, bp)
        ctx.ob("R-SIB", "C09.1", f, "pool log-priors come from model.batch_evaluate_log_prior of the pool's own rows", prior_ok, how)
        steps = st_samples[-1:] + st_logl[:1] + st_idx[:1]
        order = len(steps) == 3 and all(fa.dominates(x, D) for x in steps) and fa.dominates(st_samples[-1], st_logl[0])
        ctx.ob("R-ORDER", "C09.1", f, "populated = True only after samples, likelihoods and indices were stored, on every path that sets it", order, "")
        later = [n for n in st_samples if fa.cfg.can_follow(st_idx[0], n)] if st_idx else [1]
        ctx.ob("R-ORDER", "C09.1", f, "the pool is not modified after the permutation was drawn (indices stay valid)", not later, "")
    ctx.floor("C09.1", 15)

    # ---- C09.2 hand-out at most once ---------------------------------------------
    prop_classes = [prog.cls(tables.PROPOSAL)] + prog.subclasses(prog.cls(tables.PROPOSAL))
    prop_classes = [c for c in prop_classes if prog.cls(tables.IFP) not in prog.mro(c)]
    for f, n, kind in attr_stores(prog, "indices", prop_classes):
        par = _stmt_of(f.node, n)
        ok = (f.name in ("__init__", "reset", "populate") and isinstance(par, ast.Assign))
        if f.name in ("__init__", "reset") or (f.name == "populate" and isinstance(par, ast.Assign) and match_stmt("self.indices = []", par) is not None):
            ok = ok and match_stmt("self.indices = []", par) is not None
        ctx.ob("R-WRITERS", "C09.2", f, "self.indices is assigned only empty (init / reset / start of populate) or a fresh permutation (populate)", ok, f"`{src(par)[:70]}`", node=n)
    for f, n, m in attr_mutating_calls(prog, "indices", prop_classes):
        ctx.ob("R-WRITERS", "C09.2", f, "indices are consumed only by pop() inside draw()", m == "pop" and f.name == "draw" and not n.args, f"`{src(n)}`", node=n)
    for cq in (tables.ANALYTIC, tables.FP):
        f = ctx.fn(cq + ".draw")
        fa = FA(f)
        rets = [n for n in walk_no_nested(f.node) if isinstance(n, ast.Return)]
        npop = [c for c in walk_no_nested(f.node) if isinstance(c, ast.Call) and call_name(c) == "self.indices.pop"]
        # the index is popped exactly once and the row at that index is what is returned (locals may or may not be used)
        okd = len(npop) == 1 and len(rets) == 1 and rets[0].value is not None and match_expr("self.samples[self.indices.pop()]", rets[0].value, inline=single_assignments(f.node, allow_mutated=True)) is not None
        ctx.ob("R-SIB", "C09.2", f, "draw() returns the pool row at the popped index (each index is popped once)", okd, "")
        clr = find_stmt("if not self.indices:\n    self.populated = False", f.node) or [x for x in walk_no_nested(f.node) if isinstance(x, ast.If) and src(x.test) == "not self.indices" and any(match_stmt("self.populated = False", s) is not None for s in x.body)]
        ctx.ob("R-ORDER", "C09.2", f, "an exhausted pool is marked unpopulated so it is refilled before the next draw", len(clr) == 1, "")
        calls = fa.find_calls("self.populate")
        guards = [[(src(e), t) for e, t in guard_facts(fa, nid)] for nid, c in calls]
        ctx.ob("R-DOM", "C09.2", f, "the pool is refilled only when it is not populated", calls and all(("self.populated", False) in gds for gds in guards), f"{guards}")
    ctx.floor("C09.2", 10)

    # ---- C09.3 bounds gate -----------------------------------------------------------
    cb = ctx.fn(tables.FP + ".check_prior_bounds")
    okcb = len(find_stmt("$$f = self.model.in_bounds(x)", cb.node)) == 1 and len(find_expr("($$a[$$f] for $$a in (x,) + args)", cb.node)) == 1
    ctx.ob("R-SIB", "C09.3", cb, "check_prior_bounds filters every array it is given with the single mask model.in_bounds(x)", okcb, "")
    for cq in (tables.FP, tables.AFP):
        f = prog.cls(cq).methods.get("backward_pass")
        ctx.require(f is not None, f"{cq}.backward_pass vanished")
        ctx.analysed_functions.add(f.qual)
        fa = FA(f)
        gate = fa.find_calls("self.check_prior_bounds")
        ctx.require(len(gate) == 1, f"{cq}.backward_pass: expected one check_prior_bounds call")
        gst = fa.stmt(gate[0][0])
        facts = [(src(e), t) for e, t in guard_facts(fa, gate[0][0])]
        targets = [src(t) for t in gst.targets[0].elts] if isinstance(gst, ast.Assign) and isinstance(gst.targets[0], ast.Tuple) else []
        args = [src(a) for a in gate[0][1].args]
        inv = find_stmt("$$x, $$J = self.inverse_rescale($$x)", f.node)
        # the density array is located as whatever the rescaling Jacobian is combined with (sign: C08.1)
        dens = [h for pat_ in ("$$lp -= $$J", "$$lp += $$J", "$$lp = $$lp - $$J", "$$lp = $$lp + $$J", "$$lp = $$J + $$lp") for h in find_stmt(pat_, f.node, {"J": inv[0][1]["J"]})] if len(inv) == 1 else []
        xn = src(inv[0][1]["x"]) if len(inv) == 1 else None
        lpn = src(dens[0][1]["lp"]) if len(dens) == 1 else None
        ctx.ob("R-DOM", "C09.3", f, "when rescaling to the physical space, the generated points and their densities are re-bound to the outputs of check_prior_bounds", ("rescale", True) in facts and targets == args and xn is not None and lpn is not None and args and args[0] == xn and lpn in targets, f"`{src(gst)}` under {facts}")
        # nothing rebinding the points between the gate and the returns
        rets = fa.find(lambda s: isinstance(s, ast.Return) and s.value is not None and isinstance(s.value, ast.Tuple) and len(s.value.elts) >= 2 and src(s.value.elts[0]) == xn and src(s.value.elts[1]) == lpn)
        later = [n for n in fa.find(lambda s: isinstance(s, ast.Assign) and any(src(t) == xn or (isinstance(t, ast.Tuple) and xn in [src(e) for e in t.elts]) for t in s.targets)) if fa.cfg.can_follow(gate[0][0], n) and n != gate[0][0]]
        ctx.ob("R-ORDER", "C09.3", f, "the gated arrays are what is returned (no re-binding after the gate)", bool(rets) and not later, "")
        invc = fa.find_calls("self.inverse_rescale")
        ctx.ob("R-ORDER", "C09.3", f, "the bounds gate is applied to the physical-space points (after inverse_rescale)", len(invc) == 1 and fa.dominates(invc[0][0], gate[0][0]), "")
    # with every reparameterisation offering a prime prior, populate() skips this gate (backward_pass(rescale=False)) and
    # relies on x_prime_log_prior alone: its bounds must follow every change of the rescaling bounds
    rtb_ = prog.cls(tables.RTB) if hasattr(tables, "RTB") else prog.cls("nessai.reparameterisations.rescale:RescaleToBounds")
    for m_ in ("set_bounds", "update_bounds"):
        fm_ = rtb_.methods[m_]
        ctx.analysed_functions.add(fm_.qual)
        fam_ = FA(fm_)
        st_ = [n for n, s_ in fam_.assigns_to_attr("bounds")]
        up_ = fam_.find_calls("self.update_prime_prior_bounds")
        ctx.ob("R-ORDER", "C09.3", fm_, f"RescaleToBounds.{m_}: the prime-space prior bounds (the only prior gate of the x'-prior path) are recomputed after every write of the rescaling bounds", len(st_) == 1 and len(up_) == 1 and fam_.cfg.must_pass(st_[0], fam_.cfg.exit, [up_[0][0]]), "")
    ctx.floor("C09.3", 9)

    # ---- C09.4 INS mask-before-use ---------------------------------------------------------
    for name in ("draw", "draw_from_flows"):
        f = ctx.fn(f"{tables.IFP}.{name}")
        fa = FA(f)
        subsets = fa.find_calls("get_subset_arrays")
        masks = []
        for nid, c in subsets:
            m = c.args[0]
            from ..canon import canon as _canon
            text = _canon(m)
            if isinstance(m, ast.Name):
                defs = sorted([s for s in walk_no_nested(f.node) if isinstance(s, ast.Assign) and isinstance(s.targets[0], ast.Name) and s.targets[0].id == m.id and s.lineno < c.lineno], key=lambda s: s.lineno)
                text = _canon(defs[-1].value) if defs else text
            masks.append((nid, text, [src(a) for a in c.args[1:]]))
        if name == "draw":
            # the accumulated batch of points (its density rows are joined by a sibling statement of the same shape)
            cc = [x_ for x_ in find_stmt("$$S = concatenate([$$S, $$x])", f.node) if "log_q" not in src(x_[1]["S"]) and "log_q" not in src(x_[1]["x"])]
            if not cc:
                # the same accumulation as a list of batches joined once after the loop: B.append(x) ... concatenate(B)
                joined_ = {src(c_.args[0]) for c_ in walk_no_nested(f.node) if isinstance(c_, ast.Call) and (call_name(c_) or "").split(".")[-1] == "concatenate" and c_.args and isinstance(c_.args[0], ast.Name)}
                cc = [x_ for x_ in find_stmt("$$S.append($$x)", f.node) if src(x_[1]["S"]) in joined_ and "log_q" not in src(x_[1]["S"]) and "log_q" not in src(x_[1]["x"])]
            samp = src(cc[0][1]["x"]) if len(cc) == 1 else "x"
            acc_name = src(cc[0][1]["S"]) if len(cc) == 1 else "samples"
        else:
            rr = [n for n in walk_no_nested(f.node) if isinstance(n, ast.Return) and isinstance(n.value, ast.Tuple)]
            samp = src(rr[0].value.elts[0]) if len(rr) == 1 else "samples"
        cube = [m for m in masks if f"self.model.in_unit_hypercube({samp})" in m[1] and samp in m[2]]
        prior = [m for m in masks if f"isfinite({samp}['logP'])" in m[1] and samp in m[2]]
        ctx.ob("R-ORDER", "C09.4", f, "generated points pass a mask containing model.in_unit_hypercube(points)", len(cube) == 1, f"masks {[m[1][:70] for m in masks]}")
        ctx.ob("R-ORDER", "C09.4", f, "generated points pass a mask containing isfinite(points['logP'])", len(prior) == 1, f"masks {[m[1][:70] for m in masks]}")
        if cube and prior:
            ev = fa.find_calls("self.model.batch_evaluate_log_prior")
            ctx.ob("R-ORDER", "C09.4", f, "order: hypercube mask -> prior evaluated on the surviving points (unit_hypercube=True) -> finite-prior mask -> result", len(ev) == 1 and fa.dominates(cube[0][0], ev[0][0]) and fa.dominates(ev[0][0], prior[0][0]) and any(k.arg == "unit_hypercube" and isinstance(k.value, ast.Constant) and k.value.value is True for k in ev[0][1].keywords), "")
            # results: what is concatenated / returned is bound after the last mask
            if name == "draw":
                cat = fa.find(lambda s: (lambda b_: b_ is not None and src(b_["x"]) == samp)(match_stmt("$$S = concatenate([$$S, $$x])", s)))
                if not cat:
                    cat = fa.find(lambda s: (lambda b_: b_ is not None and src(b_["x"]) == samp and src(b_["S"]) == acc_name)(match_stmt("$$S.append($$x)", s)))
                ctx.ob("R-ORDER", "C09.4", f, "only doubly masked points are appended to the returned batch", len(cat) == 1 and fa.dominates(prior[0][0], cat[0]) and not _rebinds(fa, samp, prior[0][0], cat[0]), "")
            else:
                rets = fa.find(lambda s: isinstance(s, ast.Return))
                ctx.ob("R-ORDER", "C09.4", f, "only doubly masked points are returned", len(rets) == 1 and fa.dominates(prior[0][0], rets[0]) and src(fa.stmt(rets[0]).value.elts[0]) == samp, "")
    pl = ctx.fn(tables.INS + ".populate_live_points")
    pla = FA(pl)
    acc = find_stmt("$$a = isfinite($$p['logP'])", pl.node)
    cp = find_stmt("$$lp[$s] = $$p[$$a][:$$m]", pl.node)
    okp = len(acc) == 1 and len(cp) == 1 and src(acc[0][1]["a"]) == src(cp[0][1]["a"]) and src(acc[0][1]["p"]) == src(cp[0][1]["p"])
    ctx.ob("R-ORDER", "C09.4", pl, "initial INS points are copied only through points[isfinite(points['logP'])]", okp, "")
    draws = find_stmt("$$p = self.model.sample_unit_hypercube($n)", pl.node)
    ctx.ob("R-SIB", "C09.4", pl, "initial INS points are prior draws in the unit hypercube", len(draws) == 1 and okp and src(draws[0][1]["p"]) == src(acc[0][1]["p"]), "")
    ctx.floor("C09.4", 9)

    # ---- C09.5 likelihood entry points ---------------------------------------------------------
    gates = {
        (tables.NS + ".yield_sample"): "logP != -inf guard (C01.1); the point was drawn by a proposal pool",
        (tables.ANALYTIC + ".populate"): "points drawn from the prior by model.new_point",
        (tables.REJECTION + ".populate"): "points drawn from the prior by model.new_point (rejection-sampled)",
        (tables.FP + ".populate"): "bounds gate in backward_pass + prior/q rejection weights",
        (tables.INS + ".populate_live_points"): "unit-hypercube prior draws with finite prior",
        (tables.INS + ".draw_n_samples"): "ImportanceFlowProposal.draw: hypercube + finite-prior masks",
        (tables.INS + ".adjust_final_samples"): "draw / draw_from_prior (post-processing option)",
        (tables.INS + ".draw_more_nested_samples"): "draw_from_flows masks",
        (tables.INS + ".draw_final_samples"): "draw_from_flows masks",
        ("nessai.proposal.base:Proposal.evaluate_likelihoods"): "helper evaluating the pool already filled by populate",
    }
    gate_quals = {}
    for q, why in gates.items():
        try:
            gate_quals[prog.fn(q).qual] = why
        except Exception:
            ctx.note(f"likelihood-site table entry no longer present: {q}")
    n_sites = 0
    for f in prog.all_functions:
        if f.module.name == "nessai.model":
            continue
        for n in walk_no_nested(f.node):
            if isinstance(n, ast.Call) and isinstance(n.func, ast.Attribute) and n.func.attr in ("evaluate_log_likelihood", "batch_evaluate_log_likelihood"):
                n_sites += 1
                ctx.ob("R-CALLERS", "C09.5", f, "likelihood evaluation site is one of the reviewed, gated sites", f.qual in gate_quals, gate_quals.get(f.qual, f"unreviewed likelihood evaluation `{src(n)[:70]}`"), node=n)
    ctx.require(n_sites >= 9, f"only {n_sites} likelihood evaluation sites found")
    ctx.floor("C09.5", 9)

    # ---- C09.6 parallel arrays stay row-aligned ---------------------------------------------------
    fns = [f for f in prog.all_functions if f.module.name in PAIR_MODULES]

    def ob_pair(f, node, ok, detail):
        ctx.ob("R-PAIR", "C09.6", f, "arrays describing the same rows (points, latent points, densities, Jacobians) are filtered and indexed together", ok, detail, node=node)

    nj, ni = pair.scan(prog, fns, ob_pair)
    ctx.extra["joint_filters"] = nj
    ctx.extra["mask_index_operations"] = ni
    ctx.require(nj >= 8, f"only {nj} joint filters found")
    ctx.floor("C09.6", 8)
    # ---- C09.8 the rejection step that turns proposal draws into prior draws ----------------------------------
    from ..canon import linform as _lf, single_assignments as _sa
    from ..lin import lin_eq as _leq
    for cq in (tables.REJECTION, tables.FP):
        cw_ = prog.cls(cq).methods.get("compute_weights")
        ctx.require(cw_ is not None, f"{cq}.compute_weights vanished")
        inl_ = _sa(cw_.node)
        rets_ = [r for r in walk_no_nested(cw_.node) if isinstance(r, ast.Return)]
        # every return hands back `log prior - log proposal density` (and, as a pair, the same log prior), with or without locals
        okw_ = bool(rets_) and all(r.value is not None and (match_expr("$p - $q", r.value, inline=inl_) is not None or match_expr("($p - $q, $p)", r.value, inline=inl_) is not None) for r in rets_)
        ctx.ob("R-SIB", "C09.8", cw_, "rejection weights are log prior - log proposal density of the same points (and the log prior is what is returned as such)", okw_, f"`{[src(r)[:60] for r in rets_]}`")
    rp = ctx.fn(tables.REJECTION + ".populate")
    ok_r = False
    inl_rp = _sa(rp.node)
    b0 = find_stmt("$$w, $$x['logP'] = self.compute_weights($$x, return_log_prior=True)", rp.node)
    if len(b0) != 1:
        # the pair unpacked into locals first: `w, p = self.compute_weights(x, return_log_prior=True)` ; `x['logP'] = p`
        b1 = find_stmt("$$w, $$p = self.compute_weights($$x, return_log_prior=True)", rp.node)
        if len(b1) == 1 and len(find_stmt("$$x['logP'] = $$p", rp.node, b1[0][1])) == 1 and sum(1 for t_ in walk_no_nested(rp.node) if isinstance(t_, ast.Name) and t_.id == src(b1[0][1]["p"]) and isinstance(t_.ctx, ast.Store)) == 1:
            b0 = b1
    if len(b0) == 1:
        bb = b0[0][1]
        n1 = find_stmt("$$w -= nanmax($$w)", rp.node, bb) or find_stmt("$$w -= max($$w)", rp.node, bb)
        pools = [b_["v"] for n_, b_ in find_stmt("self.samples = $v", rp.node)]
        acc_ok = len(pools) == 1 and any(match_expr(pat_, pools[0], bb, inline=inl_rp) is not None for pat_ in (
            "$$x[where($$w - log(random.rand(N)) >= 0)[0]]", "$$x[where($$w >= log(random.rand(N)))[0]]", "$$x[where($$w > log(random.rand(N)))[0]]",
            "$$x[$$w - log(random.rand(N)) >= 0]", "$$x[$$w >= log(random.rand(N))]", "$$x[$$w > log(random.rand(N))]"))
        ok_r = len(n1) == 1 and acc_ok and len(find_stmt("$$x = self.draw_proposal(N=N)", rp.node, bb)) == 1
    ctx.ob("R-SIB", "C09.8", rp, "RejectionProposal: N proposal draws, weights normalised by their maximum, one uniform per draw, the pool is the accepted rows of those draws", ok_r, "")
    fp_ = ctx.fn(tables.FP + ".populate")
    fpa = FA(fp_)
    bw = find_stmt("$$w = self.compute_weights($$x, $$q)", fp_.node)
    bq = find_stmt("$$x, $$q = self.backward_pass($$z, rescale=not self.use_x_prime_prior)", fp_.node, bw[0][1] if len(bw) == 1 else None)
    ctx.ob("R-SIB", "C09.8", fp_, "FlowProposal: weights are computed for exactly the points and densities returned by backward_pass of the latent draw", len(bw) == 1 and len(bq) == 1, "")
    if len(bw) == 1:
        bb = bw[0][1]
        n2 = find_stmt("$$w -= $$w.max()", fp_.node, bb)
        u2 = find_stmt("$$u = log(random.rand(len($$w)))", fp_.node, bb)
        ok2 = False
        # one uniform per point of the batch: through a local or written into the comparison
        a2 = []
        if len(u2) == 1:
            a2 = find_stmt("$$a = $$w > $$u", fp_.node, {**bb, **u2[0][1]}) or find_stmt("$$a = $$w >= $$u", fp_.node, {**bb, **u2[0][1]})
        elif not u2:
            a2 = find_stmt("$$a = $$w > log(random.rand(len($$w)))", fp_.node, bb) or find_stmt("$$a = $$w >= log(random.rand(len($$w)))", fp_.node, bb)
        if len(n2) == 1:
            ok2 = len(a2) == 1 and len(find_stmt("$$S[$lo:$hi] = $$x[$$a][:$$m]", fp_.node, {**bb, **a2[0][1]})) == 1
        ctx.ob("R-SIB", "C09.8", fp_, "FlowProposal (per-batch rejection): weights normalised by their maximum, one uniform per point, accepted rows of the same batch are copied into the pool", ok2, "")
        # accumulate-weights branch
        cat = find_stmt("$$S = concatenate([$$S, $$x])", fp_.node, {"x": bb["x"]})
        catw = find_stmt("$$W = concatenate([$$W, $$w])", fp_.node, {"w": bb["w"]})
        ok3 = False
        if len(cat) == 1 and len(catw) == 1:
            cc = {**cat[0][1], **catw[0][1]}
            kc = find_stmt("$$c = max(nanmax($$w), $$c)", fp_.node, {"w": bb["w"]})
            us3 = [b_ for n_, b_ in find_stmt("$$u = log(random.rand(len($$W)))", fp_.node, {"W": cc["W"]})]
            if us3:
                acc3 = [b_ for n_, b_ in find_stmt("$$a = $$W - $$c > $$u", fp_.node, {"W": cc["W"]})]
                ok_u = len(us3) == len(acc3) and all(any(src(a_["u"]) == src(u_["u"]) for u_ in us3) for a_ in acc3)
            else:
                acc3 = [b_ for n_, b_ in find_stmt("$$a = $$W - $$c > log(random.rand(len($$W)))", fp_.node, {"W": cc["W"]})]
                # (one uniform per accumulated point is also `len(W - c)`: subtracting the scalar normaliser keeps the length)
                acc3 += [b_ for n_, b_ in find_stmt("$$a = $$W - $$c > log(random.rand(len($$W - $$c)))", fp_.node, {"W": cc["W"]})]
                if not acc3:
                    # ... or through a local bound once to the normalised weights (what an inlined helper's parameter becomes)
                    inl_fp = _sa(fp_.node)
                    for n_, b_ in find_stmt("$$a = $v", fp_.node):
                        for pt_ in ("$$W - $$c > log(random.rand(len($$W - $$c)))", "$$W - $$c > log(random.rand(len($$W)))"):
                            m_ = match_expr(pt_, b_["v"], {"W": cc["W"]}, inline=inl_fp)
                            if m_ is not None:
                                acc3.append({**m_, "a": b_["a"]})
                                break
                ok_u = True
            fin = find_stmt("self.x = $$S[$$a][:N]", fp_.node, {"S": cc["S"]})
            ok3 = len(kc) == 1 and len(acc3) == 2 and ok_u and all(src(a_["c"]) == src(kc[0][1]["c"]) for a_ in acc3) and len(fin) == 1
        ctx.ob("R-SIB", "C09.8", fp_, "FlowProposal (accumulated weights): points and weights are accumulated together, normalised by the running maximum, one uniform per accumulated point, and the pool is the accepted accumulated rows", ok3, "")
    ctx.floor("C09.8", 5)

    # ---- C09.9 the latent draw is bound to the current contour radius ------------------------------------------------
    # (a) constructor-derived state never goes stale: NDimensionalTruncatedGaussian derives u_max from radius / fuzz in
    #     __init__ and nothing recomputes it, so storing a new radius on an existing instance does not move the truncation
    from ..rules import derived as _der
    deps_, hits_ = _der.stale_stores(prog)
    tg_ = prog.cls("nessai.utils.sampling:NDimensionalTruncatedGaussian")
    ctx.require(tg_ in deps_ and "radius" in deps_[tg_], "NDimensionalTruncatedGaussian: u_max is no longer derived from the radius in __init__ only")
    for c_, d_ in sorted(deps_.items(), key=lambda kv: kv[0].qual):
        bad_ = [(f_, n_) for f_, n_, c2_, a_, ds_ in hits_ if c2_ is c_]
        ctx.ob("R-DERIVED", "C09.9", (bad_[0][0] if bad_ else c_.methods["__init__"]), f"attributes that {c_.name}.__init__ derives once ({', '.join(f'{a} -> {ds}' for a, ds in sorted(d_.items()))}) are not invalidated by a later store to their inputs", not bad_, "; ".join(f"`{src(n_)}` is stored in {f_.short}: {sorted(d_[n_.attr])} keeps describing the old value" for f_, n_ in bad_), node=(bad_[0][1] if bad_ else None))
    # (b) prep_latent_prior builds the draw function from self.r on every path of the radius-dependent modes, and
    #     populate calls it after the radius of this population was stored
    pl_ = ctx.fn(tables.FP + ".prep_latent_prior")
    pla = FA(pl_)
    binds_ = pla.find(lambda s_: isinstance(s_, ast.Assign) and any(src(t_) == "self._draw_func" for t_ in s_.targets))
    ctx.require(len(binds_) >= 3, "prep_latent_prior: bindings of self._draw_func not found")
    from ..q import holds as _h9
    for b_ in binds_:
        v_ = pla.stmt(b_).value
        facts_ = guard_facts(pla, b_)
        if _h9(facts_, "self.latent_prior == 'flow'", True):
            continue  # the flow's own latent distribution has no contour radius
        reads_r = lambda e_: any(isinstance(x_, ast.Attribute) and src(x_) == "self.r" for x_ in ast.walk(e_))
        ok_ = reads_r(v_)
        why_ = f"`{src(v_)[:60]}`"
        if not ok_ and isinstance(v_, ast.Attribute) and isinstance(v_.value, ast.Attribute):
            # bound method of an object: that object must be constructed from self.r on every path to this binding
            owner_ = src(v_.value)
            ctors_ = pla.find(lambda s_: isinstance(s_, ast.Assign) and any(src(t_) == owner_ for t_ in s_.targets) and isinstance(s_.value, ast.Call) and reads_r(s_.value))
            ok_ = bool(ctors_) and pla.cfg.must_pass(pla.cfg.entry, b_, ctors_)
            why_ = f"`{src(pla.stmt(b_))[:60]}`: `{owner_}` is " + ("built from self.r on every path" if ok_ else "not (re)built from self.r on every path to this binding")
        ctx.ob("R-ORDER", "C09.9", pl_, "the latent draw function of a radius-truncated prior is built from the current radius self.r on every path", ok_, why_, node=pla.stmt(b_))
    pp_ = FA(fp_)
    rs_ = pp_.find(lambda s_: isinstance(s_, ast.Assign) and any(src(t_) == "self.r" for t_ in s_.targets))
    pc_ = pp_.find_calls("self.prep_latent_prior")
    ctx.ob("R-ORDER", "C09.9", fp_, "populate prepares the latent draw after the radius of this population was stored (self.r = ... precedes prep_latent_prior on every path)", len(pc_) == 1 and bool(rs_) and pp_.cfg.must_pass(pp_.cfg.entry, pc_[0][0], rs_) and not any(pp_.cfg.can_follow(pc_[0][0], r_) for r_ in rs_), "")
    ctx.floor("C09.9", 5)

    # ---- C09.10 a pre-allocated pool is read whole only when the filling loop ran to its count ---------------------------
    # `A = empty_structured_array(N)` (every field NaN) filled by `A[i:j] = ...` inside `while n < N:` holds N valid rows only
    # if the loop ended because its test failed.  A `break` (a cap on the number of draws, a time-out) leaves the tail
    # unfilled: a later read of A must then be bounded by the fill counter, or be on a path the break cannot lead to
    # (their branch guards contradict each other on an attribute the function does not assign)
    n10 = 0
    for f_ in prog.all_functions:
        if f_.name != "populate" or not f_.module.name.startswith("nessai.proposal"):
            continue
        fa10 = None
        pre_ = {}
        for s_ in walk_no_nested(f_.node):
            if isinstance(s_, ast.Assign) and len(s_.targets) == 1 and isinstance(s_.targets[0], ast.Name) and isinstance(s_.value, ast.Call) and (call_name(s_.value) or "").split(".")[-1] in ("empty_structured_array", "empty", "zeros", "full", "empty_like") and s_.value.args and not (isinstance(s_.value.args[0], ast.Constant) and s_.value.args[0].value == 0):
                pre_.setdefault(s_.targets[0].id, []).append(s_)
        stored_attrs = {src(t_) for s_ in walk_no_nested(f_.node) if isinstance(s_, (ast.Assign, ast.AugAssign)) for t_ in (s_.targets if isinstance(s_, ast.Assign) else [s_.target])}

        def _contradict(fa_, a_, b_):
            for e1_, t1_ in a_:
                for e2_, t2_ in b_:
                    if src(e1_) == src(e2_) and t1_ != t2_ and src(e1_) not in stored_attrs and not any(isinstance(x_, ast.Call) for x_ in ast.walk(e1_)):
                        return True
            return False

        def _own_breaks(loop_):
            out_, stack_ = [], list(loop_.body)
            while stack_:
                x_ = stack_.pop()
                if isinstance(x_, ast.Break):
                    out_.append(x_)
                elif isinstance(x_, (ast.For, ast.While, ast.FunctionDef, ast.Lambda)):
                    continue
                else:
                    stack_ += [c_ for c_ in ast.iter_child_nodes(x_) if isinstance(c_, (ast.stmt, ast.ExceptHandler))]
            return out_

        for w_ in [x_ for x_ in walk_no_nested(f_.node) if isinstance(x_, ast.While)]:
            filled_ = {t_.value.id for s_ in ast.walk(w_) if isinstance(s_, ast.Assign) for t_ in s_.targets if isinstance(t_, ast.Subscript) and isinstance(t_.value, ast.Name) and t_.value.id in pre_}
            if not filled_:
                continue
            fa10 = fa10 or FA(f_)
            counters_ = {x_.id for x_ in ast.walk(w_.test) if isinstance(x_, ast.Name)} & {s_.target.id for s_ in ast.walk(w_) if isinstance(s_, ast.AugAssign) and isinstance(s_.target, ast.Name)}
            breaks_ = _own_breaks(w_)
            inside_ = {id(x_) for x_ in ast.walk(w_)}
            par_ = {id(c_): p_ for p_ in ast.walk(f_.node) for c_ in ast.iter_child_nodes(p_)}
            for A_ in sorted(filled_):
                for r_ in walk_no_nested(f_.node):
                    if not (isinstance(r_, ast.Name) and r_.id == A_ and isinstance(r_.ctx, ast.Load) and id(r_) not in inside_ and r_.lineno > w_.lineno):
                        continue
                    rid_ = [i_ for i_, e_ in fa10.find_expr(lambda e_, r_=r_: e_ is r_)]
                    if not rid_:
                        continue
                    rf_ = guard_facts(fa10, rid_[0])
                    def _bind_facts(b_):
                        # `empty(0 if C else N)` allocates rows only where C is false: a virtual guard of the binding
                        out_ = list(guard_facts(fa10, fa10.cfg.id_of(b_)))
                        a0_ = b_.value.args[0]
                        if isinstance(a0_, ast.Name):
                            # the size is a local set to 0 in one branch and to the count in the other
                            bs_ = [s2_ for s2_ in walk_no_nested(f_.node) if isinstance(s2_, ast.Assign) and len(s2_.targets) == 1 and isinstance(s2_.targets[0], ast.Name) and s2_.targets[0].id == a0_.id]
                            nz_ = [s2_ for s2_ in bs_ if not (isinstance(s2_.value, ast.Constant) and s2_.value.value == 0)]
                            if len(bs_) == 2 and len(nz_) == 1:
                                out_ += list(guard_facts(fa10, fa10.cfg.id_of(nz_[0])))
                            elif len(bs_) == 1 and isinstance(bs_[0].value, ast.IfExp):
                                a0_ = bs_[0].value
                        if isinstance(a0_, ast.IfExp):
                            if isinstance(a0_.body, ast.Constant) and a0_.body.value == 0:
                                out_.append((a0_.test, False))
                            elif isinstance(a0_.orelse, ast.Constant) and a0_.orelse.value == 0:
                                out_.append((a0_.test, True))
                        return out_

                    if all(_contradict(fa10, _bind_facts(b_), rf_) for b_ in pre_[A_]):
                        continue  # the pre-allocated binding cannot reach this read
                    n10 += 1
                    up_ = par_.get(id(r_))
                    bounded_ = isinstance(up_, ast.Subscript) and isinstance(up_.slice, ast.Slice) and up_.slice.upper is not None and any(isinstance(x_, ast.Name) and x_.id in counters_ for x_ in ast.walk(up_.slice.upper))
                    loose_ = [b_ for b_ in breaks_ if not _contradict(fa10, guard_facts(fa10, fa10.cfg.id_of(b_)), rf_)]
                    ctx.ob("R-ORDER", "C09.10", f_, "a pre-allocated pool filled in a counted loop is read whole only if no `break` can end the loop early on that path (or the read is bounded by the fill counter)", bounded_ or not loose_, f"`{src(up_)[:60] if up_ is not None else A_}`" + ("" if bounded_ or not loose_ else f": the `break` at line {getattr(loose_[0], '_orig_lineno', loose_[0].lineno)} leaves rows of `{A_}` unfilled (NaN) and this read takes them"), node=r_)
    ctx.require(n10 >= 1, "no read of a pre-allocated, loop-filled pool found in the populate methods (FlowProposal.populate expected)")
    ctx.floor("C09.10", 1)

    # ---- C09.7 field order of what the proposals hand to the live array ------------------------------
    from ..rules import fieldorder as _fo
    from .. import tables as _t
    _prop = [prog.cls(_t.PROPOSAL)] + prog.subclasses(prog.cls(_t.PROPOSAL))
    _stores = _fo.pool_stores(prog, [c_ for c_ in _prop if prog.cls(_t.IFP) not in prog.mro(c_)])
    ctx.require(len(_stores) >= 3, "pool assignments (self.samples = ...) not found in the populate methods")
    for _f, _s in _stores:
        _ok, _why = _fo.canonical(prog, _f, _s.value)
        ctx.ob("R-FIELDS", "C09.7", _f, "the pool is stored in canonical field order (model.names, then the non-sampling fields): numpy copies a pool row into the live array by position", _ok, _why, node=_s)
    _pl = ctx.fn(_t.NS + ".populate_live_points")
    from ..pat import find_stmt as _fst
    ctx.ob("R-FIELDS", "C09.7", _pl, "the live array is allocated with the same canonical field order (names=self.model.names)", len(_fst("$$lp = empty_structured_array(self.nlive, names=self.model.names)", _pl.node)) == 1, "")
    # positional views of caller-supplied arrays are only combined with scalars (their columns follow the caller's memory order)
    from ..rules import fieldorder as _fo2
    _pv = _fo2.positional_view_uses(prog)
    ctx.require(len(_pv) >= 4, f"only {len(_pv)} uses of a positional view found (in_unit_hypercube / log_prior_unit_hypercube expected)")
    for _f, _n, _ok, _why in _pv:
        ctx.ob("R-FIELDS", "C09.7", _f, "a positional (memory-order) view of a structured array is combined only with scalars, never with a per-parameter array", _ok, _why, node=_n)
    ctx.floor("C09.7", 4)
    ctx.assumptions += ["model.new_point draws inside the prior bounds (user model contract)", "that the pool is *distributed* as the prior restricted to the contour is statistical and not decided; the x'-prior path of FlowProposal.populate is gated by rejection weights (a value-level argument)"]


def prior_store(prog, res, g, f, fa, bp):
    """How the pool's log-prior is filled in `populate`."""
    direct = fa.find(lambda s: match_stmt("self.samples['logP'] = self.model.batch_evaluate_log_prior(self.samples)", s) is not None)
    if len(direct) == 1:
        return True, "direct: samples['logP'] = model.batch_evaluate_log_prior(self.samples)"
    # through compute_weights(x, return_log_prior=True) -> x['logP'] ; self.samples = x[indices]
    cwb_ = list(find_stmt("$$w, $$x['logP'] = self.compute_weights($$x, return_log_prior=True)", f.node))
    for n1_, b1_ in find_stmt("$$w, $$p = self.compute_weights($$x, return_log_prior=True)", f.node):
        # (the pair unpacked into locals first, the log-prior stored into the field next)
        if len(find_stmt("$$x['logP'] = $$p", f.node, b1_)) == 1 and sum(1 for t_ in walk_no_nested(f.node) if isinstance(t_, ast.Name) and t_.id == src(b1_["p"]) and isinstance(t_.ctx, ast.Store)) == 1:
            cwb_.append((n1_, b1_))
    for n, b in cwb_:
        sel = find_stmt("self.samples = $$x[$i]", f.node, {"x": b["x"]})
        cw = prog.find_method(f.cls, "compute_weights")
        okcw = cw is not None and len(find_stmt("$$p = self.model.batch_evaluate_log_prior(x)", cw.node)) == 1 and any(match_stmt("return $$w, $$p", r) is not None for r in ast.walk(cw.node) if isinstance(r, ast.Return))
        if sel and okcw:
            return True, "via compute_weights(x, return_log_prior=True) whose log-prior is model.batch_evaluate_log_prior(x); the pool is a row subset of x"
    # through convert_to_samples
    for n, b in find_stmt("self.samples = self.convert_to_samples($x, plot=plot)", f.node):
        cs = prog.find_method(f.cls, "convert_to_samples")
        okcs = cs is not None and len(find_stmt("x['logP'] = self.model.batch_evaluate_log_prior(x)", cs.node)) == 1
        if okcs:
            fa2 = FA(cs)
            st = fa2.find(lambda s: match_stmt("x['logP'] = self.model.batch_evaluate_log_prior(x)", s) is not None)
            if fa2.on_every_normal_path(st[0]):
                return True, "via convert_to_samples, which stores model.batch_evaluate_log_prior(x) into x['logP'] on every path"
    return False, "no store of model.batch_evaluate_log_prior into the pool's logP field found"


def _stmt_of(fnode, node):
    best = None
    for s in ast.walk(fnode):
        if isinstance(s, ast.stmt) and any(x is node for x in ast.walk(s)):
            if best is None or s.lineno >= best.lineno:
                best = s
    return best


def _rebinds(fa, name, a, b):
    for nid in fa.find(lambda s: isinstance(s, ast.Assign) and any(src(t) == name or (isinstance(t, ast.Tuple) and name in [src(e) for e in t.elts]) for t in s.targets)):
        if nid not in (a, b) and fa.cfg.can_follow(a, nid) and fa.cfg.can_follow(nid, b) and not fa.cfg.can_follow(b, nid):
            return True
    return False


CLAIM = {
    "text": "Decides the gating and hand-out discipline every pool relies on: the three populate implementations (analytic, rejection, flow) each store the pool, its log-prior from model.batch_evaluate_log_prior of the pool's own rows (directly or through a helper whose body is checked), its log-likelihood from model.batch_evaluate_log_likelihood(self.samples) and a fresh permutation of exactly the pool rows before setting populated, and never touch the pool afterwards; indices are only assigned empty / a permutation and consumed by pop() in draw(), which returns the row at the popped index and marks an exhausted pool unpopulated; flow-generated points returned in physical space are exactly the outputs of check_prior_bounds (single in_bounds mask); INS draws pass an in_unit_hypercube mask, then the prior evaluation, then a finite-prior mask before they are appended / returned; every likelihood-evaluation site outside Model is in a reviewed table naming the gate in front of it; and (R-PAIR) arrays describing the same rows are always masked / indexed together - which found and repaired an IndexError in FlowProposal.backward_pass. The three rejection steps have the documented shape (weights = log prior - log proposal density of the same points, normalised by the (running) maximum, one uniform per point, pool = accepted rows); the prime-space prior bounds - the only prior gate of the x'-prior path - are recomputed after every write of the rescaling bounds; pools are stored in canonical field order. Constructor-derived state never goes stale (R-DERIVED: for every class whose __init__ derives an attribute from another and never recomputes it, no later store to the input on a receiver of that type), the latent draw function of a radius-truncated prior is built from the current radius on every path and after the radius of this population was stored (C09.9); positional views are combined only with scalars (with C01.7). A pool array that is pre-allocated (NaN rows) and filled inside a counted loop is read whole only on paths no `break` of that loop can lead to, or through a slice bounded by the fill counter (C09.10).",
    "note": "Does not decide that the pool is distributed as the prior restricted to the contour (statistical), the exact pool size, or latent-contour membership (numeric). Row classes are inferred from a table of length-preserving callees (sa/rules/pair.py); arrays of unrelated origin are assumed compatible.",
}

_FP = "nessai/proposal/flowproposal.py"
_IP = "nessai/proposal/importance.py"
_RJ = "nessai/proposal/rejection.py"
_AN = "nessai/proposal/analytic.py"
MUTANTS = [
    {"id": "draw-cap-in-prefilled-branch", "file": "nessai/proposal/flowproposal.py", "old": "                logger.debug(\"n accepted: %s / %s\", n_accepted, N)\n", "new": "                logger.debug(\"n accepted: %s / %s\", n_accepted, N)\n                if n_proposed > max_samples:\n                    break\n", "expect": "C09.10"},
    {"id": "latent-draw-before-radius", "file": _FP, "old": "        self.prep_latent_prior()\n", "new": "", "count": 1, "expect": "C09.9"},
    {"id": "truncated-gaussian-radius-assigned", "file": _FP, "old": "            self._draw_func = self._populate_dist.sample", "new": "            self._populate_dist.radius = self.r\n            self._draw_func = self._populate_dist.sample", "expect": "derives once"},
    {"id": "prime-prior-bounds-stale", "file": "nessai/reparameterisations/rescale.py", "old": "            logger.debug(f\"New bounds: {self.bounds}\")\n            self.update_prime_prior_bounds()", "new": "            logger.debug(f\"New bounds: {self.bounds}\")", "expect": "the only prior gate of the x'-prior path"},
    {"id": "analytic-no-prior", "file": _AN, "old": '        self.samples["logP"] = self.model.batch_evaluate_log_prior(\n            self.samples\n        )\n', "new": "", "expect": "pool log-priors come from"},
    {"id": "rejection-likelihood-on-all", "file": _RJ, "old": '        self.samples["logL"] = self.model.batch_evaluate_log_likelihood(\n            self.samples\n        )', "new": '        x["logL"] = self.model.batch_evaluate_log_likelihood(x)\n        self.samples = x[indices]', "expect": "C09.1"},
    {"id": "permutation-wrong-size", "file": _FP, "old": "        self.indices = np.random.permutation(self.samples.size).tolist()", "new": "        self.indices = np.random.permutation(N).tolist()", "expect": "fresh permutation of exactly the pool rows"},
    {"id": "populated-before-likelihood", "file": _AN, "edits": [(_AN, "        self.populated = True\n\n    def draw", "\n    def draw"), (_AN, "        self.indices = np.random.permutation(self.samples.shape[0]).tolist()\n", "        self.indices = np.random.permutation(self.samples.shape[0]).tolist()\n        self.populated = True\n")], "expect": "populated = True only after"},
    {"id": "index-not-popped", "file": _FP, "old": "        index = self.indices.pop()\n        new_sample = self.samples[index]\n        if not self.indices:\n            self.populated = False\n            logger.debug(\"Proposal pool is empty\")", "new": "        index = self.indices[-1]\n        new_sample = self.samples[index]\n        if not self.indices:\n            self.populated = False\n            logger.debug(\"Proposal pool is empty\")", "expect": "C09.2"},
    {"id": "pool-never-marked-empty", "file": _AN, "old": "        if not self.indices:\n            self.populated = False\n        return new_sample", "new": "        return new_sample", "expect": "exhausted pool"},
    {"id": "indices-mutated-elsewhere", "file": _FP, "old": "        self.acceptance = []\n        self._draw_func = None", "new": "        self.acceptance = []\n        self.indices.append(0)\n        self._draw_func = None", "expect": "consumed only by pop"},
    {"id": "bounds-gate-skipped", "file": _FP, "old": "            x, z, log_prob = self.check_prior_bounds(x, z, log_prob)\n", "new": "            pass\n", "expect": "ANALYSIS"},
    {"id": "bounds-gate-result-ignored", "file": "nessai/proposal/augmented.py", "old": "            x, log_prob = self.check_prior_bounds(x, log_prob)", "new": "            _ = self.check_prior_bounds(x, log_prob)", "expect": "re-bound to the outputs of check_prior_bounds"},
    {"id": "bounds-mask-per-array", "file": _FP, "old": "        flags = self.model.in_bounds(x)\n        return (a[flags] for a in (x,) + args)", "new": "        flags = self.model.in_bounds(x)\n        return (a[flags[: len(a)]] for a in (x,) + args)", "expect": "single mask"},
    {"id": "ins-hypercube-mask-dropped", "file": _IP, "old": "            acc = (\n                self.model.in_unit_hypercube(x)\n                & np.isfinite(x_check).all(axis=1)", "new": "            acc = (\n                np.isfinite(x_check).all(axis=1)", "expect": "in_unit_hypercube"},
    {"id": "ins-prior-mask-dropped", "file": _IP, "old": "            accept = (\n                np.isfinite(x[\"logP\"])\n                & ~np.isposinf(x[\"logW\"])", "new": "            accept = (\n                ~np.isposinf(x[\"logW\"])", "expect": "isfinite(points['logP'])"},
    {"id": "ins-flows-prior-mask-dropped", "file": _IP, "old": "        samples, log_q = get_subset_arrays(\n            np.isfinite(samples[\"logP\"]), samples, log_q\n        )\n", "new": "", "expect": "isfinite(points['logP'])"},
    {"id": "ins-initial-points-unfiltered", "file": "nessai/samplers/importancesampler.py", "old": "            live_points[n : (n + m)] = points[accept][:m]", "new": "            live_points[n : (n + m)] = points[:m]", "expect": "copied only through"},
    {"id": "ungated-likelihood-site", "file": _FP, "old": "        x[\"logP\"] = self.model.batch_evaluate_log_prior(x)\n        return rfn.repack_fields(", "new": "        x[\"logP\"] = self.model.batch_evaluate_log_prior(x)\n        x[\"logL\"] = self.model.batch_evaluate_log_likelihood(x)\n        return rfn.repack_fields(", "expect": "reviewed, gated sites"},
    {"id": "rejection-accept-flipped", "file": _RJ, "old": "        indices = np.where((log_w - log_u) >= 0)[0]", "new": "        indices = np.where((log_u - log_w) >= 0)[0]", "expect": "RejectionProposal: N proposal draws"},
    {"id": "weights-inverted", "file": _FP, "old": "        log_w = log_p - log_q\n        if return_log_prior:", "new": "        log_w = log_q - log_p\n        if return_log_prior:", "expect": "rejection weights are log prior - log proposal"},
    {"id": "flow-weights-not-normalised", "file": _FP, "old": "                log_w -= log_w.max()\n", "new": "", "expect": "per-batch rejection"},
    {"id": "accumulated-constant-not-updated", "file": _FP, "old": "                log_constant = max(np.nanmax(log_w), log_constant)\n", "new": "", "expect": "accumulated weights"},
    {"id": "z-not-filtered-with-x", "file": _FP, "old": "            x, z, log_prob = x[valid], z[valid], log_prob[valid]", "new": "            x, log_prob = x[valid], log_prob[valid]", "expect": "filtered and indexed together"},
    {"id": "ins-log-q-not-filtered", "file": _IP, "old": "            x, log_q_all = get_subset_arrays(accept, x, log_q_all)", "new": "            x = x[accept]", "expect": "filtered and indexed together"},
]
